"""Independent RFCOMM wire reference (TS 07.10 subset as adapted by the Bluetooth RFCOMM
specification): frame parser (address / control / length indicator / credit octet / FCS),
own CRC table, multiplexer-control-command parser (PN, MSC) and a per-device transmit
ledger evaluated over the host-boundary log of one device (frames it sent in the order it
sent them, frames it received in the order they were delivered to it).

Nothing here imports bumble.rfcomm.
"""
from __future__ import annotations

import struct

from . import rig as vrig
from . import ref_l2cap as rl

RFCOMM_PSM = 0x0003

SABM = 0x2F
UA = 0x63
DM = 0x0F
DISC = 0x43
UIH = 0xEF
UI = 0x03
TYPE_NAMES = {SABM: 'SABM', UA: 'UA', DM: 'DM', DISC: 'DISC', UIH: 'UIH', UI: 'UI'}

MCC_PN = 0x20
MCC_MSC = 0x38


# -----------------------------------------------------------------------------
# FCS: CRC-8, generator x^8 + x^2 + x + 1, bits processed LSB first (reflected polynomial
# 0xE0), initial value 0xFF, ones complement of the remainder is transmitted
# (TS 07.10 5.2.1.6 and annex B).
# -----------------------------------------------------------------------------
def _make_table():
    t = []
    for i in range(256):
        c = i
        for _ in range(8):
            c = (c >> 1) ^ 0xE0 if c & 1 else c >> 1
        t.append(c)
    return t


_T = _make_table()


def fcs(data: bytes) -> int:
    c = 0xFF
    for b in data:
        c = _T[c ^ b]
    return 0xFF - c


# published examples: SABM and UA on DLCI 0 (the frames every RFCOMM session starts with)
assert fcs(bytes([0x03, 0x3F, 0x01])) == 0x1C
assert fcs(bytes([0x03, 0x73, 0x01])) == 0xD7
# TS 07.10 annex B check value: running the FCS octet through the register leaves 0xCF
assert _T[_T[_T[_T[0xFF ^ 0x03] ^ 0x3F] ^ 0x01] ^ 0x1C] == 0xCF


# -----------------------------------------------------------------------------
class Frame:
    __slots__ = ('dlci', 'cr', 'type', 'pf', 'length', 'length_octets', 'credit', 'payload',
                 'fcs', 'fcs_expected', 'problems', 'raw_len')

    @property
    def fcs_ok(self):
        return self.fcs == self.fcs_expected

    @property
    def name(self):
        return TYPE_NAMES.get(self.type, f'{self.type:#04x}')

    def __repr__(self):
        return (f'{self.name}(dlci={self.dlci} c/r={self.cr} p/f={self.pf} len={self.length}'
                f'/{self.length_octets}o credit={self.credit} payload={len(self.payload)}B '
                f'fcs={self.fcs:#04x}{"" if self.fcs_ok else "!=" + format(self.fcs_expected, "#04x")}'
                f'{" " + ";".join(self.problems) if self.problems else ""})')


def parse_frame(data: bytes) -> Frame | None:
    """Parse one RFCOMM frame (= one L2CAP SDU). Structural defects are listed in
    `problems`; None when there are not even address+control+length+FCS."""
    if len(data) < 4:
        return None
    f = Frame()
    f.raw_len = len(data)
    f.problems = []
    addr, ctrl = data[0], data[1]
    if not addr & 1:
        f.problems.append('address EA bit clear')
    f.cr = (addr >> 1) & 1
    f.dlci = addr >> 2
    f.pf = (ctrl >> 4) & 1
    f.type = ctrl & 0xEF
    if f.type not in TYPE_NAMES:
        f.problems.append(f'unknown control {ctrl:#04x}')
    off = 2
    if data[off] & 1:
        f.length = data[off] >> 1
        f.length_octets = 1
        off += 1
    else:
        if len(data) < 5:
            return None
        f.length = (data[off] >> 1) | (data[off + 1] << 7)
        f.length_octets = 2
        off += 2
    header = data[:off]
    f.credit = None
    if f.type == UIH and f.pf and f.dlci != 0:
        # credit based flow control: one credit octet between length indicator and information
        if off > len(data) - 2:
            f.problems.append('P/F=1 UIH without room for a credit octet')
        else:
            f.credit = data[off]
            off += 1
    f.payload = data[off:len(data) - 1]
    if len(f.payload) != f.length:
        f.problems.append(f'length indicator {f.length} but {len(f.payload)} information octets')
    if f.length_octets == 2 and f.length <= 0x7F:
        f.problems.append('two-octet length indicator for a length <= 127')
    f.fcs = data[-1]
    f.fcs_expected = fcs(data[:2]) if f.type in (UIH,) else fcs(header)
    if f.type in (SABM, UA, DM, DISC) and f.length != 0:
        f.problems.append('information field in an unnumbered control frame')
    return f


def make_frame(ftype: int, cr: int, dlci: int, pf: int, payload: bytes = b'', credit: int | None = None) -> bytes:
    """Reference encoder (used by self-tests and hand-driven peers)."""
    addr = (dlci << 2) | (cr << 1) | 1
    ctrl = ftype | (pf << 4)
    n = len(payload)
    ln = bytes([(n << 1) | 1]) if n <= 0x7F else bytes([(n & 0x7F) << 1, n >> 7])
    head = bytes([addr, ctrl]) + ln
    body = (bytes([credit]) if credit is not None else b'') + payload
    return head + body + bytes([fcs(head[:2]) if ftype == UIH else fcs(head)])


def make_mcc(mcc_type: int, cr: int, value: bytes) -> bytes:
    """Reference encoder of one multiplexer control command (type octet, length indicator, value)."""
    n = len(value)
    ln = bytes([(n << 1) | 1]) if n <= 0x7F else bytes([(n & 0x7F) << 1, n >> 7])
    return bytes([(mcc_type << 2) | (cr << 1) | 1]) + ln + value


def make_pn(dlci: int, n1: int, k: int, cl: int = 0xE, priority: int = 7) -> bytes:
    """Reference encoder of the 8-octet PN value (TS 07.10 5.4.6.3.1 as used by RFCOMM: I-bits 0, CL in the
    high nibble of octet 2, T1 = 0, N1 little endian, N2 = 0, K in the low three bits of octet 8)."""
    return bytes([dlci & 0x3F, (cl & 0x0F) << 4, priority & 0x3F, 0, n1 & 0xFF, (n1 >> 8) & 0xFF, 0, k & 0x07])


class Mcc:
    __slots__ = ('type', 'cr', 'value', 'problems')


def parse_mcc(info: bytes) -> Mcc | None:
    if len(info) < 2:
        return None
    m = Mcc()
    m.problems = []
    if not info[0] & 1:
        m.problems.append('MCC type EA clear')
    m.cr = (info[0] >> 1) & 1
    m.type = info[0] >> 2
    if info[1] & 1:
        ln = info[1] >> 1
        off = 2
    else:
        if len(info) < 3:
            return None
        ln = (info[1] >> 1) | (info[2] << 7)
        off = 3
    m.value = info[off:off + ln]
    if len(info) - off != ln:
        m.problems.append(f'MCC length {ln} but {len(info) - off} value octets')
    return m


class Pn:
    __slots__ = ('dlci', 'cl', 'frame_type', 'priority', 't1', 'n1', 'n2', 'k')

    def __repr__(self):
        return f'PN(dlci={self.dlci} cl={self.cl:#x} N1={self.n1} k={self.k})'


def parse_pn(value: bytes) -> Pn | None:
    if len(value) != 8:
        return None
    p = Pn()
    p.dlci = value[0] & 0x3F
    p.frame_type = value[1] & 0x0F
    p.cl = value[1] >> 4
    p.priority = value[2] & 0x3F
    p.t1 = value[3]
    p.n1 = value[4] | (value[5] << 8)
    p.n2 = value[6]
    p.k = value[7] & 0x07
    return p


# -----------------------------------------------------------------------------
class DlcTx:
    """What device D may send on one DLCI (one incarnation: from PN exchange on)."""

    def __init__(self, dlci, role, credits, peer_n1, my_n1, my_k, cfc):
        self.dlci = dlci
        self.role = role              # 'opener' | 'acceptor'
        self.credits = credits        # ledger: initial k from the peer's PN + credit octets received - data frames sent
        self.initial = credits
        self.peer_n1 = peer_n1
        self.my_n1 = my_n1
        self.my_k = my_k
        self.cfc = cfc
        self.data_frames = 0
        self.data_bytes = 0
        self.credit_only_frames = 0
        self.piggyback_frames = 0
        self.granted = 0              # credit octets this device sent
        self.received_credit = 0
        self.zero_moments = 0
        self.at_limit = 0
        self.two_octet = 0
        self.max_payload = 0
        self.open = False             # SABM/UA seen
        self.closed = False


class DeviceView:
    def __init__(self, dev):
        self.dev = dev
        self.channels = {}       # local cid -> remote cid (RFCOMM L2CAP channels of this device)
        self.tx_mtu = {}         # remote cid -> MTU the peer can receive
        self.rx_mtu = {}         # local cid -> MTU this device advertised
        self.dlcs: list[DlcTx] = []
        self.frames_sent = 0
        self.frames_received = 0
        self.by_type: dict[str, int] = {}


def analyze(boundary_log, dev: int, r, tag: str = '') -> DeviceView:
    """Replay device `dev`'s host-boundary log. Violations reported through r.bad():
         rfcomm/frame/malformed, rfcomm/fcs/wrong, rfcomm/credit/data-without-credit,
         rfcomm/size/exceeds-peer-n1, rfcomm/size/exceeds-l2cap-mtu, rfcomm/size/frame-exceeds-l2cap-mtu
    """
    view = DeviceView(dev)
    pdus = vrig.l2cap_log(boundary_log, dev=dev)
    pending_req = {}     # (dir, scid) -> psm   connection requests seen
    cur: dict[int, DlcTx] = {}       # dlci -> current incarnation
    sent_pn: dict[int, Pn] = {}
    rcvd_pn: dict[int, Pn] = {}
    for _seq, _d, direction, handle, cid, payload in pdus:
        if cid == rl.BR_SIG:
            for code, ident, data in rl.parse_signalling(payload):
                if code == rl.CODE_CONN_REQ and len(data) >= 4:
                    psm, scid = struct.unpack_from('<HH', data, 0)
                    pending_req[(direction, scid)] = psm
                elif code == rl.CODE_CONN_RSP and len(data) >= 8:
                    dcid, scid, result, _status = struct.unpack_from('<HHHH', data, 0)
                    if result != 0:
                        continue
                    if direction == vrig.C2H and pending_req.get((vrig.H2C, scid)) == RFCOMM_PSM:
                        view.channels[scid] = dcid          # I requested: my cid = scid
                    elif direction == vrig.H2C and pending_req.get((vrig.C2H, scid)) == RFCOMM_PSM:
                        view.channels[dcid] = scid          # I accepted: my cid = dcid
                elif code == rl.CODE_CONF_REQ and len(data) >= 4:
                    target = struct.unpack_from('<H', data, 0)[0]
                    opts = {}
                    off = 4
                    while off + 2 <= len(data):
                        t, ln = data[off] & 0x7F, data[off + 1]
                        opts[t] = data[off + 2: off + 2 + ln]
                        off += 2 + ln
                    mtu = struct.unpack('<H', opts[1])[0] if 1 in opts and len(opts[1]) == 2 else 672
                    if direction == vrig.C2H and target in view.channels:
                        view.tx_mtu[view.channels[target]] = mtu
                    elif direction == vrig.H2C and target in view.channels.values():
                        local = [l for l, rem in view.channels.items() if rem == target][0]
                        view.rx_mtu[local] = mtu
            continue
        sent = direction == vrig.H2C and cid in view.channels.values()
        rcvd = direction == vrig.C2H and cid in view.channels
        if not (sent or rcvd):
            continue
        f = parse_frame(payload)
        if f is None:
            if sent:
                r.ev('oracle_evals')
                r.bad(f'rfcomm/frame/malformed{tag}', f'dev{dev} sent a {len(payload)}-octet RFCOMM frame {payload.hex()}')
            continue
        if rcvd:
            view.frames_received += 1
            if f.type == UIH and f.dlci == 0:
                m = parse_mcc(f.payload)
                if m is not None and m.type == MCC_PN:
                    pn = parse_pn(m.value)
                    if pn is not None:
                        if m.cr:
                            rcvd_pn[pn.dlci] = pn
                        elif pn.dlci in sent_pn:
                            mine = sent_pn.pop(pn.dlci)
                            d = DlcTx(pn.dlci, 'opener', pn.k, pn.n1, mine.n1, mine.k, cfc=(pn.cl == 0xE))
                            cur[pn.dlci] = d
                            view.dlcs.append(d)
                            r.ev('pn_exchanges')
            elif f.type == UIH and f.credit is not None:
                d = cur.get(f.dlci)
                if d is not None:
                    d.credits += f.credit
                    d.received_credit += f.credit
                    r.ev('ledger_credit_octets_received')
            elif f.type == UA and f.dlci in cur:
                d = cur[f.dlci]
                if d.open:
                    d.closed = True
                else:
                    d.open = True
            elif f.type == DISC and f.dlci in cur:
                cur[f.dlci].closed = True
            continue
        # ---- frame sent by this device --------------------------------------
        view.frames_sent += 1
        view.by_type[f.name] = view.by_type.get(f.name, 0) + 1
        r.ev('wire_frames_checked')
        r.ev('oracle_evals', 3)
        if f.problems:
            r.bad(f'rfcomm/frame/malformed{tag}', f'dev{dev} sent {f!r}: {payload[:12].hex()}..')
        r.ev('fcs_checked')
        if not f.fcs_ok:
            r.bad(f'rfcomm/fcs/wrong/{f.name.lower()}{tag}',
                  f'dev{dev} sent {f!r}; header {payload[:4].hex()}')
        l2_mtu = view.tx_mtu.get(cid, 672)
        if len(payload) > l2_mtu:
            r.bad(f'rfcomm/size/frame-exceeds-l2cap-mtu{tag}',
                  f'dev{dev} sent an RFCOMM frame of {len(payload)} octets on a channel whose peer MTU is {l2_mtu}')
        if f.type == UIH and f.dlci == 0:
            m = parse_mcc(f.payload)
            if m is not None and m.type == MCC_PN:
                pn = parse_pn(m.value)
                if pn is not None:
                    if m.cr:
                        sent_pn[pn.dlci] = pn
                    elif pn.dlci in rcvd_pn:
                        theirs = rcvd_pn.pop(pn.dlci)
                        d = DlcTx(pn.dlci, 'acceptor', theirs.k, theirs.n1, pn.n1, pn.k, cfc=(pn.cl == 0xE))
                        cur[pn.dlci] = d
                        view.dlcs.append(d)
                        r.ev('pn_exchanges')
            continue
        if f.type == UA and f.dlci in cur:
            d = cur[f.dlci]
            if d.open:
                d.closed = True
            else:
                d.open = True
            continue
        if f.type == DISC and f.dlci in cur:
            cur[f.dlci].closed = True
            continue
        if f.type != UIH or f.dlci == 0:
            continue
        d = cur.get(f.dlci)
        if d is None:
            r.ev('uih_on_unnegotiated_dlci')
            continue
        if not d.cfc:
            r.ev('uih_without_credit_flow_control')
            continue
        if f.credit is not None:
            d.granted += f.credit
        if len(f.payload) == 0:
            d.credit_only_frames += 1
            r.ev('ledger_credit_only_frames')
            continue
        # a data frame
        d.data_frames += 1
        d.data_bytes += len(f.payload)
        r.ev('ledger_data_frames')
        if f.credit is not None:
            d.piggyback_frames += 1
            r.ev('ledger_piggyback_frames')
        if f.length_octets == 2:
            d.two_octet += 1
        r.ev('oracle_evals', 3)
        if d.credits <= 0:
            r.bad(f'rfcomm/credit/data-without-credit/{d.role}{tag}',
                  f'dev{dev} sent data frame #{d.data_frames} ({len(f.payload)} octets) on DLCI {d.dlci} with its '
                  f'ledger at {d.credits} (initial {d.initial}, credit octets received {d.received_credit})')
        d.credits -= 1
        if d.credits == 0:
            d.zero_moments += 1
        with_credit = 1 if f.credit is not None else 0
        lim_n1 = d.peer_n1 - with_credit
        lim_l2 = l2_mtu - 5 - with_credit
        if len(f.payload) > lim_n1:
            r.bad(f'rfcomm/size/exceeds-peer-n1/{"with" if with_credit else "no"}-credit-octet{tag}',
                  f'dev{dev} sent {len(f.payload)} information octets on DLCI {d.dlci}; the peer advertised N1='
                  f'{d.peer_n1} in PN{" and the frame carries a credit octet" if with_credit else ""}')
        if len(f.payload) > lim_l2:
            r.bad(f'rfcomm/size/exceeds-l2cap-mtu/{"with" if with_credit else "no"}-credit-octet{tag}',
                  f'dev{dev} sent {len(f.payload)} information octets on DLCI {d.dlci}; peer L2CAP MTU {l2_mtu} '
                  f'allows {lim_l2}')
        if len(f.payload) == min(lim_n1, lim_l2):
            d.at_limit += 1
        d.max_payload = max(d.max_payload, len(f.payload))
    return view
