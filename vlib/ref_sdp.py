"""Independent references for C19, written from the specifications, never importing
bumble:

* SDP data elements (Core Vol 3 Part B, 3): a tuple model, encoder, decoder, the set of
  UUIDs contained in a value at any depth, the service-search matcher ("each and every
  UUID of the pattern is contained in the record's attribute values") and the
  attribute-id-list filter (ids and ranges, ascending id order);
* SDP PDU header / response parsers for the wire monitor (4.2, 4.5-4.7);
* AVDTP signalling fragmentation (AVDTP 8.4) and AVCTP fragmentation (AVCTP 6.1) with
  independent reassemblers;
* the AVDTP stream state table (AVDTP 6.x / 9.x) for the initiator-side procedures.

Element model (plain tuples, JSON friendly after `to_jsonable`):
  ('nil',) ('uint', size, v) ('sint', size, v) ('uuid', size, v) ('text', bytes)
  ('bool', b) ('seq', [..]) ('alt', [..]) ('url', str)
"""
from __future__ import annotations

import struct

BASE_UUID = 0x0000000000001000800000805F9B34FB

T_NIL, T_UINT, T_SINT, T_UUID, T_TEXT, T_BOOL, T_SEQ, T_ALT, T_URL = range(9)
_FIXED = {1: 0, 2: 1, 4: 2, 8: 3, 16: 4}
_FIXED_INV = {v: k for k, v in _FIXED.items()}


# -----------------------------------------------------------------------------
# SDP data elements
# -----------------------------------------------------------------------------
def uuid128(size: int, value: int) -> int:
    """Promote a 16/32-bit UUID to its 128-bit value (Part B 2.7.1)."""
    if size in (2, 4):
        return (value << 96) + BASE_UUID
    return value


def _var(type_id: int, data: bytes) -> bytes:
    n = len(data)
    if n <= 0xFF:
        return bytes([type_id << 3 | 5, n]) + data
    if n <= 0xFFFF:
        return bytes([type_id << 3 | 6]) + struct.pack('>H', n) + data
    return bytes([type_id << 3 | 7]) + struct.pack('>I', n) + data


def enc(el) -> bytes:
    """Serialise with the smallest size descriptor (what every stack emits)."""
    k = el[0]
    if k == 'nil':
        return b'\x00'
    if k == 'uint':
        return bytes([T_UINT << 3 | _FIXED[el[1]]]) + el[2].to_bytes(el[1], 'big')
    if k == 'sint':
        return bytes([T_SINT << 3 | _FIXED[el[1]]]) + el[2].to_bytes(el[1], 'big', signed=True)
    if k == 'uuid':
        return bytes([T_UUID << 3 | _FIXED[el[1]]]) + el[2].to_bytes(el[1], 'big')
    if k == 'text':
        return _var(T_TEXT, bytes(el[1]))
    if k == 'bool':
        return bytes([T_BOOL << 3, 1 if el[1] else 0])
    if k == 'seq':
        return _var(T_SEQ, b''.join(enc(e) for e in el[1]))
    if k == 'alt':
        return _var(T_ALT, b''.join(enc(e) for e in el[1]))
    if k == 'url':
        return _var(T_URL, el[1].encode('utf8'))
    raise ValueError(k)


class DecodeError(Exception):
    pass


def dec(data: bytes, off: int = 0):
    """Decode one element at `off`; returns (element, next offset). Accepts any legal
    size descriptor."""
    if off >= len(data):
        raise DecodeError('no data')
    t, si = data[off] >> 3, data[off] & 7
    off += 1
    if si <= 4:
        n = 0 if (t == T_NIL and si == 0) else _FIXED_INV[si]
    else:
        w = {5: 1, 6: 2, 7: 4}[si]
        if off + w > len(data):
            raise DecodeError('truncated size')
        n = int.from_bytes(data[off:off + w], 'big')
        off += w
    if off + n > len(data):
        raise DecodeError(f'element of {n} bytes runs past the end ({len(data) - off} left)')
    body = data[off:off + n]
    end = off + n
    if t == T_NIL:
        return ('nil',), end
    if t == T_UINT:
        return ('uint', n, int.from_bytes(body, 'big')), end
    if t == T_SINT:
        return ('sint', n, int.from_bytes(body, 'big', signed=True)), end
    if t == T_UUID:
        return ('uuid', n, int.from_bytes(body, 'big')), end
    if t == T_TEXT:
        return ('text', bytes(body)), end
    if t == T_BOOL:
        return ('bool', body[0] != 0), end
    if t in (T_SEQ, T_ALT):
        items = []
        p = off
        while p < end:
            e, p = dec(data, p)
            items.append(e)
        if p != end:
            raise DecodeError('children overrun their container')
        return ('seq' if t == T_SEQ else 'alt', items), end
    if t == T_URL:
        return ('url', bytes(body).decode('utf8', 'replace')), end
    raise DecodeError(f'unknown type {t}')


def dec_all(data: bytes):
    e, end = dec(data, 0)
    if end != len(data):
        raise DecodeError(f'{len(data) - end} trailing bytes')
    return e


def norm(el):
    """Canonical form for comparison (lists -> tuples)."""
    if el[0] in ('seq', 'alt'):
        return (el[0], tuple(norm(e) for e in el[1]))
    if el[0] == 'text':
        return ('text', bytes(el[1]))
    return tuple(el)


def uuids_in(el) -> set[int]:
    """All UUIDs (as 128-bit values) contained in a value, at any nesting depth, in
    sequences and in alternatives."""
    if el[0] == 'uuid':
        return {uuid128(el[1], el[2])}
    if el[0] in ('seq', 'alt'):
        out: set[int] = set()
        for e in el[1]:
            out |= uuids_in(e)
        return out
    return set()


def uuids_under_alternative(el, under=False) -> set[int]:
    if el[0] == 'uuid':
        return {uuid128(el[1], el[2])} if under else set()
    if el[0] in ('seq', 'alt'):
        out: set[int] = set()
        for e in el[1]:
            out |= uuids_under_alternative(e, under or el[0] == 'alt')
        return out
    return set()


def record_uuids(attrs) -> set[int]:
    out: set[int] = set()
    for _aid, v in attrs:
        out |= uuids_in(v)
    return out


def match(records: dict, pattern) -> list[int]:
    """records: {handle: [(attribute id, element)]}; pattern: [(size, value)].
    A record matches iff EVERY pattern UUID is contained in its attribute values."""
    want = {uuid128(s, v) for s, v in pattern}
    return [h for h, attrs in records.items() if want <= record_uuids(attrs)]


def select(attrs, id_list):
    """id_list: ints and (lo, hi) ranges. Returns [(id, element)] in ascending id order,
    each attribute at most once."""
    out = []
    for aid, v in sorted(attrs, key=lambda a: a[0]):
        for it in id_list:
            lo, hi = (it, it) if isinstance(it, int) else it
            if lo <= aid <= hi:
                out.append((aid, v))
                break
    return out


def attribute_list(attrs_selected):
    return ('seq', [x for aid, v in attrs_selected for x in (('uint', 2, aid), v)])


def to_jsonable(el):
    if el[0] in ('seq', 'alt'):
        return [el[0], [to_jsonable(e) for e in el[1]]]
    if el[0] == 'text':
        return ['text', f'<{len(el[1])} bytes>']
    if el[0] == 'uuid':
        return ['uuid', el[1], f'{el[2]:x}']
    return list(el)


# -----------------------------------------------------------------------------
# SDP PDUs (Part B 4.2): id(1) tid(2) plen(2) parameters
# -----------------------------------------------------------------------------
SDP_ERROR_RSP, SDP_SEARCH_REQ, SDP_SEARCH_RSP, SDP_ATTR_REQ, SDP_ATTR_RSP, SDP_SA_REQ, SDP_SA_RSP = range(1, 8)
SDP_RESPONSE_OF = {SDP_SEARCH_REQ: SDP_SEARCH_RSP, SDP_ATTR_REQ: SDP_ATTR_RSP, SDP_SA_REQ: SDP_SA_RSP}


def sdp_header(pdu: bytes):
    if len(pdu) < 5:
        return None
    pid, tid, plen = struct.unpack_from('>BHH', pdu, 0)
    return pid, tid, plen


def sdp_request_len(kind: str, pattern, id_list) -> int:
    """Length of the first request PDU (1-byte empty continuation state) the client has
    to send for a transaction; pattern [(size, value)], id_list ints/(lo, hi)."""
    pat = enc(('seq', [('uuid', s, v) for s, v in pattern])) if pattern is not None else b''
    ids = enc(('seq', [('uint', 2, i) if isinstance(i, int) else ('uint', 4, i[0] << 16 | i[1])
                       for i in id_list])) if id_list is not None else b''
    if kind == 'search':
        return 5 + len(pat) + 2 + 1
    if kind == 'attr':
        return 5 + 4 + 2 + len(ids) + 1
    return 5 + len(pat) + 2 + len(ids) + 1


# -----------------------------------------------------------------------------
# AVDTP signalling (AVDTP 8.4): single / start / continue / end packets
# -----------------------------------------------------------------------------
AV_SINGLE, AV_START, AV_CONTINUE, AV_END = 0, 1, 2, 3


def avdtp_fragment(label: int, msg_type: int, signal: int, payload: bytes, mtu: int) -> list[bytes]:
    """Signalling packets for one message such that no packet exceeds `mtu`."""
    if len(payload) + 2 <= mtu:
        return [bytes([label << 4 | AV_SINGLE << 2 | msg_type, signal & 0x3F]) + payload]
    first = payload[:mtu - 3]
    rest = payload[mtu - 3:]
    chunks = [rest[i:i + mtu - 1] for i in range(0, len(rest), mtu - 1)]
    nosp = 1 + len(chunks)
    out = [bytes([label << 4 | AV_START << 2 | msg_type, signal & 0x3F, nosp]) + first]
    for i, c in enumerate(chunks):
        pt = AV_END if i == len(chunks) - 1 else AV_CONTINUE
        out.append(bytes([label << 4 | pt << 2 | msg_type]) + c)
    return out


def avdtp_fragment_sized(label, msg_type, signal, payload, sizes) -> list[bytes]:
    """Fragment with explicit payload chunk sizes (>= 2 chunks): start, continue.., end."""
    chunks = []
    p = 0
    for s in sizes:
        chunks.append(payload[p:p + s])
        p += s
    assert p >= len(payload) and len(chunks) >= 2
    out = [bytes([label << 4 | AV_START << 2 | msg_type, signal & 0x3F, len(chunks)]) + chunks[0]]
    for i, c in enumerate(chunks[1:]):
        pt = AV_END if i == len(chunks) - 2 else AV_CONTINUE
        out.append(bytes([label << 4 | pt << 2 | msg_type]) + c)
    return out


class AvdtpReassembler:
    """Strict reference reassembler for a wire log of one direction of a signalling
    channel. feed(pdu) -> (label, signal, msg_type, payload) | None; `errors` collects
    any train irregularity."""

    def __init__(self):
        self.cur = None
        self.errors: list[str] = []

    def feed(self, pdu: bytes):
        if not pdu:
            self.errors.append('empty packet')
            return None
        label, pt, mt = pdu[0] >> 4, (pdu[0] >> 2) & 3, pdu[0] & 3
        if pt in (AV_SINGLE, AV_START):
            if self.cur is not None:
                self.errors.append('start/single inside an unfinished train')
                self.cur = None
            if pt == AV_SINGLE:
                if len(pdu) < 2:
                    self.errors.append('short single')
                    return None
                return label, pdu[1] & 0x3F, mt, bytes(pdu[2:])
            if len(pdu) < 3:
                self.errors.append('short start')
                return None
            self.cur = dict(label=label, mt=mt, sig=pdu[1] & 0x3F, n=pdu[2], got=1, data=bytearray(pdu[3:]))
            return None
        if self.cur is None:
            self.errors.append('continue/end without start')
            return None
        c = self.cur
        if label != c['label'] or mt != c['mt']:
            self.errors.append('label/type change inside a train')
            self.cur = None
            return None
        c['got'] += 1
        c['data'] += pdu[1:]
        if pt == AV_END:
            self.cur = None
            if c['got'] != c['n']:
                self.errors.append(f'end after {c["got"]} packets, {c["n"]} announced')
                return None
            return c['label'], c['sig'], c['mt'], bytes(c['data'])
        if c['got'] >= c['n']:
            self.errors.append('more continue packets than announced')
        return None


# -----------------------------------------------------------------------------
# AVCTP (AVCTP 6.1): the PID is carried by single and start packets only
# -----------------------------------------------------------------------------
def avctp_single(label: int, cr: int, ipid: int, pid: int, payload: bytes) -> bytes:
    return bytes([label << 4 | AV_SINGLE << 2 | cr << 1 | ipid]) + struct.pack('>H', pid) + payload


def avctp_fragment(label: int, cr: int, pid: int, payload: bytes, sizes) -> list[bytes]:
    """sizes: payload bytes per packet (>= 2 entries, covering the payload).
    start = hdr, number of packets, PID, data; continue/end = hdr, data."""
    chunks = []
    p = 0
    for s in sizes:
        chunks.append(payload[p:p + s])
        p += s
    assert p >= len(payload) and len(chunks) >= 2
    out = [bytes([label << 4 | AV_START << 2 | cr << 1, len(chunks)]) + struct.pack('>H', pid) + chunks[0]]
    for i, c in enumerate(chunks[1:]):
        pt = AV_END if i == len(chunks) - 2 else AV_CONTINUE
        out.append(bytes([label << 4 | pt << 2 | cr << 1]) + c)
    return out


def avctp_fragment_mtu(label: int, cr: int, pid: int, payload: bytes, mtu: int) -> list[bytes]:
    """What a conformant sender does for a channel MTU."""
    if len(payload) + 3 <= mtu:
        return [avctp_single(label, cr, 0, pid, payload)]
    sizes = [mtu - 4]
    left = len(payload) - (mtu - 4)
    while left > 0:
        sizes.append(min(left, mtu - 1))
        left -= sizes[-1]
    if len(sizes) < 2:
        sizes.append(0)
    return avctp_fragment(label, cr, pid, payload, sizes)


# -----------------------------------------------------------------------------
# AVDTP stream state table, initiator-side procedures
# -----------------------------------------------------------------------------
IDLE, CONFIGURED, OPEN, STREAMING = 'IDLE', 'CONFIGURED', 'OPEN', 'STREAMING'
STREAM_OPS = ('configure', 'open', 'start', 'suspend', 'close', 'abort')

# (state, op) -> next state for the procedures that are legal in `state` (AVDTP 6.5-6.13,
# state machine of 9.1): everything else must be refused and change nothing.
STREAM_TABLE = {
    (IDLE, 'configure'): CONFIGURED,
    (CONFIGURED, 'open'): OPEN,
    (OPEN, 'start'): STREAMING,
    (STREAMING, 'suspend'): OPEN,
    (OPEN, 'close'): IDLE,
    (STREAMING, 'close'): IDLE,
    (CONFIGURED, 'abort'): IDLE,
    (OPEN, 'abort'): IDLE,
    (STREAMING, 'abort'): IDLE,
}


def stream_next(state: str, op: str):
    """Returns the next state, or None when `op` is not legal in `state`."""
    return STREAM_TABLE.get((state, op))
