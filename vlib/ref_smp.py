"""Independent reference for the C13 check: the Security Manager association-model
selection (Core Vol 3 Part H 2.3.5.1, Tables 2.6, 2.7 and 2.8) transcribed from the
specification in ITS layout (rows = responder, columns = initiator), a small parser
for the SMP PDUs seen on the wire (Vol 3 Part H 3.3 ff.), and a transcript analyser
that recomputes -- with the toolbox of vlib/ref_smpcrypto.py and the curve of
vlib/ref_p256.py -- which temporary key / passkey bits the two sides committed to,
which numeric-comparison value they must have shown, and which STK / LTK the link
must have been encrypted with.

Nothing here imports bumble.
"""
from __future__ import annotations

from . import ref_p256, ref_smpcrypto as rc

# -----------------------------------------------------------------------------
# 3.5.1 Table 3.4: IO capability values
# -----------------------------------------------------------------------------
DISPLAY_ONLY = 0x00
DISPLAY_YES_NO = 0x01
KEYBOARD_ONLY = 0x02
NO_INPUT_NO_OUTPUT = 0x03
KEYBOARD_DISPLAY = 0x04
IO_CAPS = [DISPLAY_ONLY, DISPLAY_YES_NO, KEYBOARD_ONLY, NO_INPUT_NO_OUTPUT, KEYBOARD_DISPLAY]
IO_NAMES = {
    DISPLAY_ONLY: 'display-only',
    DISPLAY_YES_NO: 'display-yesno',
    KEYBOARD_ONLY: 'keyboard-only',
    NO_INPUT_NO_OUTPUT: 'noio',
    KEYBOARD_DISPLAY: 'keyboard-display',
}

# 3.5.1 Figure 3.3: AuthReq
AUTH_BONDING = 0x01   # Bonding_Flags (2 bits), 01 = Bonding
AUTH_MITM = 0x04
AUTH_SC = 0x08
AUTH_KEYPRESS = 0x10
AUTH_CT2 = 0x20

# 3.6.1 Figure 3.11: key distribution / generation
KD_ENC = 0x01
KD_ID = 0x02
KD_SIGN = 0x04
KD_LINK = 0x08

# 3.3 Table 3.3: command codes
PAIRING_REQUEST = 0x01
PAIRING_RESPONSE = 0x02
PAIRING_CONFIRM = 0x03
PAIRING_RANDOM = 0x04
PAIRING_FAILED = 0x05
ENCRYPTION_INFORMATION = 0x06
CENTRAL_IDENTIFICATION = 0x07
IDENTITY_INFORMATION = 0x08
IDENTITY_ADDRESS_INFORMATION = 0x09
SIGNING_INFORMATION = 0x0A
SECURITY_REQUEST = 0x0B
PAIRING_PUBLIC_KEY = 0x0C
PAIRING_DHKEY_CHECK = 0x0D
KEYPRESS_NOTIFICATION = 0x0E
CODE_NAMES = {
    1: 'pairing-request', 2: 'pairing-response', 3: 'confirm', 4: 'random', 5: 'failed',
    6: 'encryption-information', 7: 'central-identification', 8: 'identity-information',
    9: 'identity-address-information', 10: 'signing-information', 11: 'security-request',
    12: 'public-key', 13: 'dhkey-check', 14: 'keypress',
}
# fixed PDU sizes (code included)
PDU_SIZE = {1: 7, 2: 7, 3: 17, 4: 17, 5: 2, 6: 17, 7: 11, 8: 17, 9: 8, 10: 17, 11: 2, 12: 65, 13: 17, 14: 2}

SMP_CID = 0x0006
SMP_BR_CID = 0x0007

# -----------------------------------------------------------------------------
# Association models
# -----------------------------------------------------------------------------
JUST_WORKS = 'just-works'
PASSKEY = 'passkey'
NUMERIC = 'numeric-comparison'
OOB = 'oob'

# roles a side plays in a model
R_NONE = 'none'          # just works: nothing to show or enter (a yes/no confirmation at most)
R_DISPLAY = 'display'    # passkey entry: this side displays the passkey
R_INPUT = 'input'        # passkey entry: this side's user types the passkey
R_COMPARE = 'compare'    # numeric comparison: shows 6 digits, asks yes/no
R_OOB = 'oob'

_JW = (JUST_WORKS, R_NONE, R_NONE)
# "Passkey Entry: initiator displays, responder inputs" etc.; tuples are
# (model, initiator role, responder role)
_PK_I_DISP = (PASSKEY, R_DISPLAY, R_INPUT)
_PK_R_DISP = (PASSKEY, R_INPUT, R_DISPLAY)
_PK_BOTH_IN = (PASSKEY, R_INPUT, R_INPUT)
_NC = (NUMERIC, R_COMPARE, R_COMPARE)


def _cell(legacy, sc=None):
    return {'legacy': legacy, 'sc': sc if sc is not None else legacy}


# Table 2.8: Mapping of IO capabilities to key generation method.
# Transcribed row by row: TABLE_2_8[responder][initiator].
TABLE_2_8 = {
    # Responder = DisplayOnly
    DISPLAY_ONLY: {
        DISPLAY_ONLY: _cell(_JW),                 # Just Works, unauthenticated
        DISPLAY_YES_NO: _cell(_JW),               # Just Works, unauthenticated
        KEYBOARD_ONLY: _cell(_PK_R_DISP),         # Passkey Entry: responder displays, initiator inputs
        NO_INPUT_NO_OUTPUT: _cell(_JW),           # Just Works
        KEYBOARD_DISPLAY: _cell(_PK_R_DISP),      # Passkey Entry: responder displays, initiator inputs
    },
    # Responder = DisplayYesNo
    DISPLAY_YES_NO: {
        DISPLAY_ONLY: _cell(_JW),                 # Just Works
        DISPLAY_YES_NO: _cell(_JW, _NC),          # Just Works (LE legacy) / Numeric Comparison (LE SC)
        KEYBOARD_ONLY: _cell(_PK_R_DISP),         # Passkey Entry: responder displays, initiator inputs
        NO_INPUT_NO_OUTPUT: _cell(_JW),           # Just Works
        KEYBOARD_DISPLAY: _cell(_PK_R_DISP, _NC),  # Passkey Entry (legacy): responder displays, initiator
                                                   # inputs / Numeric Comparison (SC)
    },
    # Responder = KeyboardOnly
    KEYBOARD_ONLY: {
        DISPLAY_ONLY: _cell(_PK_I_DISP),          # Passkey Entry: initiator displays, responder inputs
        DISPLAY_YES_NO: _cell(_PK_I_DISP),        # Passkey Entry: initiator displays, responder inputs
        KEYBOARD_ONLY: _cell(_PK_BOTH_IN),        # Passkey Entry: initiator and responder input
        NO_INPUT_NO_OUTPUT: _cell(_JW),           # Just Works
        KEYBOARD_DISPLAY: _cell(_PK_I_DISP),      # Passkey Entry: initiator displays, responder inputs
    },
    # Responder = NoInputNoOutput
    NO_INPUT_NO_OUTPUT: {
        DISPLAY_ONLY: _cell(_JW),
        DISPLAY_YES_NO: _cell(_JW),
        KEYBOARD_ONLY: _cell(_JW),
        NO_INPUT_NO_OUTPUT: _cell(_JW),
        KEYBOARD_DISPLAY: _cell(_JW),
    },
    # Responder = KeyboardDisplay
    KEYBOARD_DISPLAY: {
        DISPLAY_ONLY: _cell(_PK_I_DISP),          # Passkey Entry: initiator displays, responder inputs
        DISPLAY_YES_NO: _cell(_PK_I_DISP, _NC),   # Passkey Entry (legacy): initiator displays, responder
                                                  # inputs / Numeric Comparison (SC)
        KEYBOARD_ONLY: _cell(_PK_R_DISP),         # Passkey Entry: responder displays, initiator inputs
        NO_INPUT_NO_OUTPUT: _cell(_JW),           # Just Works
        KEYBOARD_DISPLAY: _cell(_PK_I_DISP, _NC),  # Passkey Entry (legacy): initiator displays, responder
                                                   # inputs / Numeric Comparison (SC)
    },
}


def table_cell(initiator_io: int, responder_io: int, sc: bool):
    """(model, initiator role, responder role) of Table 2.8."""
    return TABLE_2_8[responder_io][initiator_io]['sc' if sc else 'legacy']


def expected_model(init_io, resp_io, init_auth, resp_auth, init_oob=0, resp_oob=0):
    """2.3.5.1: which association model the two devices shall use.

    * LE Secure Connections pairing is used iff both AuthReq have SC set.
    * Table 2.6 (legacy): OOB iff BOTH devices have OOB data; Table 2.7 (SC): OOB iff
      AT LEAST ONE device has the peer's OOB data.
    * otherwise, if NEITHER device set MITM the IO capabilities are ignored and Just
      Works is used; otherwise Table 2.8.
    Returns (sc, (model, initiator role, responder role))."""
    sc = bool(init_auth & AUTH_SC) and bool(resp_auth & AUTH_SC)
    if sc:
        if init_oob or resp_oob:
            return sc, (OOB, R_OOB, R_OOB)
    else:
        if init_oob and resp_oob:
            return sc, (OOB, R_OOB, R_OOB)
    if not (init_auth & AUTH_MITM) and not (resp_auth & AUTH_MITM):
        return sc, _JW
    if init_io not in TABLE_2_8 or resp_io not in TABLE_2_8:
        return sc, _JW
    return sc, table_cell(init_io, resp_io, sc)


def is_authenticated_model(model: str) -> bool:
    """2.3.5.1 / Table 2.8: only Passkey Entry, Numeric Comparison and OOB give
    MITM protection ("authenticated"); Just Works is "unauthenticated"."""
    return model in (PASSKEY, NUMERIC, OOB)


# -----------------------------------------------------------------------------
# Wire transcript
# -----------------------------------------------------------------------------
class Pdu:
    __slots__ = ('seq', 'sender', 'code', 'body')

    def __init__(self, seq, sender, code, body):
        self.seq, self.sender, self.code, self.body = seq, sender, code, body

    def __repr__(self):
        return f'{self.sender}:{CODE_NAMES.get(self.code, hex(self.code))}'


def transcript(l2cap_records, cid=SMP_CID):
    """l2cap_records: (seq, dev, direction, handle, cid, payload) of the h2c direction
    (what each host put on the wire, after any in-flight tampering)."""
    out = []
    for seq, dev, _dir, _handle, c, payload in l2cap_records:
        if c != cid or not payload:
            continue
        out.append(Pdu(seq, dev, payload[0], bytes(payload[1:])))
    out.sort(key=lambda p: p.seq)
    return out


class Analysis:
    """What the wire says. All byte strings little-endian as transmitted."""

    def __init__(self):
        self.initiator = None          # device index that sent the Pairing Request
        self.responder = None
        self.preq = self.pres = None   # full 7-byte PDUs
        self.sc = None
        self.mitm_any = None
        self.bonding_both = None
        self.ct2 = None
        self.init_kd = self.resp_kd = None   # negotiated masks (from the response)
        self.failed = []               # (sender, reason)
        self.confirms = {0: [], 1: []}  # by sender role: 0 initiator, 1 responder
        self.randoms = {0: [], 1: []}
        self.pubkeys = {}              # role -> (x, y)
        self.dhkey_checks = {}         # role -> bytes
        self.distributed = {0: {}, 1: {}}   # role -> {'ltk','ediv','rand','irk','addr_type','addr','csrk'}
        self.security_requests = []
        self.malformed = []
        self.codes = []
        # derived
        self.tk = None                 # legacy: int passkey or 0 that satisfies both confirms
        self.tk_by_role = {}           # legacy: role -> int|None
        self.stk = None
        self.passkey_bits = {0: [], 1: []}   # SC passkey: committed bit per round (None = neither fits)
        self.single_commit_ok = None   # SC JW/NC: Cb == f4(PKb, PKa, Nb, 0)
        self.numeric_value = None
        self.wire_model = None         # 'legacy-tk-zero' | 'legacy-tk-passkey' | 'sc-single-commit' | 'sc-passkey' | None
        self.notes = []

    @property
    def reached_phase2(self):
        return bool(self.confirms[0] or self.confirms[1] or self.pubkeys)


def analyse(pdus, addr_of, tk_candidates=(0,)):
    """addr_of(dev) -> (address bytes little-endian (6), is_random) as used on air for
    the connection. tk_candidates: passkeys the users saw/typed (legacy TK search)."""
    a = Analysis()
    for p in pdus:
        a.codes.append((p.sender, p.code))
        want = PDU_SIZE.get(p.code)
        if want is None or len(p.body) + 1 != want:
            a.malformed.append((p.sender, p.code, len(p.body) + 1))
            continue
        if p.code == SECURITY_REQUEST:
            a.security_requests.append((p.sender, p.body[0]))
            continue
        if p.code == PAIRING_REQUEST:
            if a.preq is None:
                a.preq = bytes([p.code]) + p.body
                a.initiator = p.sender
                a.responder = 1 - p.sender
            continue
        if a.initiator is None:
            continue
        role = 0 if p.sender == a.initiator else 1
        if p.code == PAIRING_RESPONSE:
            if a.pres is None and role == 1:
                a.pres = bytes([p.code]) + p.body
        elif p.code == PAIRING_CONFIRM:
            a.confirms[role].append(p.body)
        elif p.code == PAIRING_RANDOM:
            a.randoms[role].append(p.body)
        elif p.code == PAIRING_FAILED:
            a.failed.append((role, p.body[0]))
        elif p.code == PAIRING_PUBLIC_KEY:
            a.pubkeys.setdefault(role, (p.body[:32], p.body[32:]))
        elif p.code == PAIRING_DHKEY_CHECK:
            a.dhkey_checks.setdefault(role, p.body)
        elif p.code == ENCRYPTION_INFORMATION:
            a.distributed[role]['ltk'] = p.body
        elif p.code == CENTRAL_IDENTIFICATION:
            a.distributed[role]['ediv'] = int.from_bytes(p.body[:2], 'little')
            a.distributed[role]['rand'] = p.body[2:]
        elif p.code == IDENTITY_INFORMATION:
            a.distributed[role]['irk'] = p.body
        elif p.code == IDENTITY_ADDRESS_INFORMATION:
            a.distributed[role]['addr_type'] = p.body[0]
            a.distributed[role]['addr'] = p.body[1:]
        elif p.code == SIGNING_INFORMATION:
            a.distributed[role]['csrk'] = p.body
    if a.preq is None or a.pres is None:
        return a
    ia_auth, ra_auth = a.preq[3], a.pres[3]
    a.sc = bool(ia_auth & AUTH_SC) and bool(ra_auth & AUTH_SC)
    a.mitm_any = bool((ia_auth | ra_auth) & AUTH_MITM)
    a.bonding_both = (ia_auth & 3) == 1 and (ra_auth & 3) == 1
    a.ct2 = bool(ia_auth & AUTH_CT2) and bool(ra_auth & AUTH_CT2)
    a.init_kd, a.resp_kd = a.pres[5], a.pres[6]
    ia, iat = addr_of(a.initiator)
    ra, rat = addr_of(a.responder)
    if not a.sc:
        # 2.3.5.5: Mconfirm = c1(TK, Mrand, preq, pres, iat, ia, rat, ra), same for S
        if a.confirms[0] and a.randoms[0]:
            for role in (0, 1):
                if not (a.confirms[role] and a.randoms[role]):
                    continue
                found = None
                for tk in tk_candidates:
                    k = int(tk).to_bytes(16, 'little')
                    if rc.c1_le(k, a.randoms[role][0], a.preq, a.pres, iat, rat, ia, ra) == a.confirms[role][0]:
                        found = int(tk)
                        break
                a.tk_by_role[role] = found
            vals = set(a.tk_by_role.values())
            if len(vals) == 1 and None not in vals and len(a.tk_by_role) == 2:
                a.tk = vals.pop()
                # 2.3.5.5: STK = s1(TK, Srand, Mrand)
                a.stk = rc.s1_le(a.tk.to_bytes(16, 'little'), a.randoms[1][0], a.randoms[0][0])
            if a.tk_by_role:
                v = [x for x in a.tk_by_role.values() if x is not None]
                if v:
                    a.wire_model = 'legacy-tk-zero' if all(x == 0 for x in v) else 'legacy-tk-passkey'
    else:
        if 0 in a.pubkeys and 1 in a.pubkeys:
            pka, pkb = a.pubkeys[0][0], a.pubkeys[1][0]
            rounds = max(len(a.confirms[0]), len(a.confirms[1]))
            if len(a.confirms[0]) == 0 and len(a.confirms[1]) >= 1:
                # 2.3.5.6.2: Cb = f4(PKbx, PKax, Nb, 0), only the responder commits
                a.wire_model = 'sc-single-commit'
                if a.randoms[1]:
                    a.single_commit_ok = rc.f4_le(pkb, pka, a.randoms[1][0], bytes([0])) == a.confirms[1][0]
                if a.randoms[0] and a.randoms[1]:
                    # 2.2.9: Va = g2(PKax, PKbx, Na, Nb) mod 10^6
                    a.numeric_value = rc.g2_le(pka, pkb, a.randoms[0][0], a.randoms[1][0]) % 1000000
            elif rounds >= 1:
                # 2.3.5.6.3: Cai = f4(PKax, PKbx, Nai, 0x80|rai), Cbi = f4(PKbx, PKax, Nbi, 0x80|rbi)
                a.wire_model = 'sc-passkey'
                for role, (u, v) in ((0, (pka, pkb)), (1, (pkb, pka))):
                    for i, c in enumerate(a.confirms[role]):
                        if i >= len(a.randoms[role]):
                            break
                        bit = None
                        for b in (0, 1):
                            if rc.f4_le(u, v, a.randoms[role][i], bytes([0x80 | b])) == c:
                                bit = b
                        a.passkey_bits[role].append(bit)
    return a


def passkey_from_bits(bits):
    if len(bits) != 20 or any(b is None for b in bits):
        return None
    return sum(b << i for i, b in enumerate(bits))


def sc_keys(d_initiator: int, a: Analysis, addr_of, r_init: bytes, r_resp: bytes):
    """Recompute DHKey, MacKey, LTK, Ea, Eb (2.3.5.6.5) from the initiator's private
    scalar and the wire. r_init / r_resp: the 128-bit 'r' of each side used in the
    DHKey checks (0 for just works / numeric comparison, the passkey for passkey entry).
    Returns dict or None when the transcript is incomplete / the peer key is invalid."""
    if not (a.sc and 0 in a.pubkeys and 1 in a.pubkeys and a.randoms[0] and a.randoms[1]):
        return None
    x = int.from_bytes(a.pubkeys[1][0], 'little')
    y = int.from_bytes(a.pubkeys[1][1], 'little')
    try:
        dh = ref_p256.ecdh(d_initiator, x, y)[::-1]   # little-endian like everything else
    except ref_p256.InvalidPoint:
        return None
    na, nb = a.randoms[0][-1], a.randoms[1][-1]
    ia, iat = addr_of(a.initiator)
    ra, rat = addr_of(a.responder)
    A = ia + bytes([iat])
    Bb = ra + bytes([rat])
    mackey, ltk = rc.f5_le(dh, na, nb, A, Bb)
    iocap_a = a.preq[1:4]   # IOcap = AuthReq || OOB || IO capability, sent LSB first = preq[1:4]
    iocap_b = a.pres[1:4]
    ea = rc.f6_le(mackey, na, nb, r_resp, iocap_a, A, Bb)
    eb = rc.f6_le(mackey, nb, na, r_init, iocap_b, Bb, A)
    return {'dhkey': dh, 'mackey': mackey, 'ltk': ltk, 'ea': ea, 'eb': eb}


# -----------------------------------------------------------------------------
# HCI snooping helpers (Vol 4 Part E 7.8.24, 7.7.8)
# -----------------------------------------------------------------------------
def le_enable_encryption_commands(hci_log, dev=None):
    """[(seq, dev, handle, rand(8), ediv, ltk(16))] for HCI_LE_Enable_Encryption (OGF 8 OCF 0x19)."""
    out = []
    for seq, d, direction, pkt, _t in hci_log:
        if direction != 'h2c' or pkt[0] != 0x01 or (dev is not None and d != dev):
            continue
        if pkt[1] == 0x19 and pkt[2] == 0x20 and len(pkt) >= 4 + 28:
            handle = int.from_bytes(pkt[4:6], 'little') & 0xFFF
            rand = pkt[6:14]
            ediv = int.from_bytes(pkt[14:16], 'little')
            ltk = pkt[16:32]
            out.append((seq, d, handle, rand, ediv, ltk))
        elif pkt[1] == 0x19 and pkt[2] == 0x20:
            out.append((seq, d, None, None, None, pkt[4:]))
    return out
