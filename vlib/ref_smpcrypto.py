"""Independent reference for the symmetric half of C14: AES-128 written from
FIPS-197 (byte-oriented, S-box *computed* from the GF(2^8) inverse and the affine map,
no tables copied from anywhere), AES-CMAC written from RFC 4493, and the Security
Manager toolbox (Core Vol 3 Part H 2.2) written from the specification text in its
own MSB-first notation.

The `*_le` wrappers take and return the same little-endian byte strings bumble's API
uses, so results compare directly.  Nothing here imports bumble or `cryptography`.
`selftest()` checks every function against the published vectors listed below; a
failure is a harness error.
"""
from __future__ import annotations


# -----------------------------------------------------------------------------
# AES-128 (FIPS-197)
# -----------------------------------------------------------------------------
def _xtime(a: int) -> int:
    a <<= 1
    return (a ^ 0x11B) & 0xFF if a & 0x100 else a


def _gmul(a: int, b: int) -> int:
    r = 0
    while b:
        if b & 1:
            r ^= a
        a = _xtime(a)
        b >>= 1
    return r


def _build_sbox():
    sbox = [0] * 256
    for x in range(256):
        inv = 0
        if x:
            # x^254 = x^-1 in GF(2^8)
            inv = 1
            base, e = x, 254
            while e:
                if e & 1:
                    inv = _gmul(inv, base)
                base = _gmul(base, base)
                e >>= 1
        s = inv
        for sh in (1, 2, 3, 4):
            s ^= ((inv << sh) | (inv >> (8 - sh))) & 0xFF
        sbox[x] = s ^ 0x63
    return sbox


_SBOX = _build_sbox()
_MUL2 = [_xtime(i) for i in range(256)]
_MUL3 = [_xtime(i) ^ i for i in range(256)]


def _expand_key(key: bytes):
    assert len(key) == 16
    w = [list(key[4 * i:4 * i + 4]) for i in range(4)]
    rcon = 1
    for i in range(4, 44):
        t = list(w[i - 1])
        if i % 4 == 0:
            t = t[1:] + t[:1]
            t = [_SBOX[b] for b in t]
            t[0] ^= rcon
            rcon = _xtime(rcon)
        w.append([a ^ b for a, b in zip(w[i - 4], t)])
    return [sum(w[4 * r:4 * r + 4], []) for r in range(11)]  # 11 round keys of 16 bytes


_SHIFT = [0, 5, 10, 15, 4, 9, 14, 3, 8, 13, 2, 7, 12, 1, 6, 11]  # column-major ShiftRows


class AES128:
    def __init__(self, key: bytes):
        self.rk = _expand_key(bytes(key))

    def encrypt_block(self, block: bytes) -> bytes:
        assert len(block) == 16
        rk = self.rk
        s = [b ^ k for b, k in zip(block, rk[0])]
        for rnd in range(1, 10):
            s = [_SBOX[s[i]] for i in _SHIFT]
            o = []
            for c in range(0, 16, 4):
                a0, a1, a2, a3 = s[c:c + 4]
                o += [
                    _MUL2[a0] ^ _MUL3[a1] ^ a2 ^ a3,
                    a0 ^ _MUL2[a1] ^ _MUL3[a2] ^ a3,
                    a0 ^ a1 ^ _MUL2[a2] ^ _MUL3[a3],
                    _MUL3[a0] ^ a1 ^ a2 ^ _MUL2[a3],
                ]
            s = [a ^ k for a, k in zip(o, rk[rnd])]
        s = [_SBOX[s[i]] for i in _SHIFT]
        return bytes(a ^ k for a, k in zip(s, rk[10]))


def aes128(key: bytes, block: bytes) -> bytes:
    return AES128(key).encrypt_block(block)


# -----------------------------------------------------------------------------
# AES-CMAC (RFC 4493)
# -----------------------------------------------------------------------------
def _dbl(block: bytes) -> bytes:
    v = int.from_bytes(block, 'big') << 1
    if v >> 128:
        v = (v & ((1 << 128) - 1)) ^ 0x87
    return v.to_bytes(16, 'big')


def cmac_subkeys(key: bytes):
    l = aes128(key, bytes(16))
    k1 = _dbl(l)
    k2 = _dbl(k1)
    return l, k1, k2


def _xor(a: bytes, b: bytes) -> bytes:
    return bytes(x ^ y for x, y in zip(a, b))


def aes_cmac(key: bytes, msg: bytes) -> bytes:
    """AES-CMAC(K, M) -- note argument order key, message (RFC 4493)."""
    c = AES128(key)
    l = c.encrypt_block(bytes(16))
    k1 = _dbl(l)
    k2 = _dbl(k1)
    n = (len(msg) + 15) // 16
    if n == 0:
        n = 1
        complete = False
    else:
        complete = len(msg) % 16 == 0
    if complete:
        last = _xor(msg[16 * (n - 1):], k1)
    else:
        tail = msg[16 * (n - 1):]
        tail = tail + b'\x80' + bytes(15 - len(tail))
        last = _xor(tail, k2)
    x = bytes(16)
    for i in range(n - 1):
        x = c.encrypt_block(_xor(x, msg[16 * i:16 * i + 16]))
    return c.encrypt_block(_xor(x, last))


# -----------------------------------------------------------------------------
# Security Manager toolbox, Core Vol 3 Part H 2.2, MSB-first as printed
# -----------------------------------------------------------------------------
def _rev(b: bytes) -> bytes:
    return bytes(b)[::-1]


def e_le(k: bytes, plaintext: bytes) -> bytes:
    """2.2.1 security function e, little-endian in/out as in bumble."""
    return _rev(aes128(_rev(k), _rev(plaintext)))


def ah_le(k: bytes, r: bytes) -> bytes:
    """2.2.2: ah(k, r) = e(k, r') mod 2^24, r' = padding || r."""
    r_prime = bytes(13) + _rev(r)  # MSB first: 104 zero bits then the 24 bits of r
    out = aes128(_rev(k), r_prime)
    return _rev(out[13:])  # least significant 24 bits, returned little-endian


def c1_le(k, r, preq, pres, iat, rat, ia, ra) -> bytes:
    """2.2.3: p1 = pres || preq || rat' || iat', p2 = padding || ia || ra,
    c1 = e(k, e(k, r XOR p1) XOR p2)."""
    key = _rev(k)
    p1 = _rev(pres) + _rev(preq) + bytes([rat & 0xFF]) + bytes([iat & 0xFF])
    p2 = bytes(4) + _rev(ia) + _rev(ra)
    assert len(p1) == 16 and len(p2) == 16
    return _rev(aes128(key, _xor(aes128(key, _xor(_rev(r), p1)), p2)))


def s1_le(k, r1, r2) -> bytes:
    """2.2.4: r' = r1' || r2' with rX' the least significant 64 bits of rX."""
    r_prime = _rev(r1)[8:] + _rev(r2)[8:]
    return _rev(aes128(_rev(k), r_prime))


def f4_le(u, v, x, z) -> bytes:
    """2.2.6: f4(U, V, X, Z) = AES-CMAC_X(U || V || Z)."""
    return _rev(aes_cmac(_rev(x), _rev(u) + _rev(v) + bytes(z)))


F5_SALT = bytes.fromhex('6C888391AAF5A53860370BDB5A6083BE')
F5_KEYID = bytes.fromhex('62746C65')


def f5_le(w, n1, n2, a1, a2):
    """2.2.7: T = AES-CMAC_SALT(W);
    f5 = AES-CMAC_T(Counter || keyID || N1 || N2 || A1 || A2 || Length=256)."""
    t = aes_cmac(F5_SALT, _rev(w))
    body = F5_KEYID + _rev(n1) + _rev(n2) + _rev(a1) + _rev(a2) + bytes([0x01, 0x00])
    mackey = aes_cmac(t, bytes([0]) + body)
    ltk = aes_cmac(t, bytes([1]) + body)
    return _rev(mackey), _rev(ltk)


def f6_le(w, n1, n2, r, io_cap, a1, a2) -> bytes:
    """2.2.8: f6 = AES-CMAC_W(N1 || N2 || R || IOcap || A1 || A2)."""
    return _rev(aes_cmac(_rev(w), _rev(n1) + _rev(n2) + _rev(r) + _rev(io_cap) + _rev(a1) + _rev(a2)))


def g2_le(u, v, x, y) -> int:
    """2.2.9: g2 = AES-CMAC_X(U || V || Y) mod 2^32."""
    return int.from_bytes(aes_cmac(_rev(x), _rev(u) + _rev(v) + _rev(y)), 'big') & 0xFFFFFFFF


def h6_le(w, key_id) -> bytes:
    """2.2.10: h6(W, keyID) = AES-CMAC_W(keyID); keyID is passed MSB-first."""
    return _rev(aes_cmac(_rev(w), bytes(key_id)))


def h7_le(salt, w) -> bytes:
    """2.2.11: h7(SALT, W) = AES-CMAC_SALT(W); SALT is passed MSB-first."""
    return _rev(aes_cmac(bytes(salt), _rev(w)))


# -----------------------------------------------------------------------------
# Published vectors
# -----------------------------------------------------------------------------
def hx(s: str) -> bytes:
    return bytes.fromhex(s.replace(' ', ''))


def rhx(s: str) -> bytes:
    return hx(s)[::-1]


# (key, plaintext, ciphertext), MSB first
AES_VECTORS = [
    # FIPS-197 Appendix B
    ('fips197-B', hx('2b7e151628aed2a6abf7158809cf4f3c'), hx('3243f6a8885a308d313198a2e0370734'),
     hx('3925841d02dc09fbdc118597196a0b32')),
    # FIPS-197 Appendix C.1
    ('fips197-C1', hx('000102030405060708090a0b0c0d0e0f'), hx('00112233445566778899aabbccddeeff'),
     hx('69c4e0d86a7b0430d8cdb78070b4c55a')),
    # SP 800-38A F.1.1 ECB-AES128.Encrypt
    ('sp800-38a-F.1.1-1', hx('2b7e151628aed2a6abf7158809cf4f3c'), hx('6bc1bee22e409f96e93d7e117393172a'),
     hx('3ad77bb40d7a3660a89ecaf32466ef97')),
    ('sp800-38a-F.1.1-2', hx('2b7e151628aed2a6abf7158809cf4f3c'), hx('ae2d8a571e03ac9c9eb76fac45af8e51'),
     hx('f5d3d58503b9699de785895a96fdbaaf')),
    ('sp800-38a-F.1.1-3', hx('2b7e151628aed2a6abf7158809cf4f3c'), hx('30c81c46a35ce411e5fbc1191a0a52ef'),
     hx('43b1cd7f598ece23881b00e3ed030688')),
    ('sp800-38a-F.1.1-4', hx('2b7e151628aed2a6abf7158809cf4f3c'), hx('f69f2445df4f9b17ad2b417be66c3710'),
     hx('7b0c785e27e8ad3f8223207104725dd4')),
    # RFC 4493 section 4: AES-128(key, 0)
    ('rfc4493-L', hx('2b7e151628aed2a6abf7158809cf4f3c'), bytes(16), hx('7df76b0c1ab899b33e42f047b91b546f')),
]

RFC4493_KEY = hx('2b7e1516 28aed2a6 abf71588 09cf4f3c')
RFC4493_K1 = hx('fbeed618 35713366 7c85e08f 7236a8de')
RFC4493_K2 = hx('f7ddac30 6ae266cc f90bc11e e46d513b')
_M64 = hx('6bc1bee2 2e409f96 e93d7e11 7393172a ae2d8a57 1e03ac9c 9eb76fac 45af8e51'
          '30c81c46 a35ce411 e5fbc119 1a0a52ef f69f2445 df4f9b17 ad2b417b e66c3710')
# (name, key, message, tag)
CMAC_VECTORS = [
    ('rfc4493-ex1-len0', RFC4493_KEY, b'', hx('bb1d6929 e9593728 7fa37d12 9b756746')),
    ('rfc4493-ex2-len16', RFC4493_KEY, _M64[:16], hx('070a16b4 6b4d4144 f79bdd9d d04a287c')),
    ('rfc4493-ex3-len40', RFC4493_KEY, _M64[:40], hx('dfa66747 de9ae630 30ca3261 1497c827')),
    ('rfc4493-ex4-len64', RFC4493_KEY, _M64, hx('51f0bebf 7e3b9d92 fc497417 79363cfe')),
]

# Core Vol 3 Part H 2.2.3 / 2.2.4 examples and Appendix D sample data, expressed as
# (function name, args in bumble's little-endian calling convention, expected result)
_U = rhx('20b003d2 f297be2c 5e2c83a7 e9f9a5b9 eff49111 acf4fddb cc030148 0e359de6')
_V = rhx('55188b3d 32f6bb9a 900afcfb eed4e72a 59cb9ac2 f19d7cfb 6b4fdd49 f47fc5fd')
_X = rhx('d5cb8454 d177733e ffffb2ec 712baeab')
_Y = rhx('a6e8e7cc 25a75f6e 216583f7 ff3dc4cf')
_DH = rhx('ec0234a3 57c8ad05 341010a6 0a397d9b 99796b13 b4f866f1 868d34f3 73bfa698')
_A1 = rhx('00561237 37bfce')
_A2 = rhx('00a71370 2dcfc1')
_MACKEY = rhx('2965f176 a1084a02 fd3f6a20 ce636e20')
_LTK = rhx('69867911 69d7cd23 980522b5 94750a38')
_KEY128 = rhx('ec0234a3 57c8ad05 341010a6 0a397d9b')

TOOLBOX_VECTORS = [
    ('c1', 'H-2.2.3', (bytes(16), rhx('5783D52156AD6F0E6388274EC6702EE0'), rhx('07071000000101'),
                       rhx('05000800000302'), 1, 0, rhx('A1A2A3A4A5A6'), rhx('B1B2B3B4B5B6')),
     rhx('1e1e3fef878988ead2a74dc5bef13b86')),
    ('s1', 'H-2.2.4', (bytes(16), rhx('000F0E0D0C0B0A091122334455667788'),
                       rhx('010203040506070899AABBCCDDEEFF00')),
     rhx('9a1fe1f0e8b0f49b5b4216ae796da062')),
    ('f4', 'H-D.2', (_U, _V, _X, b'\x00'), rhx('f2c916f1 07a9bd1c f1eda1be a974872d')),
    ('f5', 'H-D.3', (_DH, _X, _Y, _A1, _A2), (_MACKEY, _LTK)),
    ('f6', 'H-D.4', (_MACKEY, _X, _Y, rhx('12a3343b b453bb54 08da42d2 0c2d0fc8'), rhx('010102'), _A1, _A2),
     rhx('e3c47398 9cd0e8c5 d26c0b09 da958f61')),
    ('g2', 'H-D.5', (_U, _V, _X, _Y), 0x2F9ED5BA),
    ('h6', 'H-D.6', (_KEY128, hx('6c656272')), rhx('2d9ae102 e76dc91c e8d3a9e2 80b16399')),
    ('ah', 'H-D.7', (_KEY128, rhx('708194')), rhx('0dfbaa')),
    ('h7', 'H-D.8', (hx('00000000 00000000 00000000 746D7031'), _KEY128),
     rhx('fb173597 c6a3c0ec d2998c2a 75a57011')),
]

# Core Vol 3 Part H Appendix D.9-D.12: LTK <-> link key conversion (ct2 flag, input, output)
LTK_TO_LINK_KEY = [
    (False, rhx('368df9bc e3264b58 bd066c33 334fbf64'), rhx('bc1ca4ef 633fc1bd 0d8230af ee388fb0')),
    (True, rhx('368df9bc e3264b58 bd066c33 334fbf64'), rhx('287ad379 dca40253 0a39f1f4 3047b835')),
]
LINK_KEY_TO_LTK = [
    (False, rhx('05040302 01000908 07060504 03020100'), rhx('a813fb72 f1a3dfa1 8a2c9a43 f10d0a30')),
    (True, rhx('05040302 01000908 07060504 03020100'), rhx('e85e09eb 5eccb3e2 69418a13 3211bc79')),
]
SALT_TMP1 = hx('00000000 00000000 00000000 746D7031')
SALT_TMP2 = hx('00000000 00000000 00000000 746D7032')

REF_TOOLBOX = {
    'c1': c1_le, 's1': s1_le, 'f4': f4_le, 'f5': f5_le, 'f6': f6_le, 'g2': g2_le,
    'h6': h6_le, 'h7': h7_le, 'ah': ah_le,
}


def ltk_to_link_key(ltk: bytes, ct2: bool) -> bytes:
    """Vol 3 Part H 2.4.2.4: ILK = h7(SALT 'tmp1', LTK) if CT2 else h6(LTK, 'tmp1');
    link key = h6(ILK, 'lebr')."""
    ilk = h7_le(SALT_TMP1, ltk) if ct2 else h6_le(ltk, b'tmp1')
    return h6_le(ilk, b'lebr')


def link_key_to_ltk(link_key: bytes, ct2: bool) -> bytes:
    """Vol 3 Part H 2.4.2.5: ILTK = h7(SALT 'tmp2', LK) if CT2 else h6(LK, 'tmp2');
    LTK = h6(ILTK, 'brle')."""
    iltk = h7_le(SALT_TMP2, link_key) if ct2 else h6_le(link_key, b'tmp2')
    return h6_le(iltk, b'brle')


_selftested = False


def selftest():
    global _selftested
    if _selftested:
        return
    assert _SBOX[0x00] == 0x63 and _SBOX[0x53] == 0xED and _SBOX[0xFF] == 0x16
    assert sorted(_SBOX) == list(range(256))
    for name, k, p, c in AES_VECTORS:
        assert aes128(k, p) == c, name
    l, k1, k2 = cmac_subkeys(RFC4493_KEY)
    assert (k1, k2) == (RFC4493_K1, RFC4493_K2)
    for name, k, m, t in CMAC_VECTORS:
        assert aes_cmac(k, m) == t, name
    for fn, name, args, want in TOOLBOX_VECTORS:
        assert REF_TOOLBOX[fn](*args) == want, (fn, name)
    for ct2, ltk, lk in LTK_TO_LINK_KEY:
        assert ltk_to_link_key(ltk, ct2) == lk, ('ltk->lk', ct2)
    for ct2, lk, ltk in LINK_KEY_TO_LTK:
        assert link_key_to_ltk(lk, ct2) == ltk, ('lk->ltk', ct2)
    _selftested = True
