"""C17 helpers: hand-written PDU corpora for every channel (bytes written down from the
specifications, never produced by bumble's encoders), structure-aware mutators, tiny
reference parsers used to classify what the harness itself sent, and the work meter.

A corpus entry is `Pdu(name, data, lens)`; `lens` lists the length fields inside `data`
as (offset, size, 'le'|'be'|'rfcomm') so that the mutator can set each one to
0 / too small / too large / max.
"""
from __future__ import annotations

import random
import struct
import sys
from typing import NamedTuple


# =============================================================================
# Work meter (sys.monitoring, Python 3.12)
# =============================================================================
class WorkBudgetExceeded(BaseException):
    """Raised *inside the monitored code* when the per-frame step budget is exhausted, so
    that a busy loop is aborted deterministically instead of hitting a wall-clock timer."""


class Meter:
    """Counts PY_START (Python calls) and JUMP (loop back-edges) events. `steps` is the
    sum; `calls` the PY_START part. When `limit` is set and `steps` passes it, the
    callback raises WorkBudgetExceeded once (then disarms itself)."""

    TOOL = 4

    def __init__(self):
        self.calls = 0
        self.jumps = 0
        self.limit = None
        self.tripped = 0
        self.active = False

    def _on_start(self, code, offset):
        self.calls += 1
        if self.limit is not None and self.calls + self.jumps > self.limit:
            self.limit = None
            self.tripped += 1
            raise WorkBudgetExceeded(f'step budget exceeded in {code.co_qualname}')

    def _on_jump(self, code, src, dst):
        self.jumps += 1
        if self.limit is not None and self.calls + self.jumps > self.limit:
            self.limit = None
            self.tripped += 1
            raise WorkBudgetExceeded(f'step budget exceeded in loop of {code.co_qualname}')

    def start(self):
        mon = sys.monitoring
        if mon.get_tool(self.TOOL) is None:
            mon.use_tool_id(self.TOOL, 'c17-meter')
        mon.register_callback(self.TOOL, mon.events.PY_START, self._on_start)
        mon.register_callback(self.TOOL, mon.events.JUMP, self._on_jump)
        mon.set_events(self.TOOL, mon.events.PY_START | mon.events.JUMP)
        self.active = True

    def stop(self):
        mon = sys.monitoring
        self.limit = None
        if self.active:
            mon.set_events(self.TOOL, 0)
            mon.register_callback(self.TOOL, mon.events.PY_START, None)
            mon.register_callback(self.TOOL, mon.events.JUMP, None)
            mon.free_tool_id(self.TOOL)
            self.active = False

    @property
    def steps(self):
        return self.calls + self.jumps

    def arm(self, budget: int):
        self.limit = self.calls + self.jumps + budget

    def disarm(self):
        self.limit = None


# =============================================================================
# Corpus entries and mutators
# =============================================================================
class Pdu(NamedTuple):
    name: str
    data: bytes
    lens: tuple = ()


def u16(v):
    return struct.pack('<H', v & 0xFFFF)


def be16(v):
    return struct.pack('>H', v & 0xFFFF)


def rnd(rng: random.Random, n: int) -> bytes:
    return bytes(rng.getrandbits(8) for _ in range(n))


def _set_len(data: bytes, field, value: int) -> bytes:
    off, size, kind = field
    b = bytearray(data)
    if off + size > len(b):
        return bytes(b)
    if kind == 'rfcomm':
        # 1-byte EA form keeps EA=1, value in bits 1..7; 2-byte form EA=0
        if size == 1:
            b[off] = ((value & 0x7F) << 1) | 1
        else:
            b[off] = (value & 0x7F) << 1
            b[off + 1] = (value >> 7) & 0xFF
        return bytes(b)
    value &= (1 << (8 * size)) - 1
    b[off:off + size] = value.to_bytes(size, 'little' if kind == 'le' else 'big')
    return bytes(b)


def _get_len(data: bytes, field) -> int:
    off, size, kind = field
    if off + size > len(data):
        return 0
    if kind == 'rfcomm':
        return data[off] >> 1 if size == 1 else (data[off] >> 1) | (data[off + 1] << 7)
    return int.from_bytes(data[off:off + size], 'little' if kind == 'le' else 'big')


MUTATION_CLASSES = ('valid', 'trunc', 'extend', 'bitflip', 'len-zero', 'len-small', 'len-large',
                    'len-max', 'random', 'empty', 'byte-set', 'splice')


def mutate(rng: random.Random, corpus: list[Pdu], klass: str | None = None, max_len: int = 600):
    """One hostile frame: (class, source name, bytes)."""
    p = rng.choice(corpus)
    if klass is None:
        klass = rng.choices(
            MUTATION_CLASSES, [2, 4, 2, 4, 2, 2, 2, 2, 3, 0.3, 3, 2])[0]
    d = p.data
    if klass.startswith('len-') and not p.lens:
        klass = 'bitflip'
    if klass == 'valid':
        out = d
    elif klass == 'trunc':
        out = d[:rng.randrange(0, len(d))] if len(d) > 0 else d
    elif klass == 'extend':
        n = rng.choice([1, 1, 2, 3, 7, 16, 64, 255, 256, max_len])
        out = d + (rnd(rng, n) if rng.random() < 0.6 else bytes([rng.choice([0, 0xFF, 0x35])]) * n)
    elif klass == 'bitflip':
        b = bytearray(d)
        for _ in range(rng.choice([1, 1, 1, 2, 3, 8])):
            if b:
                i = rng.randrange(len(b))
                b[i] ^= 1 << rng.randrange(8)
        out = bytes(b)
    elif klass == 'byte-set':
        b = bytearray(d)
        if b:
            i = rng.randrange(len(b))
            b[i] = rng.choice([0, 1, 0x7F, 0x80, 0xFE, 0xFF, rng.getrandbits(8)])
        out = bytes(b)
    elif klass.startswith('len-'):
        f = rng.choice(p.lens)
        cur = _get_len(d, f)
        mx = (1 << (8 * f[1])) - 1 if f[2] != 'rfcomm' else (0x7F if f[1] == 1 else 0x7FFF)
        v = {'len-zero': 0,
             'len-small': max(0, cur - rng.choice([1, 1, 2, cur // 2 + 1])),
             'len-large': min(mx, cur + rng.choice([1, 1, 2, 16, 200])),
             'len-max': mx}[klass]
        out = _set_len(d, f, v)
    elif klass == 'random':
        n = rng.choice([1, 2, 3, 4, 5, 7, 8, 16, 23, 32, 64, 200, max_len])
        out = rnd(rng, n)
        if rng.random() < 0.5 and d:
            out = d[:1] + out          # keep a plausible opcode
    elif klass == 'empty':
        out = b''
    elif klass == 'splice':
        q = rng.choice(corpus).data
        out = d[:rng.randrange(len(d) + 1)] + q[rng.randrange(len(q) + 1):]
    else:
        raise ValueError(klass)
    return klass, p.name, out[:max(max_len, len(d) + 4)]


def all_truncations(corpus: list[Pdu]):
    """Every proper prefix (and one-byte extension) of every corpus PDU."""
    for p in corpus:
        for n in range(0, len(p.data)):
            yield 'trunc', p.name, p.data[:n]
        yield 'valid', p.name, p.data
        yield 'extend', p.name, p.data + b'\x00'


def all_length_settings(corpus: list[Pdu]):
    for p in corpus:
        for f in p.lens:
            cur = _get_len(p.data, f)
            mx = (1 << (8 * f[1])) - 1 if f[2] != 'rfcomm' else (0x7F if f[1] == 1 else 0x7FFF)
            for klass, v in (('len-zero', 0), ('len-small', max(0, cur - 1)), ('len-large', min(mx, cur + 1)),
                             ('len-max', mx)):
                yield klass, p.name, _set_len(p.data, f, v)


# =============================================================================
# ATT (Core Vol 3 Part F 3.4) — CID 4
# =============================================================================
def att_corpus(h_ro: int, h_rw: int) -> list[Pdu]:
    U = u16
    return [
        Pdu('att/error-rsp', bytes([0x01, 0x0A]) + U(h_ro) + b'\x0A'),
        Pdu('att/mtu-req', b'\x02' + U(185)),
        Pdu('att/mtu-rsp', b'\x03' + U(23)),
        Pdu('att/find-info-req', b'\x04' + U(1) + U(0xFFFF)),
        Pdu('att/find-info-rsp', b'\x05\x01' + U(1) + U(0x2800) + U(2) + U(0x2803)),
        Pdu('att/find-by-type-value-req', b'\x06' + U(1) + U(0xFFFF) + U(0x2800) + U(0x1800)),
        Pdu('att/find-by-type-value-rsp', b'\x07' + U(1) + U(5)),
        Pdu('att/read-by-type-req16', b'\x08' + U(1) + U(0xFFFF) + U(0x2803)),
        Pdu('att/read-by-type-req128', b'\x08' + U(1) + U(0xFFFF) + bytes(range(16))),
        Pdu('att/read-by-type-rsp', b'\x09\x07' + U(2) + b'\x02' + U(3) + U(0x2A00), ((1, 1, 'le'),)),
        Pdu('att/read-req', b'\x0A' + U(h_ro)),
        Pdu('att/read-rsp', b'\x0B' + b'value'),
        Pdu('att/read-blob-req', b'\x0C' + U(h_ro) + U(1)),
        Pdu('att/read-blob-rsp', b'\x0D' + b'alue'),
        Pdu('att/read-multiple-req', b'\x0E' + U(h_ro) + U(h_rw)),
        Pdu('att/read-multiple-rsp', b'\x0F' + b'ab'),
        Pdu('att/read-by-group-req', b'\x10' + U(1) + U(0xFFFF) + U(0x2800)),
        Pdu('att/read-by-group-rsp', b'\x11\x06' + U(1) + U(5) + U(0x1800), ((1, 1, 'le'),)),
        Pdu('att/write-req', b'\x12' + U(h_rw) + b'hello'),
        Pdu('att/write-req-cccd', b'\x12' + U(h_rw + 1) + b'\x01\x00'),
        Pdu('att/write-rsp', b'\x13'),
        Pdu('att/prepare-write-req', b'\x16' + U(h_rw) + U(0) + b'part'),
        Pdu('att/prepare-write-rsp', b'\x17' + U(h_rw) + U(0) + b'part'),
        Pdu('att/execute-write-req', b'\x18\x01'),
        Pdu('att/execute-write-rsp', b'\x19'),
        Pdu('att/notification', b'\x1B' + U(h_rw) + b'ntf'),
        Pdu('att/indication', b'\x1D' + U(h_rw) + b'ind'),
        Pdu('att/confirmation', b'\x1E'),
        Pdu('att/read-multiple-variable-req', b'\x20' + U(h_ro) + U(h_rw)),
        Pdu('att/read-multiple-variable-rsp', b'\x21' + U(2) + b'ab' + U(1) + b'c', ((1, 2, 'le'), (5, 2, 'le'))),
        Pdu('att/multiple-notification', b'\x23' + U(h_rw) + U(2) + b'ab' + U(h_ro) + U(1) + b'c',
            ((3, 2, 'le'), (9, 2, 'le'))),
        Pdu('att/write-cmd', b'\x52' + U(h_rw) + b'cmd'),
        Pdu('att/signed-write-cmd', b'\xD2' + U(h_rw) + b'sig' + bytes(12)),
        Pdu('att/unknown-req', b'\x3E' + b'\x01\x02'),
        Pdu('att/unknown-cmd', b'\x7E' + b'\x01\x02'),
    ]


def att_read_request(handle: int) -> bytes:
    return b'\x0A' + u16(handle)


# =============================================================================
# SMP (Core Vol 3 Part H 3.5/3.6) — CID 6 (LE) / 7 (BR/EDR)
# =============================================================================
def smp_corpus() -> list[Pdu]:
    return [
        Pdu('smp/pairing-request', bytes([0x01, 0x03, 0x00, 0x01, 0x10, 0x07, 0x07])),
        Pdu('smp/pairing-request-sc', bytes([0x01, 0x03, 0x00, 0x2D, 0x10, 0x0F, 0x0F])),
        Pdu('smp/pairing-request-keysize6', bytes([0x01, 0x03, 0x00, 0x01, 0x06, 0x00, 0x00])),
        Pdu('smp/pairing-response', bytes([0x02, 0x03, 0x00, 0x01, 0x10, 0x01, 0x01])),
        Pdu('smp/pairing-confirm', b'\x03' + bytes(range(16))),
        Pdu('smp/pairing-random', b'\x04' + bytes(range(16, 32))),
        Pdu('smp/pairing-failed', b'\x05\x08'),
        Pdu('smp/encryption-information', b'\x06' + bytes(16)),
        Pdu('smp/master-identification', b'\x07' + u16(0x1234) + bytes(8)),
        Pdu('smp/identity-information', b'\x08' + bytes(16)),
        Pdu('smp/identity-address-information', b'\x09\x01' + bytes([0xC1, 2, 3, 4, 5, 0xC6])),
        Pdu('smp/signing-information', b'\x0A' + bytes(16)),
        Pdu('smp/security-request', b'\x0B\x01'),
        Pdu('smp/public-key', b'\x0C' + bytes(range(64))),
        Pdu('smp/public-key-zero', b'\x0C' + bytes(64)),
        Pdu('smp/dhkey-check', b'\x0D' + bytes(16)),
        Pdu('smp/keypress', b'\x0E\x00'),
        Pdu('smp/reserved-code', b'\x0F\x00'),
        Pdu('smp/code-zero', b'\x00'),
    ]


SMP_PAIRING_FAILED = b'\x05\x08'
SMP_PAIRING_REQUEST = bytes([0x01, 0x03, 0x00, 0x01, 0x10, 0x01, 0x01])   # NoInputNoOutput, bonding, legacy


# =============================================================================
# L2CAP signalling (Core Vol 3 Part A 4) — CID 1 (BR/EDR) / 5 (LE)
# =============================================================================
def sig(code: int, ident: int, data: bytes) -> bytes:
    return bytes([code, ident & 0xFF]) + u16(len(data)) + data


def _sig_pdu(name, code, ident, data, extra_lens=()):
    return Pdu(name, sig(code, ident, data), ((2, 2, 'le'),) + tuple((4 + o, s, k) for o, s, k in extra_lens))


def conf_opt(t: int, v: bytes) -> bytes:
    return bytes([t, len(v)]) + v


def le_sig_corpus(psm: int, live_cids=(0x40,)) -> list[Pdu]:
    c = live_cids[0]
    return [
        _sig_pdu('lesig/command-reject', 0x01, 1, u16(0)),
        _sig_pdu('lesig/command-reject-cid', 0x01, 1, u16(2) + u16(c) + u16(0x50)),
        _sig_pdu('lesig/disconnection-req-unknown', 0x06, 2, u16(0x77) + u16(0x78)),
        _sig_pdu('lesig/disconnection-rsp', 0x07, 2, u16(0x77) + u16(0x78)),
        _sig_pdu('lesig/conn-param-update-req', 0x12, 3, u16(24) + u16(40) + u16(0) + u16(100)),
        _sig_pdu('lesig/conn-param-update-req-bad', 0x12, 3, u16(4000) + u16(3) + u16(9999) + u16(1)),
        _sig_pdu('lesig/conn-param-update-rsp', 0x13, 3, u16(0)),
        _sig_pdu('lesig/le-coc-req', 0x14, 4, u16(psm) + u16(0x60) + u16(100) + u16(50) + u16(5)),
        _sig_pdu('lesig/le-coc-req-unknown-psm', 0x14, 5, u16(0xEE) + u16(0x61) + u16(100) + u16(50) + u16(5)),
        _sig_pdu('lesig/le-coc-req-bad-mtu', 0x14, 6, u16(psm) + u16(0x62) + u16(1) + u16(1) + u16(0)),
        _sig_pdu('lesig/le-coc-req-fixed-cid', 0x14, 6, u16(psm) + u16(0x04) + u16(100) + u16(50) + u16(5)),
        _sig_pdu('lesig/le-coc-rsp', 0x15, 7, u16(0x63) + u16(100) + u16(50) + u16(5) + u16(0)),
        _sig_pdu('lesig/flow-control-credit-unknown', 0x16, 8, u16(0x99) + u16(10)),
        _sig_pdu('lesig/flow-control-credit-overflow', 0x16, 8, u16(c) + u16(0xFFFF)),
        _sig_pdu('lesig/flow-control-credit-zero', 0x16, 8, u16(c) + u16(0)),
        _sig_pdu('lesig/ecoc-req', 0x17, 9, u16(psm) + u16(100) + u16(64) + u16(5) + u16(0x64) + u16(0x65)),
        _sig_pdu('lesig/ecoc-req-six-cids', 0x17, 9, u16(psm) + u16(100) + u16(64) + u16(5) +
                 b''.join(u16(0x70 + i) for i in range(6))),
        _sig_pdu('lesig/ecoc-req-no-cid', 0x17, 9, u16(psm) + u16(100) + u16(64) + u16(5)),
        _sig_pdu('lesig/ecoc-rsp', 0x18, 10, u16(100) + u16(64) + u16(5) + u16(0) + u16(0x66)),
        _sig_pdu('lesig/ecoc-reconfigure-req', 0x19, 11, u16(200) + u16(64) + u16(c)),
        _sig_pdu('lesig/ecoc-reconfigure-rsp', 0x1A, 11, u16(0)),
        _sig_pdu('lesig/bredr-connection-req', 0x02, 12, u16(1) + u16(0x40)),
        _sig_pdu('lesig/bredr-configure-req', 0x04, 13, u16(c) + u16(0) + conf_opt(1, u16(48))),
        _sig_pdu('lesig/bredr-echo-req', 0x08, 14, b'ping'),
        _sig_pdu('lesig/bredr-info-req', 0x0A, 15, u16(2)),
        _sig_pdu('lesig/unknown-code', 0x7F, 16, b'\x00\x01'),
        _sig_pdu('lesig/code-zero', 0x00, 0, b''),
    ]


def br_sig_corpus(psm: int, live_cids=(0x40,)) -> list[Pdu]:
    c = live_cids[0]
    rfc_ertm = bytes([3, 8, 3]) + u16(2000) + u16(12000) + u16(100)
    rfc_streaming = bytes([4, 0, 0]) + u16(0) + u16(0) + u16(100)
    return [
        _sig_pdu('brsig/command-reject', 0x01, 1, u16(0)),
        _sig_pdu('brsig/command-reject-mtu', 0x01, 1, u16(1) + u16(48)),
        _sig_pdu('brsig/connection-req', 0x02, 2, u16(psm) + u16(0x70)),
        _sig_pdu('brsig/connection-req-sdp', 0x02, 2, u16(1) + u16(0x71)),
        _sig_pdu('brsig/connection-req-unknown-psm', 0x02, 3, u16(0x1235) + u16(0x72)),
        _sig_pdu('brsig/connection-req-even-psm', 0x02, 3, u16(0x1002) + u16(0x72)),
        _sig_pdu('brsig/connection-req-scid-fixed', 0x02, 3, u16(psm) + u16(0x01)),
        _sig_pdu('brsig/connection-rsp', 0x03, 4, u16(0x73) + u16(0x74) + u16(0) + u16(0)),
        _sig_pdu('brsig/connection-rsp-pending', 0x03, 4, u16(0x73) + u16(0x74) + u16(1) + u16(2)),
        _sig_pdu('brsig/configure-req-mtu', 0x04, 5, u16(c) + u16(0) + conf_opt(1, u16(672)), ((5, 1, 'le'),)),
        _sig_pdu('brsig/configure-req-all-options', 0x04, 5, u16(c) + u16(0) + conf_opt(1, u16(672)) +
                 conf_opt(2, u16(0xFFFF)) + conf_opt(3, bytes(22)) + conf_opt(4, rfc_ertm) + conf_opt(5, b'\x01') +
                 conf_opt(6, bytes(16)) + conf_opt(7, u16(63)),
                 ((5, 1, 'le'), (9, 1, 'le'), (13, 1, 'le'), (37, 1, 'le'), (48, 1, 'le'), (51, 1, 'le'), (69, 1, 'le'))),
        _sig_pdu('brsig/configure-req-streaming', 0x04, 5, u16(c) + u16(0) + conf_opt(4, rfc_streaming), ((5, 1, 'le'),)),
        _sig_pdu('brsig/configure-req-continuation', 0x04, 5, u16(c) + u16(1) + conf_opt(1, u16(672)), ((5, 1, 'le'),)),
        _sig_pdu('brsig/configure-req-hint-option', 0x04, 5, u16(c) + u16(0) + conf_opt(0x85, b'\x01\x02'), ((5, 1, 'le'),)),
        _sig_pdu('brsig/configure-req-unknown-cid', 0x04, 5, u16(0x99) + u16(0) + conf_opt(1, u16(672)), ((5, 1, 'le'),)),
        _sig_pdu('brsig/configure-rsp', 0x05, 6, u16(c) + u16(0) + u16(0) + conf_opt(1, u16(672)), ((7, 1, 'le'),)),
        _sig_pdu('brsig/configure-rsp-unacceptable', 0x05, 6, u16(c) + u16(0) + u16(1) + conf_opt(1, u16(48)), ((7, 1, 'le'),)),
        _sig_pdu('brsig/configure-rsp-rejected', 0x05, 6, u16(c) + u16(0) + u16(2)),
        _sig_pdu('brsig/disconnection-req-unknown', 0x06, 7, u16(0x99) + u16(0x98)),
        _sig_pdu('brsig/disconnection-rsp', 0x07, 7, u16(0x99) + u16(0x98)),
        _sig_pdu('brsig/echo-req', 0x08, 8, b'hello'),
        _sig_pdu('brsig/echo-req-empty', 0x08, 8, b''),
        _sig_pdu('brsig/echo-rsp', 0x09, 8, b'hello'),
        _sig_pdu('brsig/info-req-features', 0x0A, 9, u16(2)),
        _sig_pdu('brsig/info-req-fixed-channels', 0x0A, 9, u16(3)),
        _sig_pdu('brsig/info-req-unknown', 0x0A, 9, u16(0x77)),
        _sig_pdu('brsig/info-rsp', 0x0B, 9, u16(2) + u16(0) + bytes([0xB8, 0x02, 0, 0])),
        _sig_pdu('brsig/create-channel-req', 0x0C, 10, u16(psm) + u16(0x75) + b'\x01'),
        _sig_pdu('brsig/move-channel-req', 0x0E, 11, u16(c) + b'\x01'),
        _sig_pdu('brsig/le-only-coc-req', 0x14, 12, u16(0x81) + u16(0x60) + u16(100) + u16(50) + u16(5)),
        _sig_pdu('brsig/le-only-credit', 0x16, 12, u16(c) + u16(5)),
        _sig_pdu('brsig/ecoc-req', 0x17, 13, u16(psm) + u16(100) + u16(64) + u16(5) + u16(0x64)),
        _sig_pdu('brsig/unknown-code', 0x7F, 14, b'\x00'),
        Pdu('brsig/two-commands', sig(0x08, 20, b'a') + sig(0x08, 21, b'b'), ((2, 2, 'le'), (7, 2, 'le'))),
    ]


# =============================================================================
# Credit-based K-frames and ERTM frames on a dynamic CID
# =============================================================================
def kframe_corpus(mtu: int, mps: int) -> list[Pdu]:
    return [
        Pdu('coc/sdu-single', u16(5) + b'hello', ((0, 2, 'le'),)),
        Pdu('coc/sdu-empty', u16(0), ((0, 2, 'le'),)),
        Pdu('coc/sdu-first-of-two', u16(8) + b'abcd', ((0, 2, 'le'),)),
        Pdu('coc/continuation', b'efgh'),
        Pdu('coc/sdu-len-over-mtu', u16(mtu + 1) + b'x', ((0, 2, 'le'),)),
        Pdu('coc/sdu-overrun', u16(2) + b'toolong', ((0, 2, 'le'),)),
        Pdu('coc/frame-over-mps', u16(mps + 10) + bytes(mps + 10), ((0, 2, 'le'),)),
        Pdu('coc/one-byte', b'\x05'),
        Pdu('coc/zero-bytes', b''),
    ]


def crc16(data: bytes) -> int:
    crc = 0
    for b in data:
        crc ^= b
        for _ in range(8):
            crc = (crc >> 1) ^ 0xA001 if crc & 1 else crc >> 1
    return crc


def ertm_i(tx, req, sar=0, f=0):
    return u16((tx << 1) | (f << 7) | (req << 8) | (sar << 14))


def ertm_s(s, req, p=0, f=0):
    return u16(1 | (s << 2) | (p << 4) | (f << 7) | (req << 8))


def ertm_corpus() -> list[Pdu]:
    return [
        Pdu('ertm/i-unsegmented', ertm_i(0, 0) + b'data'),
        Pdu('ertm/i-txseq-jump', ertm_i(17, 0) + b'data'),
        Pdu('ertm/i-reqseq-invalid', ertm_i(0, 40) + b'data'),
        Pdu('ertm/i-start', ertm_i(0, 0, sar=1) + u16(8) + b'abcd', ((2, 2, 'le'),)),
        Pdu('ertm/i-continuation', ertm_i(1, 0, sar=3) + b'ef'),
        Pdu('ertm/i-end', ertm_i(2, 0, sar=2) + b'gh'),
        Pdu('ertm/i-end-without-start', ertm_i(0, 0, sar=2) + b'gh'),
        Pdu('ertm/i-start-short', ertm_i(0, 0, sar=1) + b'\x08'),
        Pdu('ertm/i-start-huge', ertm_i(0, 0, sar=1) + u16(0xFFFF) + b'a', ((2, 2, 'le'),)),
        Pdu('ertm/i-final', ertm_i(0, 0, f=1) + b'data'),
        Pdu('ertm/s-rr', ertm_s(0, 0)),
        Pdu('ertm/s-rr-poll', ertm_s(0, 0, p=1)),
        Pdu('ertm/s-rr-final', ertm_s(0, 0, f=1)),
        Pdu('ertm/s-rej', ertm_s(1, 0)),
        Pdu('ertm/s-rej-invalid-reqseq', ertm_s(1, 33)),
        Pdu('ertm/s-rnr', ertm_s(2, 0)),
        Pdu('ertm/s-srej', ertm_s(3, 5, p=1)),
        Pdu('ertm/one-byte', b'\x00'),
        Pdu('ertm/empty', b''),
    ]


# =============================================================================
# SDP (Core Vol 3 Part B) — PSM 1
# =============================================================================
def de_hdr(t: int, n: int, idx: int | None = None) -> bytes:
    """Data element header for a variable-size type (text 4, seq 6, alt 7, url 8)."""
    if idx is None:
        idx = 5 if n <= 0xFF else 6 if n <= 0xFFFF else 7
    return bytes([(t << 3) | idx]) + n.to_bytes({5: 1, 6: 2, 7: 4}[idx], 'big')


def de_seq(body: bytes, idx=None) -> bytes:
    return de_hdr(6, len(body), idx) + body


def de_uuid16(v):
    return b'\x19' + be16(v)


def de_uint16(v):
    return b'\x09' + be16(v)


def de_uint32(v):
    return b'\x0A' + struct.pack('>I', v)


def sdp_pdu(pdu_id: int, tid: int, params: bytes) -> bytes:
    return bytes([pdu_id]) + be16(tid) + be16(len(params)) + params


def sdp_service_search(tid: int, uuids16, max_count=10, cont=b'\x00') -> bytes:
    return sdp_pdu(0x02, tid, de_seq(b''.join(de_uuid16(u) for u in uuids16)) + be16(max_count) + cont)


def sdp_nested(depth: int, idx: int = 6, honest: bool = True, leaf: bytes = b'\x19\x11\x01', kind: str = 'seq') -> bytes:
    """`depth` sequences / alternatives inside each other. honest: every header carries the
    true size; otherwise every header claims the maximum its size field can hold.
    kind: 'seq' (all sequences), 'alt' (outermost sequence, alternatives inside), 'mixed'."""
    body = leaf
    for level in range(depth):
        outermost = level == depth - 1
        t = 6 if (kind == 'seq' or outermost or (kind == 'mixed' and level & 1)) else 7
        if honest:
            body = de_hdr(t, len(body), idx) + body
        else:
            body = bytes([(t << 3) | idx]) + b'\xFF' * {5: 1, 6: 2, 7: 4}[idx] + body
    return body


def sdp_corpus(handle: int) -> list[Pdu]:
    pat = de_seq(de_uuid16(0x1101))
    ids = de_seq(de_uint32(0x0000FFFF))
    return [
        Pdu('sdp/error-rsp', sdp_pdu(0x01, 1, be16(3)), ((3, 2, 'be'),)),
        Pdu('sdp/service-search-req', sdp_pdu(0x02, 2, pat + be16(10) + b'\x00'), ((3, 2, 'be'), (6, 1, 'be'))),
        Pdu('sdp/service-search-req-12-uuids', sdp_pdu(0x02, 2, de_seq(b''.join(de_uuid16(0x1100 + i) for i in range(12)))
                                                         + be16(10) + b'\x00'), ((3, 2, 'be'), (6, 1, 'be'))),
        Pdu('sdp/service-search-req-uuid128', sdp_pdu(0x02, 2, de_seq(b'\x1C' + bytes(range(16))) + be16(1) + b'\x00'),
            ((3, 2, 'be'), (6, 1, 'be'))),
        Pdu('sdp/service-search-req-cont', sdp_pdu(0x02, 3, pat + be16(10) + b'\x02\x01\x00'),
            ((3, 2, 'be'), (6, 1, 'be'), (12, 1, 'be'))),
        Pdu('sdp/service-search-req-max0', sdp_pdu(0x02, 3, pat + be16(0) + b'\x00'), ((3, 2, 'be'), (6, 1, 'be'))),
        Pdu('sdp/service-search-rsp', sdp_pdu(0x03, 2, be16(1) + be16(1) + struct.pack('>I', handle) + b'\x00'), ((3, 2, 'be'),)),
        Pdu('sdp/service-attribute-req', sdp_pdu(0x04, 4, struct.pack('>I', handle) + be16(200) + ids + b'\x00'),
            ((3, 2, 'be'), (12, 1, 'be'))),
        Pdu('sdp/service-attribute-req-bad-handle', sdp_pdu(0x04, 4, struct.pack('>I', 0xDEAD) + be16(200) + ids + b'\x00'),
            ((3, 2, 'be'), (12, 1, 'be'))),
        Pdu('sdp/service-attribute-req-max7', sdp_pdu(0x04, 4, struct.pack('>I', handle) + be16(7) + ids + b'\x00'),
            ((3, 2, 'be'), (12, 1, 'be'))),
        Pdu('sdp/service-attribute-req-max0', sdp_pdu(0x04, 4, struct.pack('>I', handle) + be16(0) + ids + b'\x00'),
            ((3, 2, 'be'), (12, 1, 'be'))),
        Pdu('sdp/service-attribute-req-idlist-u16', sdp_pdu(0x04, 4, struct.pack('>I', handle) + be16(100) +
                                                          de_seq(de_uint16(0) + de_uint16(1) + de_uint16(4)) + b'\x00'),
            ((3, 2, 'be'), (12, 1, 'be'))),
        Pdu('sdp/service-attribute-rsp', sdp_pdu(0x05, 4, be16(5) + de_seq(de_uint16(0) + b'') + b'\x00'), ((3, 2, 'be'), (5, 2, 'be'))),
        Pdu('sdp/service-search-attribute-req', sdp_pdu(0x06, 5, pat + be16(300) + ids + b'\x00'),
            ((3, 2, 'be'), (6, 1, 'be'), (13, 1, 'be'))),
        Pdu('sdp/service-search-attribute-req-cont', sdp_pdu(0x06, 5, pat + be16(16) + ids + b'\x02\x01\x00'),
            ((3, 2, 'be'), (6, 1, 'be'), (13, 1, 'be'), (19, 1, 'be'))),
        Pdu('sdp/service-search-attribute-rsp', sdp_pdu(0x07, 5, be16(2) + de_seq(b'') + b'\x00'), ((3, 2, 'be'), (5, 2, 'be'))),
        Pdu('sdp/unknown-pdu', sdp_pdu(0x08, 6, b'\x00'), ((3, 2, 'be'),)),
        Pdu('sdp/pdu-zero', sdp_pdu(0x00, 6, b''), ((3, 2, 'be'),)),
        Pdu('sdp/search-nested-alt', sdp_pdu(0x02, 7, de_seq(de_hdr(7, 3) + de_uuid16(0x1101)) + be16(5) + b'\x00'), ((3, 2, 'be'),)),
        Pdu('sdp/search-pattern-not-seq', sdp_pdu(0x02, 7, de_uuid16(0x1101) + be16(5) + b'\x00'), ((3, 2, 'be'),)),
        Pdu('sdp/search-pattern-ints', sdp_pdu(0x02, 7, de_seq(de_uint16(3) + b'\x28\x01' + b'\x00' + b'\x25\x02hi') + be16(5) + b'\x00'),
            ((3, 2, 'be'),)),
        Pdu('sdp/attr-idlist-text', sdp_pdu(0x04, 8, struct.pack('>I', handle) + be16(100) + de_seq(b'\x25\x02hi') + b'\x00'), ((3, 2, 'be'),)),
    ]


SDP_SIBLINGS = {       # small complete data elements used as siblings of a nested list
    'uint8': b'\x08\x00', 'uuid16': b'\x19\x11\x01', 'nil': b'\x00', 'bool': b'\x28\x01', 'text': b'\x25\x02hi',
    'empty-seq': b'\x35\x00', 'empty-alt': b'\x3D\x00', 'seq-of-one': b'\x35\x02\x08\x00',
}
_SIB_CYCLE = ('uint8', 'empty-seq', 'uuid16', 'seq-of-one', 'text', 'empty-alt', 'bool', 'nil')


def sdp_nest_shape(depth: int, before: int = 0, after: int = 0, kind: str = 'seq', sib: str = 'uint8',
                   idx: int | None = None, innermost: bytes = b'\x35\x00') -> bytes:
    """`depth` lists inside each other with honest sizes; at every level `before` sibling elements
    precede and `after` sibling elements follow the nested list:
        SEQ{ s, s, SEQ{ s, s, SEQ{ ... } s } s }
    kind: 'seq' | 'alt' (outermost a sequence, alternatives inside) | 'alternating' (SEQ, ALT, SEQ, ...
    counted from the outside). sib: a key of SDP_SIBLINGS or 'mix' (another sibling type at every level).
    idx: size index of every header (5: 1 byte, 6: 2 bytes, 7: 4 bytes); None = the smallest that fits."""
    # built from the lengths (integers) first, then joined once: O(size), not O(depth x size)
    heads, tails = [], []
    size = len(innermost)
    for level in range(depth):
        from_outside = depth - 1 - level
        if kind == 'seq' or from_outside == 0:
            t = 6
        elif kind == 'alt':
            t = 7
        else:
            t = 6 if from_outside % 2 == 0 else 7
        s = SDP_SIBLINGS[_SIB_CYCLE[level % len(_SIB_CYCLE)] if sib == 'mix' else sib]
        size += len(s) * (before + after)
        use = idx
        if use is not None and size >= 1 << (8 * {5: 1, 6: 2, 7: 4}[use]):
            use = None
        hdr = de_hdr(t, size, use)
        heads.append(hdr + s * before)
        tails.append(s * after)
        size += len(hdr)
    return b''.join(reversed(heads)) + innermost + b''.join(tails)


SDP_NEST_SHAPES = ((1, 0), (0, 1), (1, 1), (2, 0), (0, 2), (3, 0), (0, 3), (2, 1), (3, 3))
SDP_NEST_DEPTHS = (30, 33, 64, 200, 700, 1000, 2000)
SDP_NEST_KINDS = ('seq', 'alt', 'alternating')
SDP_NEST_SIBS = ('uint8', 'empty-seq', 'uuid16', 'mix')


def sdp_shaped_specs():
    """[(name, args of sdp_nest_shape, running index)] for every (siblings before/after, kind, sibling type, depth)."""
    out = []
    i = 0
    for si, (before, after) in enumerate(SDP_NEST_SHAPES):
        for kind in SDP_NEST_KINDS:
            for sib in SDP_NEST_SIBS:
                for di, depth in enumerate(SDP_NEST_DEPTHS):
                    i += 1
                    idx = (None, 6, 7)[(si + di) % 3]
                    out.append((f'{kind}-{depth}-b{before}a{after}-{sib}', (depth, before, after, kind, sib, idx), si + di + i))
    return out


def sdp_shaped_nests(max_bytes: int, specs=None):
    """[(name, nest bytes, running index)] for the given (default: all) specs that fit in max_bytes."""
    out = []
    for name, args, i in (sdp_shaped_specs() if specs is None else specs):
        nest = sdp_nest_shape(*args)
        if len(nest) + 24 <= max_bytes:
            out.append((name, nest, i))
    return out


_SDP_REQUEST_WRAPS = ((0x02, lambda n: n + be16(5) + b'\x00'),
                      (0x06, lambda n: n + be16(100) + de_seq(de_uint32(0xFFFF)) + b'\x00'),
                      (0x04, lambda n: struct.pack('>I', 0x10001) + be16(100) + n + b'\x00'),
                      # the nest as the AttributeIDList of a ServiceSearchAttributeRequest (second parsed element)
                      (0x06, lambda n: de_seq(de_uuid16(0x1101)) + be16(100) + n + b'\x00'))


def sdp_deep_sibling_frames(max_bytes: int, specs=None):
    out = []
    for name, nest, i in sdp_shaped_nests(max_bytes, specs):
        pid, wrap = _SDP_REQUEST_WRAPS[i % len(_SDP_REQUEST_WRAPS)]
        out.append(('deep-nesting-siblings', f'sdp/nest-{name}-pdu{pid}', sdp_pdu(pid, 9, wrap(nest))))
    return out


def sdp_deep_frames(rng: random.Random, max_bytes: int, siblings: bool = True, sibling_bytes: int | None = None):
    """Deep-nesting frames (up to depth 2000 when the byte budget allows): pure nesting (class
    'deep-nesting') and nesting with 1-3 siblings before / after the nested list at every level
    (class 'deep-nesting-siblings')."""
    out = []
    if siblings:
        out += sdp_deep_sibling_frames(max_bytes * 2 if sibling_bytes is None else sibling_bytes)
    wraps = _SDP_REQUEST_WRAPS[:3]
    for depth in (31, 32, 33, 64, 127, 400, 1000, 2000):
        for idx, honest in ((5, False), (6, True), (6, False), (7, True), (7, False), (5, True)):
            per = {5: 2, 6: 3, 7: 5}[idx]
            if honest and idx == 5 and depth * per + 3 > 255:
                continue
            if depth * per + 16 > max_bytes:
                continue
            for kind in ('seq', 'alt', 'mixed'):
                nest = sdp_nested(depth, idx, honest, kind=kind)
                for pid, wrap in wraps:
                    out.append(('deep-nesting', f'sdp/nest-{kind}-{depth}-idx{idx}-{"honest" if honest else "lying"}-pdu{pid}',
                                sdp_pdu(pid, 9, wrap(nest))))
    return out


# =============================================================================
# RFCOMM (TS 07.10, RFCOMM 1.2) — PSM 3
# =============================================================================
def _crc8_table():
    t = []
    for i in range(256):
        c = i
        for _ in range(8):
            c = (c >> 1) ^ 0xE0 if c & 1 else c >> 1
        t.append(c)
    return t


_CRC8 = _crc8_table()
SABM, UA, DM, DISC, UIH = 0x2F, 0x63, 0x0F, 0x43, 0xEF


def rfcomm_fcs(data: bytes) -> int:
    c = 0xFF
    for b in data:
        c = _CRC8[c ^ b]
    return 0xFF - c


def rfcomm_len(n: int) -> bytes:
    return bytes([(n << 1) | 1]) if n <= 127 else bytes([(n & 0x7F) << 1, n >> 7])


def rfcomm_frame(ftype, c_r, dlci, p_f, payload=b'', credits=None) -> bytes:
    head = bytes([1 | (c_r << 1) | (dlci << 2), ftype | (p_f << 4)])
    ln = rfcomm_len(len(payload))
    fcs = rfcomm_fcs(head if ftype == UIH else head + ln)
    return head + ln + (bytes([credits]) if credits is not None else b'') + payload + bytes([fcs])


def rfcomm_mcc(mcc_type: int, c_r: int, value: bytes) -> bytes:
    return bytes([1 | (c_r << 1) | (mcc_type << 2)]) + rfcomm_len(len(value)) + value


MCC_PN, MCC_MSC, MCC_RPN, MCC_RLS, MCC_TEST, MCC_FCON, MCC_FCOFF, MCC_NSC = 0x20, 0x38, 0x24, 0x14, 0x08, 0x28, 0x18, 0x04


def rfcomm_pn(dlci, max_frame_size=127, credits=7, cl=0xF0) -> bytes:
    return bytes([dlci & 0x3F, cl, 7, 0]) + u16(max_frame_size) + bytes([0, credits & 7])


def rfcomm_msc(dlci, fc=0) -> bytes:
    return bytes([3 | (dlci << 2), 1 | (fc << 1) | (1 << 2) | (1 << 3) | (1 << 7)])


class RfFrame(NamedTuple):
    dlci: int
    c_r: int
    ftype: int
    p_f: int
    info: bytes
    fcs_ok: bool


def rfcomm_parse(frame: bytes):
    """Reference parser: returns RfFrame or None when the bytes are not a well-formed
    RFCOMM frame (short, EA bits wrong, length inconsistent)."""
    if len(frame) < 4 or not frame[0] & 1:
        return None
    addr, ctrl = frame[0], frame[1]
    if frame[2] & 1:
        ln, off = frame[2] >> 1, 3
    else:
        if len(frame) < 5:
            return None
        ln, off = (frame[2] >> 1) | (frame[3] << 7), 4
    ftype, p_f = ctrl & 0xEF, (ctrl >> 4) & 1
    dlci = addr >> 2
    credit = 1 if (ftype == UIH and p_f and dlci != 0) else 0
    if len(frame) != off + credit + ln + 1:
        return None
    want = rfcomm_fcs(frame[:2] if ftype == UIH else frame[:off])
    return RfFrame(dlci, (addr >> 1) & 1, ftype, p_f, frame[off:off + credit + ln], want == frame[-1])


def rfcomm_mcc_parse(info: bytes):
    if len(info) < 2 or not info[0] & 1 or not info[1] & 1:
        return None
    ln = info[1] >> 1
    if len(info) != 2 + ln:
        return None
    return info[0] >> 2, (info[0] >> 1) & 1, info[2:]


def rfcomm_is_legit_state_change(frame: bytes, dlci_live: int) -> str | None:
    """Names the reason when `frame` is a *valid* RFCOMM frame by which a peer legitimately
    closes, throttles or renegotiates the multiplexer / the live DLC (such frames are not
    garbage: after them the reference echo is not owed). None otherwise."""
    f = rfcomm_parse(frame)
    if f is None or not f.fcs_ok:
        return None
    if f.ftype in (DISC, DM) and f.dlci in (0, dlci_live):
        return 'disc/dm'
    if f.ftype == SABM and f.dlci in (0, dlci_live):
        return 'sabm-restart'
    if f.ftype == UIH and f.dlci == 0:
        m = rfcomm_mcc_parse(f.info)
        if m is None:
            return None
        t, cr, v = m
        if t == MCC_FCOFF:
            return 'fcoff'
        if t == MCC_MSC and len(v) >= 2 and (v[0] >> 2) == dlci_live and (v[1] & 2):
            return 'msc-fc'
        if t == MCC_PN and len(v) >= 1 and (v[0] & 0x3F) == dlci_live:
            return 'pn-renegotiation'
    return None


def rfcomm_corpus(dlci: int, role_cr: int = 1) -> list[Pdu]:
    """role_cr: C/R bit for commands from the attacker (initiator = 1)."""
    o = dlci ^ 2 if dlci >= 4 else dlci + 2      # another, never opened, DLCI
    def L(frame):  # the length field of the RFCOMM header
        return (2, 1, 'rfcomm')
    mk = []

    def add(name, frame, extra=()):
        mk.append(Pdu(name, frame, (L(frame),) + tuple(extra)))

    add('rfcomm/sabm-other-dlci', rfcomm_frame(SABM, role_cr, o, 1))
    add('rfcomm/ua-unsolicited', rfcomm_frame(UA, role_cr, dlci, 1))
    add('rfcomm/ua-dlci0', rfcomm_frame(UA, role_cr, 0, 1))
    add('rfcomm/dm-other-dlci', rfcomm_frame(DM, role_cr, o, 1))
    add('rfcomm/disc-other-dlci', rfcomm_frame(DISC, role_cr, o, 1))
    add('rfcomm/uih-data', rfcomm_frame(UIH, role_cr, dlci, 0, b'data'))
    add('rfcomm/uih-data-credits', rfcomm_frame(UIH, role_cr, dlci, 1, b'data', credits=3))
    add('rfcomm/uih-credits-only', rfcomm_frame(UIH, role_cr, dlci, 1, b'', credits=1))
    add('rfcomm/uih-credits-255', rfcomm_frame(UIH, role_cr, dlci, 1, b'', credits=255))
    add('rfcomm/uih-pf-no-credit-byte', rfcomm_frame(UIH, role_cr, dlci, 1, b''))
    add('rfcomm/uih-other-dlci', rfcomm_frame(UIH, role_cr, o, 0, b'data'))
    add('rfcomm/uih-130-bytes', rfcomm_frame(UIH, role_cr, dlci, 0, bytes(130)))
    add('rfcomm/ui-frame', rfcomm_frame(0x03, role_cr, dlci, 0, b'ui'))
    add('rfcomm/unknown-control', rfcomm_frame(0x8F, role_cr, dlci, 0, b''))
    add('rfcomm/mcc-pn-other', rfcomm_frame(UIH, role_cr, 0, 0, rfcomm_mcc(MCC_PN, 1, rfcomm_pn(o))), ((4, 1, 'rfcomm'),))
    add('rfcomm/mcc-pn-odd-dlci', rfcomm_frame(UIH, role_cr, 0, 0, rfcomm_mcc(MCC_PN, 1, rfcomm_pn(o | 1))), ((4, 1, 'rfcomm'),))
    add('rfcomm/mcc-pn-frame0', rfcomm_frame(UIH, role_cr, 0, 0, rfcomm_mcc(MCC_PN, 1, rfcomm_pn(o, 0, 0))), ((4, 1, 'rfcomm'),))
    add('rfcomm/mcc-pn-rsp', rfcomm_frame(UIH, role_cr, 0, 0, rfcomm_mcc(MCC_PN, 0, rfcomm_pn(o))), ((4, 1, 'rfcomm'),))
    add('rfcomm/mcc-msc-cmd', rfcomm_frame(UIH, role_cr, 0, 0, rfcomm_mcc(MCC_MSC, 1, rfcomm_msc(dlci))), ((4, 1, 'rfcomm'),))
    add('rfcomm/mcc-msc-rsp', rfcomm_frame(UIH, role_cr, 0, 0, rfcomm_mcc(MCC_MSC, 0, rfcomm_msc(dlci))), ((4, 1, 'rfcomm'),))
    add('rfcomm/mcc-msc-unknown-dlci', rfcomm_frame(UIH, role_cr, 0, 0, rfcomm_mcc(MCC_MSC, 1, rfcomm_msc(o))), ((4, 1, 'rfcomm'),))
    add('rfcomm/mcc-msc-break', rfcomm_frame(UIH, role_cr, 0, 0, rfcomm_mcc(MCC_MSC, 1, rfcomm_msc(dlci) + b'\x13')), ((4, 1, 'rfcomm'),))
    add('rfcomm/mcc-rpn', rfcomm_frame(UIH, role_cr, 0, 0, rfcomm_mcc(MCC_RPN, 1, bytes([3 | (dlci << 2), 3, 3, 0, 0x11, 0x13, 0x7F, 0x3F]))), ((4, 1, 'rfcomm'),))
    add('rfcomm/mcc-rpn-request', rfcomm_frame(UIH, role_cr, 0, 0, rfcomm_mcc(MCC_RPN, 1, bytes([3 | (dlci << 2)]))), ((4, 1, 'rfcomm'),))
    add('rfcomm/mcc-rls', rfcomm_frame(UIH, role_cr, 0, 0, rfcomm_mcc(MCC_RLS, 1, bytes([3 | (dlci << 2), 0x03]))), ((4, 1, 'rfcomm'),))
    add('rfcomm/mcc-test', rfcomm_frame(UIH, role_cr, 0, 0, rfcomm_mcc(MCC_TEST, 1, b'test')), ((4, 1, 'rfcomm'),))
    add('rfcomm/mcc-fcon', rfcomm_frame(UIH, role_cr, 0, 0, rfcomm_mcc(MCC_FCON, 1, b'')), ((4, 1, 'rfcomm'),))
    add('rfcomm/mcc-nsc', rfcomm_frame(UIH, role_cr, 0, 0, rfcomm_mcc(MCC_NSC, 0, b'\x21')), ((4, 1, 'rfcomm'),))
    add('rfcomm/mcc-unknown-type', rfcomm_frame(UIH, role_cr, 0, 0, rfcomm_mcc(0x3F, 1, b'\x00')), ((4, 1, 'rfcomm'),))
    add('rfcomm/mcc-empty', rfcomm_frame(UIH, role_cr, 0, 0, b''))
    add('rfcomm/mcc-one-byte', rfcomm_frame(UIH, role_cr, 0, 0, b'\x83'))
    return mk


# =============================================================================
# HFP AT stream (HFP 1.8 §4/§5, V.250 5.2/5.7)
# =============================================================================
AG_COMMANDS = [  # what an HF sends to an AG
    'AT+BRSF=895', 'AT+BAC=1,2', 'AT+CIND=?', 'AT+CIND?', 'AT+CMER=3,0,0,1', 'AT+CHLD=?', 'AT+CHLD=1',
    'AT+BIND=1,2', 'AT+BIND=?', 'AT+BIND?', 'AT+BIEV=2,50', 'AT+CMEE=1', 'AT+CLIP=1', 'AT+CCWA=1', 'AT+COPS=3,0',
    'AT+COPS?', 'AT+CLCC', 'AT+VGS=7', 'AT+VGM=15', 'AT+NREC=0', 'AT+BVRA=1', 'AT+BCC', 'AT+BCS=2', 'ATA',
    'ATD5551212;', 'ATD>1;', 'AT+BLDN', 'AT+CHUP', 'AT+VTS=5', 'AT+BIA=1,1,,0', 'AT+CNUM', 'AT+BTRH?', 'AT+BINP=1',
    'AT+XAPL=ABCD-1234-0100,10', 'AT+CPBS="ME"', 'AT+CSCS="UTF-8"',
]
HF_RESULTS = [  # what an AG sends to an HF
    'OK', 'ERROR', '+CME ERROR: 30', 'RING', 'NO CARRIER', 'BUSY', 'NO ANSWER', 'DELAYED', 'BLACKLISTED',
    '+BRSF: 1023', '+CIND: ("call",(0,1)),("callsetup",(0-3)),("service",(0-1))', '+CIND: 0,0,1',
    '+CHLD: (0,1,1x,2,2x,3,4)', '+BIND: (1,2)', '+BIND: 1,1', '+CIEV: 1,1', '+CIEV: 3,0', '+CIEV: 2,3',
    '+CLIP: "+15551212",145', '+CCWA: "5551212",129', '+CLCC: 1,0,0,0,0,"+15551212",145', '+COPS: 0,0,"Operator"',
    '+VGS: 9', '+VGM: 3', '+BSIR: 1', '+BVRA: 1', '+BCS: 2', '+BCS: 1', '+CNUM: ,"5551212",129,,4', '+BTRH: 0',
    '+BINP: "5551212"',
]


def at_hostile_text(rng: random.Random, base: str) -> tuple[str, bytes]:
    """(class, text bytes without framing)."""
    k = rng.choice(['missing-close-quote', 'missing-open-quote', 'missing-close-paren', 'missing-open-paren',
                    'quote-after-token', 'paren-after-token', 'huge-token', 'huge-line', 'non-ascii', 'nul-bytes',
                    'only-prefix', 'no-plus', 'lowercase', 'empty-params', 'many-commas', 'nested-parens', 'random-text',
                    'colon-storm', 'equals-storm', 'non-numeric', 'negative', 'huge-number', 'valid', 'valid',
                    'embedded-cr', 'embedded-lf', 'spaces', 'nested-parens-siblings'])
    b = base.encode()
    if k == 'missing-close-quote':
        t = b + b',"unterminated'
    elif k == 'missing-open-quote':
        t = b + b',unopened"'
    elif k == 'missing-close-paren':
        t = b + b',(1,2'
    elif k == 'missing-open-paren':
        t = b + b',1,2)'
    elif k == 'quote-after-token':
        t = b + b'x"q"'
    elif k == 'paren-after-token':
        t = b + b'x(1)'
    elif k == 'huge-token':
        t = b + b',' + b'9' * rng.choice([300, 2000, 20000])
    elif k == 'huge-line':
        t = b + b',1' * rng.choice([200, 2000, 10000])
    elif k == 'non-ascii':
        t = b + bytes([0xC3, 0x28, 0xFF, 0xFE]) + rnd(rng, 4)
    elif k == 'nul-bytes':
        t = b[:3] + b'\x00\x00' + b[3:]
    elif k == 'only-prefix':
        t = rng.choice([b'AT', b'AT+', b'A', b'+', b'AT=', b'AT?', b'AT+=', b'AT+?'])
    elif k == 'no-plus':
        t = b.replace(b'+', b'', 1)
    elif k == 'lowercase':
        t = b.lower()
    elif k == 'empty-params':
        t = b.split(b'=')[0].split(b':')[0] + rng.choice([b'=', b':', b'=,', b': ,', b'=,,,,'])
    elif k == 'many-commas':
        t = b + b',' * rng.choice([1, 10, 500])
    elif k == 'nested-parens':
        n = rng.choice([2, 50, 3000])
        t = b + b',' + b'(' * n + b'1' + b')' * rng.choice([n, n - 1, 0])
    elif k == 'nested-parens-siblings':
        # (1,(1,(1,( ... ),2),2),2): 1-3 siblings before / after the nested list at every level
        n = rng.choice([3, 40, 700, 3000])
        bef = b'1,' * rng.choice([0, 1, 1, 3])
        aft = b',2' * rng.choice([0, 1, 3])
        t = b + b',' + (b'(' + bef) * n + b'0' + (aft + b')') * rng.choice([n, n, n - 1])
    elif k == 'random-text':
        t = bytes(rng.choice(b'AT+BRSFCINDOK:=?,()"0123456789 ;-x') for _ in range(rng.randint(1, 60)))
    elif k == 'colon-storm':
        t = b + b':' * rng.choice([1, 5]) + b'1:2:3'
    elif k == 'equals-storm':
        t = b + b'==?=?'
    elif k == 'non-numeric':
        t = b.split(b'=')[0].split(b':')[0] + rng.choice([b'=abc', b': x,y', b'=1.5', b': 0x10', '=\u0661\u0662'.encode()])
    elif k == 'negative':
        t = b.split(b'=')[0].split(b':')[0] + rng.choice([b'=-1', b': -1,-1', b'=0,-5'])
    elif k == 'huge-number':
        t = b.split(b'=')[0].split(b':')[0] + rng.choice([b'=99999999999999999999', b': 4294967296,1', b'=255,65536'])
    elif k == 'embedded-cr':
        t = b[:4] + b'\r' + b[4:]
    elif k == 'embedded-lf':
        t = b[:4] + b'\n' + b[4:]
    elif k == 'spaces':
        t = b' ' + b.replace(b'=', b' = ').replace(b',', b' , ') + b'  '
    else:
        t = b
    return k, t


def at_frames(rng: random.Random, role: str, n: int):
    """`n` hostile chunks for an AG victim (role='ag': command lines) or an HF victim
    (role='hf': result codes). Returns [(class, name, bytes)]. Framing faults are mixed in."""
    out = []
    for _ in range(n):
        base = rng.choice(AG_COMMANDS if role == 'ag' else HF_RESULTS)
        k, t = at_hostile_text(rng, base)
        fr = rng.choice(['ok', 'ok', 'ok', 'no-terminator', 'lf-only', 'crlf', 'double', 'triple', 'split', 'raw-bytes',
                         'stray-delims', 'then-final'])
        if fr == 'raw-bytes':
            data = rnd(rng, rng.choice([1, 5, 40, 300]))
        elif fr == 'stray-delims':
            data = rng.choice([b'\r', b'\n', b'\r\n', b'\r\n\r\n', b'\r\r', b'\n\r', b'\r\n\r'])
        elif role == 'ag':
            data = {'ok': t + b'\r', 'no-terminator': t, 'lf-only': t + b'\n', 'crlf': t + b'\r\n',
                    'double': t + b'\r' + t + b'\r', 'triple': (t + b'\r') * 3, 'split': t[:len(t) // 2],
                    'then-final': t + b'\rAT+VGS=3\r'}[fr]
        else:
            data = {'ok': b'\r\n' + t + b'\r\n', 'no-terminator': b'\r\n' + t, 'lf-only': b'\n' + t + b'\n',
                    'crlf': t + b'\r\n', 'double': b'\r\n' + t + b'\r\n\r\n' + t + b'\r\n',
                    'triple': (b'\r\n' + t + b'\r\n') * 3,
                    'then-final': b'\r\n' + t + b'\r\n\r\n' + rng.choice([b'ERROR', b'NO CARRIER', b'OK', b'BUSY']) + b'\r\n',
                    'split': b'\r\n' + t[:len(t) // 2]}[fr]
        out.append((f'at/{k}/{fr}', base, data))
    return out


# =============================================================================
# AVDTP (A/V Distribution Transport 1.3 §8) — PSM 0x19
# =============================================================================
def avdtp_hdr(label, ptype, mtype):
    return bytes([((label & 0xF) << 4) | (ptype << 2) | mtype])


def avdtp_single(label, mtype, signal, payload=b''):
    return avdtp_hdr(label, 0, mtype) + bytes([signal & 0x3F]) + payload


def avdtp_corpus(seid: int) -> list[Pdu]:
    s = bytes([seid << 2])
    caps = bytes([1, 0]) + bytes([7, 6, 0x00, 0x00, 0x21, 0x15, 2, 53])     # media transport + SBC codec
    caps_lens = ((5, 1, 'le'), (7, 1, 'le'))
    out = [
        Pdu('avdtp/discover-cmd', avdtp_single(1, 0, 1)),
        Pdu('avdtp/discover-rsp', avdtp_single(1, 2, 1, bytes([seid << 2, 0x08]))),
        Pdu('avdtp/get-capabilities-cmd', avdtp_single(2, 0, 2, s)),
        Pdu('avdtp/get-capabilities-bad-seid', avdtp_single(2, 0, 2, bytes([0x3E << 2]))),
        Pdu('avdtp/get-capabilities-rsp', avdtp_single(2, 2, 2, caps), ((3, 1, 'le'), (5, 1, 'le'))),
        Pdu('avdtp/set-configuration-cmd', avdtp_single(3, 0, 3, s + bytes([1 << 2]) + caps), caps_lens),
        Pdu('avdtp/set-configuration-bad-cap-len', avdtp_single(3, 0, 3, s + bytes([1 << 2]) + bytes([7, 200, 0, 0])), ((5, 1, 'le'),)),
        Pdu('avdtp/set-configuration-unknown-cat', avdtp_single(3, 0, 3, s + bytes([1 << 2]) + bytes([0x55, 2, 1, 2])), ((5, 1, 'le'),)),
        Pdu('avdtp/get-configuration-cmd', avdtp_single(4, 0, 4, s)),
        Pdu('avdtp/reconfigure-cmd', avdtp_single(5, 0, 5, s + caps[2:]), ((4, 1, 'le'),)),
        Pdu('avdtp/open-cmd', avdtp_single(6, 0, 6, s)),
        Pdu('avdtp/start-cmd', avdtp_single(7, 0, 7, s)),
        Pdu('avdtp/start-cmd-many', avdtp_single(7, 0, 7, s + bytes([2 << 2, 0x3F << 2, 0]))),
        Pdu('avdtp/close-cmd', avdtp_single(8, 0, 8, s)),
        Pdu('avdtp/suspend-cmd', avdtp_single(9, 0, 9, s)),
        Pdu('avdtp/abort-cmd', avdtp_single(10, 0, 10, s)),
        Pdu('avdtp/security-control-cmd', avdtp_single(11, 0, 11, s + b'secret')),
        Pdu('avdtp/get-all-capabilities-cmd', avdtp_single(12, 0, 12, s)),
        Pdu('avdtp/delay-report-cmd', avdtp_single(13, 0, 13, s + be16(100))),
        Pdu('avdtp/signal-zero', avdtp_single(14, 0, 0)),
        Pdu('avdtp/signal-0x3f', avdtp_single(14, 0, 0x3F)),
        Pdu('avdtp/general-reject', avdtp_single(15, 1, 0)),
        Pdu('avdtp/response-accept-unsolicited', avdtp_single(3, 2, 3)),
        Pdu('avdtp/response-reject-unsolicited', avdtp_single(3, 3, 3, bytes([7, 0x29]))),
        Pdu('avdtp/start-packet', avdtp_hdr(4, 1, 0) + bytes([3, 3]) + s, ((1, 1, 'le'),)),
        Pdu('avdtp/start-packet-nosp0', avdtp_hdr(4, 1, 0) + bytes([0, 3]) + s, ((1, 1, 'le'),)),
        Pdu('avdtp/continue-packet', avdtp_hdr(4, 2, 0) + bytes([1 << 2])),
        Pdu('avdtp/end-packet', avdtp_hdr(4, 3, 0) + caps),
        Pdu('avdtp/continue-other-label', avdtp_hdr(9, 2, 0) + b'xx'),
        Pdu('avdtp/end-without-start', avdtp_hdr(5, 3, 0) + b'xx'),
    ]
    return out


def avdtp_discover(label: int) -> bytes:
    return avdtp_single(label, 0, 1)


# =============================================================================
# AVCTP 1.4 §6 / AV/C / AVRCP 1.6 §6 — PSM 0x17
# =============================================================================
AVRCP_PID = 0x110E
BT_SIG = b'\x00\x19\x58'


def avctp_hdr(label, ptype, is_cmd, ipid=0):
    return bytes([((label & 0xF) << 4) | (ptype << 2) | ((0 if is_cmd else 1) << 1) | ipid])


def avctp_single(label, is_cmd, pid, payload, ipid=0):
    return avctp_hdr(label, 0, is_cmd, ipid) + be16(pid) + payload


def avc(ctype, subunit_type, subunit_id, opcode, operands=b''):
    return bytes([ctype & 0xF, (subunit_type << 3) | subunit_id, opcode]) + operands


def avrcp_vendor(ctype, pdu_id, params=b'', ptype=0):
    return avc(ctype, 9, 0, 0x00, BT_SIG + bytes([pdu_id, ptype]) + be16(len(params)) + params)


def avctp_corpus() -> list[Pdu]:
    P = AVRCP_PID
    vl = ((11, 2, 'be'),)    # AVRCP parameter length inside a single AVCTP packet
    return [
        Pdu('avctp/unit-info-cmd', avctp_single(1, True, P, avc(1, 0x1F, 7, 0x30, b'\xFF' * 5))),
        Pdu('avctp/subunit-info-cmd', avctp_single(2, True, P, avc(1, 0x1F, 7, 0x31, b'\x07' + b'\xFF' * 4))),
        Pdu('avctp/pass-through-play', avctp_single(3, True, P, avc(0, 9, 0, 0x7C, bytes([0x44, 0]))), ((7, 1, 'le'),)),
        Pdu('avctp/pass-through-release', avctp_single(3, True, P, avc(0, 9, 0, 0x7C, bytes([0xC4, 0]))), ((7, 1, 'le'),)),
        Pdu('avctp/pass-through-vendor', avctp_single(3, True, P, avc(0, 9, 0, 0x7C, bytes([0x7E, 5]) + BT_SIG + be16(1))), ((7, 1, 'le'),)),
        Pdu('avctp/pass-through-rsp', avctp_single(3, False, P, avc(9, 9, 0, 0x7C, bytes([0x44, 0]))), ((7, 1, 'le'),)),
        Pdu('avctp/get-capabilities-company', avctp_single(4, True, P, avrcp_vendor(1, 0x10, b'\x02')), vl),
        Pdu('avctp/get-capabilities-events', avctp_single(4, True, P, avrcp_vendor(1, 0x10, b'\x03')), vl),
        Pdu('avctp/get-capabilities-bad-id', avctp_single(4, True, P, avrcp_vendor(1, 0x10, b'\x7F')), vl),
        Pdu('avctp/get-play-status', avctp_single(5, True, P, avrcp_vendor(1, 0x30)), vl),
        Pdu('avctp/get-element-attributes', avctp_single(5, True, P, avrcp_vendor(1, 0x20, bytes(8) + b'\x02' + struct.pack('>II', 1, 2))), vl),
        Pdu('avctp/register-notification', avctp_single(6, True, P, avrcp_vendor(3, 0x31, b'\x01' + bytes(4))), vl),
        Pdu('avctp/register-notification-volume', avctp_single(6, True, P, avrcp_vendor(3, 0x31, b'\x0D' + bytes(4))), vl),
        Pdu('avctp/register-notification-bad-event', avctp_single(6, True, P, avrcp_vendor(3, 0x31, b'\x7F' + bytes(4))), vl),
        Pdu('avctp/set-absolute-volume', avctp_single(7, True, P, avrcp_vendor(0, 0x50, b'\x40')), vl),
        Pdu('avctp/set-absolute-volume-no-param', avctp_single(7, True, P, avrcp_vendor(0, 0x50, b'')), vl),
        Pdu('avctp/list-app-setting-attrs', avctp_single(8, True, P, avrcp_vendor(1, 0x11)), vl),
        Pdu('avctp/list-app-setting-values', avctp_single(8, True, P, avrcp_vendor(1, 0x12, b'\x01')), vl),
        Pdu('avctp/get-app-setting-value', avctp_single(8, True, P, avrcp_vendor(1, 0x13, b'\x02\x01\x02')), vl),
        Pdu('avctp/set-app-setting-value', avctp_single(8, True, P, avrcp_vendor(0, 0x14, b'\x01\x01\x02')), vl),
        Pdu('avctp/play-item', avctp_single(8, True, P, avrcp_vendor(0, 0x74, b'\x03' + bytes(8) + be16(1))), vl),
        Pdu('avctp/request-continuing', avctp_single(9, True, P, avrcp_vendor(0, 0x40, b'\x20')), vl),
        Pdu('avctp/abort-continuing', avctp_single(9, True, P, avrcp_vendor(0, 0x41, b'\x20')), vl),
        Pdu('avctp/avrcp-fragment-start', avctp_single(10, True, P, avrcp_vendor(1, 0x20, bytes(9), ptype=1)), vl),
        Pdu('avctp/avrcp-fragment-continue', avctp_single(10, True, P, avrcp_vendor(1, 0x20, bytes(4), ptype=2)), vl),
        Pdu('avctp/avrcp-fragment-end', avctp_single(10, True, P, avrcp_vendor(1, 0x20, bytes(4), ptype=3)), vl),
        Pdu('avctp/vendor-other-company', avctp_single(11, True, P, avc(1, 9, 0, 0x00, b'\x12\x34\x56' + bytes([0x10, 0]) + be16(1) + b'\x02'))),
        Pdu('avctp/vendor-rsp-unsolicited', avctp_single(12, False, P, avc(0xC, 9, 0, 0x00, BT_SIG + bytes([0x10, 0]) + be16(5) + b'\x02\x01' + BT_SIG)), vl),
        Pdu('avctp/vendor-rsp-interim', avctp_single(12, False, P, avc(0xF, 9, 0, 0x00, BT_SIG + bytes([0x31, 0]) + be16(2) + b'\x01\x00')), vl),
        Pdu('avctp/other-subunit', avctp_single(13, True, P, avc(1, 5, 1, 0x30, b'\xFF' * 5))),
        Pdu('avctp/unknown-opcode', avctp_single(13, True, P, avc(1, 9, 0, 0x55, b'\x01'))),
        Pdu('avctp/unknown-pid', avctp_single(14, True, 0x1234, b'\x01\x48\x30')),
        Pdu('avctp/ipid-response', avctp_single(14, False, P, b'', ipid=1)),
        Pdu('avctp/command-with-ipid', avctp_single(14, True, P, avc(1, 0x1F, 7, 0x30), ipid=1)),
        Pdu('avctp/start-fragment', avctp_hdr(15, 1, True) + bytes([3]) + be16(P) + avc(1, 9, 0, 0x00, BT_SIG), ((1, 1, 'le'),)),
        Pdu('avctp/continue-fragment', avctp_hdr(15, 2, True) + bytes([0x10, 0]) + be16(1)),
        Pdu('avctp/end-fragment', avctp_hdr(15, 3, True) + b'\x02'),
        Pdu('avctp/end-without-start', avctp_hdr(0, 3, True) + b'\x02'),
        # the same trains with transaction label 0 (the lowest label is a valid label, not a sentinel)
        Pdu('avctp/start-fragment-label0', avctp_hdr(0, 1, True) + bytes([3]) + be16(P) + avc(1, 9, 0, 0x00, BT_SIG), ((1, 1, 'le'),)),
        Pdu('avctp/continue-fragment-label0', avctp_hdr(0, 2, True) + bytes([0x10, 0]) + be16(1)),
        Pdu('avctp/header-only', avctp_hdr(1, 0, True)),
    ]


def avrcp_get_capabilities(label: int) -> bytes:
    return avctp_single(label, True, AVRCP_PID, avrcp_vendor(1, 0x10, b'\x02'))


def avc_unit_info(label: int) -> bytes:
    return avctp_single(label, True, AVRCP_PID, avc(1, 0x1F, 7, 0x30, b'\xFF' * 5))


# =============================================================================
# HCI packets from a controller (Core Vol 4 Part E 5.4, 7.7) — H4 framing
# =============================================================================
def hci_event(code: int, params: bytes) -> bytes:
    return bytes([0x04, code, len(params) & 0xFF]) + params


def le_meta(sub: int, params: bytes) -> bytes:
    return hci_event(0x3E, bytes([sub]) + params)


def hci_acl(handle: int, pb: int, bc: int, data: bytes, declared: int | None = None) -> bytes:
    return b'\x02' + u16((handle & 0xFFF) | (pb << 12) | (bc << 14)) + u16(len(data) if declared is None else declared) + data


def hci_sco(handle: int, status: int, data: bytes, declared: int | None = None) -> bytes:
    return b'\x03' + u16((handle & 0xFFF) | (status << 12)) + bytes([(len(data) if declared is None else declared) & 0xFF]) + data


def hci_iso(handle: int, pb: int, ts: int, data: bytes, declared: int | None = None) -> bytes:
    return b'\x05' + u16((handle & 0xFFF) | (pb << 12) | (ts << 14)) + u16((len(data) if declared is None else declared) & 0x3FFF) + data


def l2cap(cid: int, payload: bytes, declared: int | None = None) -> bytes:
    return u16(len(payload) if declared is None else declared) + u16(cid) + payload


def is_valid_disconnect_event(packet: bytes, handle: int) -> bool:
    """Disconnection Complete (0x05) with status 0 for `handle`."""
    return (len(packet) >= 7 and packet[0] == 0x04 and packet[1] == 0x05 and packet[3] == 0
            and int.from_bytes(packet[4:6], 'little') == handle)


def hci_event_corpus(handle: int, peer_addr: bytes, classic: bool) -> list[Pdu]:
    H = u16(handle)
    A = peer_addr
    L = ((2, 1, 'le'),)
    ev = lambda name, code, params, extra=(): Pdu(name, hci_event(code, params), L + tuple(extra))
    me = lambda name, sub, params, extra=(): Pdu(name, le_meta(sub, params), L + tuple(extra))
    out = [
        ev('hci/inquiry-complete', 0x01, b'\x00'),
        ev('hci/inquiry-result', 0x02, b'\x01' + A + bytes([1, 0, 0]) + b'\x04\x02\x5A' + u16(0x1234), ((3, 1, 'le'),)),
        ev('hci/connection-complete-other', 0x03, b'\x00' + u16(handle + 7) + bytes(range(6)) + b'\x01\x00'),
        ev('hci/connection-complete-failed', 0x03, b'\x04' + u16(0) + A + b'\x01\x00'),
        ev('hci/connection-request', 0x04, bytes(range(6)) + b'\x04\x02\x5A' + b'\x01'),
        ev('hci/disconnection-complete-other', 0x05, b'\x00' + u16(handle + 9) + b'\x13'),
        ev('hci/disconnection-complete-failed', 0x05, b'\x0C' + H + b'\x13'),
        ev('hci/authentication-complete', 0x06, b'\x00' + H),
        ev('hci/authentication-complete-failed', 0x06, b'\x05' + H),
        ev('hci/remote-name-request-complete', 0x07, b'\x00' + A + b'name'.ljust(248, b'\x00')),
        ev('hci/remote-name-request-complete-bad-utf8', 0x07, b'\x00' + A + b'\xff\xfe\xc3'.ljust(248, b'\xc3')),
        ev('hci/encryption-change-on', 0x08, b'\x00' + H + b'\x01'),
        ev('hci/encryption-change-failed', 0x08, b'\x06' + H + b'\x00'),
        ev('hci/change-link-key-complete', 0x09, b'\x00' + H),
        ev('hci/read-remote-features-complete', 0x0B, b'\x00' + H + bytes(8)),
        ev('hci/read-remote-version-complete', 0x0C, b'\x00' + H + b'\x0C' + u16(0x1D) + u16(1)),
        ev('hci/qos-setup-complete', 0x0D, b'\x00' + H + bytes(18)),
        ev('hci/command-complete-unexpected', 0x0E, b'\x01' + u16(0x1009) + b'\x00' + bytes(6)),
        ev('hci/command-complete-nop', 0x0E, b'\x01' + u16(0)),
        ev('hci/command-complete-reset', 0x0E, b'\x01' + u16(0x0C03) + b'\x00'),
        ev('hci/command-complete-zero-credits', 0x0E, b'\x00' + u16(0x0C14) + b'\x00' + b'nm'.ljust(248, b'\0')),
        ev('hci/command-status-unexpected', 0x0F, b'\x00\x01' + u16(0x0405)),
        ev('hci/command-status-error', 0x0F, b'\x0C\x01' + u16(0x200D)),
        ev('hci/hardware-error', 0x10, b'\x42'),
        ev('hci/flush-occurred', 0x11, H),
        ev('hci/role-change', 0x12, b'\x00' + A + b'\x01'),
        ev('hci/number-of-completed-packets', 0x13, b'\x01' + H + u16(1), ((3, 1, 'le'),)),
        ev('hci/number-of-completed-packets-over', 0x13, b'\x02' + H + u16(0xFFFF) + u16(handle + 3) + u16(9), ((3, 1, 'le'),)),
        ev('hci/mode-change', 0x14, b'\x00' + H + b'\x02' + u16(0x100)),
        ev('hci/pin-code-request', 0x16, A),
        ev('hci/link-key-request', 0x17, A),
        ev('hci/link-key-notification', 0x18, A + bytes(16) + b'\x04'),
        ev('hci/data-buffer-overflow', 0x1A, b'\x01'),
        ev('hci/max-slots-change', 0x1B, H + b'\x05'),
        ev('hci/read-clock-offset-complete', 0x1C, b'\x00' + H + u16(5)),
        ev('hci/packet-type-changed', 0x1D, b'\x00' + H + u16(0xCC18)),
        ev('hci/inquiry-result-rssi', 0x22, b'\x01' + A + bytes([1, 0]) + b'\x04\x02\x5A' + u16(0x1234) + b'\xC0', ((3, 1, 'le'),)),
        ev('hci/read-remote-ext-features-complete', 0x23, b'\x00' + H + b'\x01\x02' + bytes(8)),
        ev('hci/sync-connection-complete', 0x2C, b'\x00' + u16(handle + 0x100) + A + b'\x02\x0C\x06' + u16(60) + u16(60) + b'\x02'),
        ev('hci/sync-connection-complete-failed', 0x2C, b'\x1A' + u16(0) + A + b'\x02\x00\x00' + u16(0) + u16(0) + b'\x00'),
        ev('hci/sync-connection-changed', 0x2D, b'\x00' + u16(handle + 0x100) + b'\x0C\x06' + u16(60) + u16(60)),
        ev('hci/extended-inquiry-result', 0x2F, b'\x01' + A + bytes([1, 0]) + b'\x04\x02\x5A' + u16(0x1234) + b'\xC0' +
           (b'\x05\x09name' + b'\xFF\x01').ljust(240, b'\x00')),
        ev('hci/encryption-key-refresh-complete', 0x30, b'\x00' + H),
        ev('hci/io-capability-request', 0x31, A),
        ev('hci/io-capability-response', 0x32, A + b'\x01\x00\x05'),
        ev('hci/user-confirmation-request', 0x33, A + struct.pack('<I', 123456)),
        ev('hci/user-passkey-request', 0x34, A),
        ev('hci/remote-oob-data-request', 0x35, A),
        ev('hci/simple-pairing-complete', 0x36, b'\x00' + A),
        ev('hci/simple-pairing-complete-failed', 0x36, b'\x05' + A),
        ev('hci/link-supervision-timeout-changed', 0x38, H + u16(0x2000)),
        ev('hci/user-passkey-notification', 0x3B, A + struct.pack('<I', 999999)),
        ev('hci/keypress-notification', 0x3C, A + b'\x02'),
        ev('hci/remote-host-supported-features', 0x3D, A + bytes(8)),
        ev('hci/number-of-completed-data-blocks', 0x48, u16(10) + b'\x01' + H + u16(1) + u16(1)),
        ev('hci/authenticated-payload-timeout', 0x57, H),
        ev('hci/vendor-event', 0xFF, b'\x55\x01\x02\x03'),
        ev('hci/vendor-event-empty', 0xFF, b''),
        ev('hci/reserved-event-code', 0x00, b'\x00'),
        ev('hci/unknown-event-code', 0x7B, b'\x01\x02'),
        me('hci/le-connection-complete-other', 0x01, b'\x00' + u16(handle + 5) + b'\x01\x01' + bytes(range(1, 7)) + u16(24) + u16(0) + u16(72) + b'\x00'),
        me('hci/le-connection-complete-failed', 0x01, b'\x3C' + u16(0) + b'\x01\x00' + bytes(6) + u16(0) + u16(0) + u16(0) + b'\x00'),
        me('hci/le-advertising-report', 0x02, b'\x01' + b'\x00\x01' + bytes(range(6)) + b'\x05' + b'\x02\x01\x06\x01\x09' + b'\xC5',
           ((4, 1, 'le'), (13, 1, 'le'))),
        me('hci/le-advertising-report-two', 0x02, b'\x02' + b'\x00\x03' + b'\x00\x01' + bytes(12) + b'\x03\x00' + b'\x02\x01\x06' + b'\xC5\xC6',
           ((4, 1, 'le'),)),
        me('hci/le-advertising-report-bad-ad', 0x02, b'\x01' + b'\x00\x01' + bytes(range(6)) + b'\x04' + b'\x09\x09ab' + b'\xC5',
           ((4, 1, 'le'), (13, 1, 'le'))),
        me('hci/le-connection-update-complete', 0x03, b'\x00' + H + u16(24) + u16(0) + u16(72)),
        me('hci/le-connection-update-complete-failed', 0x03, b'\x1A' + H + u16(0) + u16(0) + u16(0)),
        me('hci/le-read-remote-features-complete', 0x04, b'\x00' + H + bytes(8)),
        me('hci/le-long-term-key-request', 0x05, H + bytes(8) + u16(0x1234)),
        me('hci/le-remote-connection-parameter-request', 0x06, H + u16(6) + u16(12) + u16(0) + u16(100)),
        me('hci/le-data-length-change', 0x07, H + u16(251) + u16(2120) + u16(251) + u16(2120)),
        me('hci/le-read-local-p256-complete', 0x08, b'\x00' + bytes(64)),
        me('hci/le-generate-dhkey-complete', 0x09, b'\x00' + bytes(32)),
        me('hci/le-enhanced-connection-complete-other', 0x0A, b'\x00' + u16(handle + 6) + b'\x01\x01' + bytes(range(1, 7)) + bytes(12) +
           u16(24) + u16(0) + u16(72) + b'\x00'),
        me('hci/le-directed-advertising-report', 0x0B, b'\x01\x01\x00' + bytes(6) + b'\x01' + bytes(6) + b'\xC0', ((4, 1, 'le'),)),
        me('hci/le-phy-update-complete', 0x0C, b'\x00' + H + b'\x02\x02'),
        me('hci/le-extended-advertising-report', 0x0D, b'\x01' + u16(0x13) + b'\x01' + bytes(range(6)) + b'\x01\x00\xFF\x7F\xC5' + u16(0) +
           b'\x00' + bytes(6) + b'\x03' + b'\x02\x01\x06', ((4, 1, 'le'), (28, 1, 'le'))),
        me('hci/le-periodic-sync-established', 0x0E, b'\x00' + u16(1) + b'\x01\x00' + bytes(6) + b'\x01' + u16(100) + b'\x00'),
        me('hci/le-periodic-advertising-report', 0x0F, u16(1) + b'\x7F\xC5\xFF\x00\x03abc', ((11, 1, 'le'),)),
        me('hci/le-scan-timeout', 0x11, b''),
        me('hci/le-advertising-set-terminated', 0x12, b'\x00\x00' + H + b'\x00'),
        me('hci/le-advertising-set-terminated-unknown', 0x12, b'\x00\x7A' + u16(handle + 4) + b'\x03'),
        me('hci/le-scan-request-received', 0x13, b'\x00\x01' + bytes(6)),
        me('hci/le-channel-selection-algorithm', 0x14, H + b'\x01'),
        me('hci/le-cis-established', 0x19, b'\x00' + u16(handle + 0x40) + bytes(3) * 4 + b'\x02\x02\x01\x01\x01\x01' + u16(100) + u16(100) + u16(10)),
        me('hci/le-cis-request', 0x1A, H + u16(handle + 0x41) + b'\x01\x01'),
        me('hci/le-create-big-complete', 0x1B, b'\x00\x01' + bytes(3) * 2 + b'\x02\x01\x01\x01\x01' + u16(100) + u16(10) + b'\x01' + u16(handle + 0x50),
           ((22, 1, 'le'),)),
        me('hci/le-terminate-big-complete', 0x1C, b'\x01\x16'),
        me('hci/le-big-sync-established', 0x1D, b'\x00\x01' + bytes(3) + b'\x01\x01\x01\x01' + u16(100) + u16(10) + b'\x01' + u16(handle + 0x51), ((17, 1, 'le'),)),
        me('hci/le-big-sync-lost', 0x1E, b'\x01\x08'),
        me('hci/le-biginfo-advertising-report', 0x22, u16(1) + b'\x01\x01' + u16(10) + b'\x01\x01\x01\x01' + u16(100) + bytes(3) + u16(100) + b'\x02\x00\x00'),
        me('hci/le-subrate-change', 0x23, b'\x00' + H + u16(1) + u16(0) + u16(0) + u16(72)),
        me('hci/le-unknown-subevent', 0x7C, b'\x01\x02\x03'),
        me('hci/le-subevent-zero', 0x00, b''),
        Pdu('hci/le-meta-no-subevent', hci_event(0x3E, b''), L),
    ]
    return out


def hci_data_corpus(handle: int, att_read: bytes) -> list[Pdu]:
    """ACL (every pb/bc permutation), SCO and ISO packets, plus non-packets."""
    out = []
    good = l2cap(0x0004, att_read)
    for pb in range(4):
        for bc in range(4):
            out.append(Pdu(f'acl/pb{pb}-bc{bc}/att-read', hci_acl(handle, pb, bc, good), ((3, 2, 'le'), (5, 2, 'le'))))
            out.append(Pdu(f'acl/pb{pb}-bc{bc}/unknown-handle', hci_acl(handle + 0x33, pb, bc, good), ((3, 2, 'le'), (5, 2, 'le'))))
            out.append(Pdu(f'acl/pb{pb}-bc{bc}/first-half', hci_acl(handle, pb, bc, good[:5]), ((3, 2, 'le'), (5, 2, 'le'))))
            out.append(Pdu(f'acl/pb{pb}-bc{bc}/one-byte', hci_acl(handle, pb, bc, b'\x03'), ((3, 2, 'le'),)))
            out.append(Pdu(f'acl/pb{pb}-bc{bc}/empty', hci_acl(handle, pb, bc, b''), ((3, 2, 'le'),)))
            out.append(Pdu(f'acl/pb{pb}-bc{bc}/l2cap-len-huge', hci_acl(handle, pb, bc, l2cap(4, att_read, declared=0xFFFF)),
                           ((3, 2, 'le'), (5, 2, 'le'))))
            out.append(Pdu(f'acl/pb{pb}-bc{bc}/l2cap-len-short', hci_acl(handle, pb, bc, l2cap(4, att_read, declared=1)),
                           ((3, 2, 'le'), (5, 2, 'le'))))
            out.append(Pdu(f'acl/pb{pb}-bc{bc}/cid-zero', hci_acl(handle, pb, bc, l2cap(0, b'zz')), ((3, 2, 'le'), (5, 2, 'le'))))
            out.append(Pdu(f'acl/pb{pb}-bc{bc}/cid-unknown-dynamic', hci_acl(handle, pb, bc, l2cap(0x0099, b'zz')), ((3, 2, 'le'), (5, 2, 'le'))))
            out.append(Pdu(f'acl/pb{pb}-bc{bc}/declared-longer', hci_acl(handle, pb, bc, good, declared=len(good) + 9), ((3, 2, 'le'),)))
    for st in range(4):
        out.append(Pdu(f'sco/status{st}', hci_sco(handle, st, bytes(30)), ((3, 1, 'le'),)))
        out.append(Pdu(f'sco/status{st}/unknown-handle', hci_sco(handle + 0x100, st, bytes(48)), ((3, 1, 'le'),)))
        out.append(Pdu(f'sco/status{st}/empty', hci_sco(handle, st, b''), ((3, 1, 'le'),)))
    for pb in range(4):
        for ts in range(2):
            hdr = (struct.pack('<I', 1000) if ts else b'') + u16(7) + u16(4)
            body = hdr + b'isoz' if pb in (0, 2) else b'isoz'
            out.append(Pdu(f'iso/pb{pb}-ts{ts}', hci_iso(handle + 0x40, pb, ts, body), ((3, 2, 'le'),)))
            out.append(Pdu(f'iso/pb{pb}-ts{ts}/live-acl-handle', hci_iso(handle, pb, ts, body), ((3, 2, 'le'),)))
            out.append(Pdu(f'iso/pb{pb}-ts{ts}/short-header', hci_iso(handle + 0x40, pb, ts, body[:3]), ((3, 2, 'le'),)))
            out.append(Pdu(f'iso/pb{pb}-ts{ts}/sdu-len-huge', hci_iso(handle + 0x40, pb, ts, (struct.pack('<I', 1) if ts else b'') + u16(1) + u16(0x0FFF) + b'x'),
                           ((3, 2, 'le'),)))
    out += [
        Pdu('h4/command-from-controller', b'\x01' + u16(0x0C03) + b'\x00', ((3, 1, 'le'),)),
        Pdu('h4/type-zero', b'\x00\x01\x02'),
        Pdu('h4/type-6', b'\x06\x01\x02\x03'),
        Pdu('h4/type-ff', b'\xFF' * 8),
        Pdu('h4/only-type-event', b'\x04'),
        Pdu('h4/only-type-acl', b'\x02'),
        Pdu('h4/empty', b''),
    ]
    return out


# =============================================================================
# SDP responses as an SDP *client* sees them (Core Vol 3 Part B 4.4-4.7)
# =============================================================================
SDP_TID_PLACEHOLDER = b'\x5A\x5A'      # replaced by the transaction ID of the outstanding request when sent
SDP_TID_PLACEHOLDER_SPLIT = b'\x5A\x5B'    # same, and the AttributeList(s) are served over several continuation responses


def sdp_record_attribute_list(handle: int) -> bytes:
    """AttributeList of one record: {0x0000: uint32 handle, 0x0001: SEQ{UUID 0x1101}}."""
    return de_seq(de_uint16(0x0000) + de_uint32(handle) + de_uint16(0x0001) + de_seq(de_uuid16(0x1101)))


def sdp_search_rsp(tid: bytes, handles, cont=b'\x00') -> bytes:
    body = be16(len(handles)) + be16(len(handles)) + b''.join(struct.pack('>I', h) for h in handles) + cont
    return b'\x03' + tid + be16(len(body)) + body


def sdp_attribute_rsp(tid: bytes, attribute_list: bytes, cont=b'\x00') -> bytes:
    body = be16(len(attribute_list)) + attribute_list + cont
    return b'\x05' + tid + be16(len(body)) + body


def sdp_search_attribute_rsp(tid: bytes, attribute_lists: bytes, cont=b'\x00') -> bytes:
    body = be16(len(attribute_lists)) + attribute_lists + cont
    return b'\x07' + tid + be16(len(body)) + body


def sdp_client_corpus(handle: int) -> list[Pdu]:
    T = SDP_TID_PLACEHOLDER
    one = sdp_record_attribute_list(handle)
    plen, blen = (3, 2, 'be'), (5, 2, 'be')
    return [
        Pdu('sdpc/error-rsp', b'\x01' + T + be16(2) + be16(3), (plen,)),
        Pdu('sdpc/error-rsp-bad-code', b'\x01' + T + be16(2) + be16(0x7777), (plen,)),
        Pdu('sdpc/search-rsp', sdp_search_rsp(T, [handle]), (plen, (5, 2, 'be'), (7, 2, 'be'))),
        Pdu('sdpc/search-rsp-none', sdp_search_rsp(T, []), (plen, (5, 2, 'be'), (7, 2, 'be'))),
        Pdu('sdpc/search-rsp-cont', sdp_search_rsp(T, [handle, handle + 1], cont=b'\x02\x01\x00'), (plen, (7, 2, 'be'), (17, 1, 'be'))),
        Pdu('sdpc/attribute-rsp', sdp_attribute_rsp(T, one), (plen, blen, (8, 1, 'be'))),
        Pdu('sdpc/attribute-rsp-empty-list', sdp_attribute_rsp(T, de_seq(b'')), (plen, blen)),
        Pdu('sdpc/attribute-rsp-zero-bytes', sdp_attribute_rsp(T, b''), (plen, blen)),
        Pdu('sdpc/attribute-rsp-cont', sdp_attribute_rsp(T, one[:7], cont=b'\x02\x01\x00'), (plen, blen)),
        Pdu('sdpc/attribute-rsp-odd-count', sdp_attribute_rsp(T, de_seq(de_uint16(0) + de_uint32(handle) + de_uint16(1))), (plen, blen)),
        Pdu('sdpc/attribute-rsp-id-not-int', sdp_attribute_rsp(T, de_seq(b'\x25\x02id' + de_uint32(handle))), (plen, blen)),
        Pdu('sdpc/attribute-rsp-not-seq', sdp_attribute_rsp(T, de_uint32(handle)), (plen, blen)),
        Pdu('sdpc/search-attribute-rsp', sdp_search_attribute_rsp(T, de_seq(one)), (plen, blen, (8, 1, 'be'), (10, 1, 'be'))),
        Pdu('sdpc/search-attribute-rsp-two', sdp_search_attribute_rsp(T, de_seq(one + one)), (plen, blen, (8, 1, 'be'))),
        Pdu('sdpc/search-attribute-rsp-none', sdp_search_attribute_rsp(T, de_seq(b'')), (plen, blen)),
        Pdu('sdpc/search-attribute-rsp-zero-bytes', sdp_search_attribute_rsp(T, b''), (plen, blen)),
        Pdu('sdpc/search-attribute-rsp-cont', sdp_search_attribute_rsp(T, de_seq(one)[:9], cont=b'\x02\x01\x00'), (plen, blen)),
        Pdu('sdpc/search-attribute-rsp-cont-16', sdp_search_attribute_rsp(T, de_seq(one)[:3], cont=b'\x10' + bytes(16)), (plen, blen)),
        Pdu('sdpc/search-attribute-rsp-cont-17', sdp_search_attribute_rsp(T, de_seq(one)[:3], cont=b'\x11' + bytes(17)), (plen, blen)),
        Pdu('sdpc/search-attribute-rsp-inner-not-seq', sdp_search_attribute_rsp(T, de_seq(de_uint16(0) + de_uint32(handle))), (plen, blen)),
        Pdu('sdpc/search-attribute-rsp-alt', sdp_search_attribute_rsp(T, de_hdr(7, len(one)) + one), (plen, blen)),
        Pdu('sdpc/search-attribute-rsp-url-bad-utf8', sdp_search_attribute_rsp(T, de_seq(de_seq(de_uint16(9) + b'\x45\x03\xff\xfe\xc3'))), (plen, blen)),
        Pdu('sdpc/search-attribute-rsp-size-index-7', sdp_search_attribute_rsp(T, b'\x37\xff\xff\xff\xff' + one), (plen, blen)),
        Pdu('sdpc/request-as-response', b'\x06' + T + be16(13) + de_seq(de_uuid16(0x1101)) + be16(100) + de_seq(de_uint32(0xFFFF)) + b'\x00', (plen,)),
        Pdu('sdpc/wrong-tid', sdp_search_attribute_rsp(b'\x13\x37', de_seq(one)), (plen, blen)),
        Pdu('sdpc/unknown-pdu', b'\x09' + T + be16(1) + b'\x00', (plen,)),
        Pdu('sdpc/header-only', b'\x07' + T),
    ]


def sdp_deep_responses(max_bytes: int, specs=None):
    """[(class, name, response bytes)]: deep nesting inside the AttributeList(s) of a response (the driver sets
    the PDU ID to the one the outstanding request expects). 'deep-nesting-split' ones are served over several
    continuation responses."""
    out = []
    T = SDP_TID_PLACEHOLDER
    n = 0
    for name, nest, i in sdp_shaped_nests(max_bytes, specs):
        n = i
        klass = 'deep-nesting-siblings' if n % 4 else 'deep-nesting-split'
        out.append((klass, f'sdpc/nest-{name}', sdp_search_attribute_rsp(T if n % 4 else SDP_TID_PLACEHOLDER_SPLIT, nest)))
    if specs is not None:
        return out
    for depth in (31, 32, 33, 64, 400, 1000, 2000):
        for idx, honest in ((6, True), (6, False), (7, True), (5, False)):
            for kind in ('seq', 'alt', 'mixed'):
                nest = sdp_nested(depth, idx, honest, kind=kind)
                if len(nest) + 24 > max_bytes:
                    continue
                n += 1
                out.append(('deep-nesting' if n % 4 else 'deep-nesting-split',
                            f'sdpc/nest-{kind}-{depth}-idx{idx}-{"honest" if honest else "lying"}',
                            sdp_search_attribute_rsp(T if n % 4 else SDP_TID_PLACEHOLDER_SPLIT, nest)))
    return out


# =============================================================================
# HCI command flow control (Core Vol 4 Part E 4.4, 7.7.14, 7.7.15)
# =============================================================================
def hci_nop_command_complete(num: int) -> bytes:
    """Command Complete for opcode 0x0000: carries only Num_HCI_Command_Packets."""
    return hci_event(0x0E, bytes([num & 0xFF]) + u16(0))


def hci_nop_command_status(num: int) -> bytes:
    """Command Status with Status 0x00 and opcode 0x0000: carries only Num_HCI_Command_Packets."""
    return hci_event(0x0F, bytes([0x00, num & 0xFF]) + u16(0))


def hci_set_num_command_packets(packet: bytes, num: int) -> bytes | None:
    """The same Command Complete / Command Status event with another Num_HCI_Command_Packets; None for other packets."""
    if len(packet) >= 6 and packet[0] == 0x04 and packet[1] == 0x0E:
        return packet[:3] + bytes([num]) + packet[4:]
    if len(packet) >= 7 and packet[0] == 0x04 and packet[1] == 0x0F:
        return packet[:4] + bytes([num]) + packet[5:]
    return None


# events a controller may send at any time and that have no bearing on command flow control
def hci_neutral_events(handle: int) -> list[bytes]:
    return [
        hci_event(0xFF, b'\x55\x01\x02\x03'),                       # vendor specific
        hci_event(0x1B, u16(handle) + b'\x05'),                     # Max Slots Change
        hci_event(0x13, b'\x01' + u16(handle) + u16(0)),            # Number Of Completed Packets: 0 for the live handle
        le_meta(0x7C, b'\x01\x02\x03'),                             # LE meta event with an unknown subevent
        hci_event(0x38, u16(handle) + u16(0x2000)),                 # Link Supervision Timeout Changed
    ]


# =============================================================================
# L2CAP configuration options (Core Vol 3 Part A 5) for refusal dialogues
# =============================================================================
def conf_refusable_options() -> list[tuple[str, str, bytes]]:
    """(class, name, option bytes) of options a responder may legitimately refuse or ignore.
    class: unknown-option (type bit 7 clear: must be refused when not understood), hint-option (bit 7 set:
    must be skipped when not understood), unimplemented-option (defined by the specification, optional)."""
    out = [
        ('unimplemented-option', 'flush-timeout', conf_opt(0x02, u16(0xFFFF))),
        ('unimplemented-option', 'flush-timeout-100', conf_opt(0x02, u16(100))),
        ('unimplemented-option', 'qos-best-effort', conf_opt(0x03, bytes([0, 1]) + b'\x00\x00\x00\x00' + b'\x00\x00\x00\x00' +
                                                             b'\x00\x00\x00\x00' + b'\xff\xff\xff\xff' + b'\xff\xff\xff\xff')),
        ('unimplemented-option', 'qos-guaranteed', conf_opt(0x03, bytes([0, 2]) + struct.pack('<IIIII', 1000, 100, 2000, 10000, 5000))),
        ('unimplemented-option', 'extended-flow-spec', conf_opt(0x06, bytes([1, 1]) + u16(672) + struct.pack('<III', 0xFFFFFFFF, 0xFFFFFFFF, 0xFFFFFFFF))),
        ('unimplemented-option', 'extended-window-size', conf_opt(0x07, u16(63))),
    ]
    for t in (0x00, 0x08, 0x09, 0x10, 0x3F, 0x55, 0x7E, 0x7F):
        for v in (b'', b'\x01', b'\x01\x02', bytes(16)):
            out.append(('unknown-option', f'type-{t:#04x}-len{len(v)}', conf_opt(t, v)))
    for t in (0x80, 0x82, 0x83, 0x86, 0x87, 0x88, 0x90, 0xD5, 0xFE, 0xFF):
        for v in (b'', b'\x01\x02', bytes(22)):
            out.append(('hint-option', f'type-{t:#04x}-len{len(v)}', conf_opt(t, v)))
    return out


# =============================================================================
# Stateful surfaces (C17 'ertm-state', 'rfcomm-open', 'avdtp-state'): hostile-but-parseable frames whose
# state fields are set relative to the TRUE protocol state, and the reference models that say what a
# correct entity on the other side must still be able to do afterwards.
# =============================================================================

# ---- ERTM sequence state (Core Vol 3 Part A 3.3.2 enhanced control field, 8.6.5 state tables) ----------------
ERTM_S_NAMES = ('rr', 'rej', 'rnr', 'srej')


def ertm_parse(pdu: bytes):
    """Enhanced control field + payload of one ERTM PDU (no FCS), or None when shorter than a control field."""
    if len(pdu) < 2:
        return None
    c = pdu[0] | (pdu[1] << 8)
    if c & 1:
        return {'t': 's', 's': (c >> 2) & 3, 'p': (c >> 4) & 1, 'f': (c >> 7) & 1, 'req': (c >> 8) & 0x3F,
                'rsv': c & 0xC062, 'payload': pdu[2:]}
    return {'t': 'i', 'tx': (c >> 1) & 0x3F, 'f': (c >> 7) & 1, 'req': (c >> 8) & 0x3F, 'sar': (c >> 14) & 3,
            'payload': pdu[2:]}


class ErtmSeqModel:
    """Sequence variables of the hand-written ERTM peer, and what its frames mean to a correct receiver.

    my_tx        TxSeq of the peer's next new I-frame (= the victim's ExpectedTxSeq)
    rx_expected  TxSeq of the victim's next new I-frame (everything below was received in order)
    acked        the highest ReqSeq the peer validly sent (= the victim's ExpectedAckSeq)
    A ReqSeq is valid iff acked <= ReqSeq <= rx_expected (mod 64): it acknowledges only frames that were sent
    (8.6.5.? 'ReqSeq sequence error': anything else acknowledges frames never sent; the receiver closes the channel
    or ignores the acknowledgment - in both cases its own sequence variables must stay those of the true history)."""

    def __init__(self, victim_window: int, victim_mps: int = 256):
        self.W = victim_window
        self.mps = victim_mps
        self.my_tx = 0
        self.rx_expected = 0
        self.acked = 0
        self.victim_req = 0          # last ReqSeq received from the victim
        self.undefined = None        # why the rest of this channel's life is not judged (SAR sequence of hostile frames)
        self.hostile_sdus = 0        # complete SDUs hostile in-sequence I-frames delivered
        self.doubtful = 0            # in-sequence I-frames with an invalid ReqSeq since the last poll (taken or dropped)

    def outstanding(self) -> int:
        return (self.rx_expected - self.acked) % 64

    def req_valid(self, req: int) -> bool:
        return (req - self.acked) % 64 <= self.outstanding()

    def note_sent(self, pdu: bytes, own: bool = False) -> str:
        """Account for one PDU the peer sends; returns its class relative to the true state. own: a frame of the
        well-formed traffic (its segmentation is correct by construction)."""
        f = ertm_parse(pdu)
        if f is None:
            return 'shorter-than-control-field'
        valid = self.req_valid(f['req'])
        ahead = (f['req'] - self.rx_expected) % 64
        if valid:
            self.acked = f['req']
            rk = 'reqseq-valid'
        elif ahead == self.W:
            rk = 'reqseq-one-window-ahead'
        elif ahead < self.W:
            rk = 'reqseq-ahead-within-window'
        else:
            rk = 'reqseq-invalid-other'
        if f['t'] == 's':
            return f"s-{ERTM_S_NAMES[f['s']]}/{rk}"
        if f['tx'] != self.my_tx:
            return f'i-out-of-sequence/{rk}'
        self.my_tx = (self.my_tx + 1) % 64
        if own:
            pass
        elif f['sar'] != 0:
            self.undefined = 'hostile in-sequence I-frame with a SAR field other than unsegmented'
        elif len(f['payload']) > self.mps:
            self.undefined = 'hostile in-sequence I-frame larger than the MPS'
        elif not valid:
            # (a receiver may take the data of a frame whose acknowledgment it refuses, or drop the frame: the
            # peer learns which from the answer to its next poll)
            self.doubtful += 1
        else:
            self.hostile_sdus += 1
        return f'i-in-sequence/{rk}'


ERTM_KIND_S, ERTM_KIND_I, ERTM_KIND_PRIME, ERTM_KIND_RAW = 0, 1, 2, 3


def ertm_script(kind, s=0, req_off=0, tx_off=0, p=0, f=0, rsv=0) -> bytes:
    """A hostile ERTM frame described relative to the true sequence state at the moment it is sent:
    ReqSeq = victim's NextTxSeq + req_off, TxSeq = victim's ExpectedTxSeq + tx_off (mod 64)."""
    return bytes([kind, s, req_off & 0x3F, tx_off & 0x3F, p, f, rsv])


def ertm_script_name(sc: bytes) -> str:
    kind, s, req_off, tx_off, p, f, rsv = sc[:7]
    if kind == ERTM_KIND_PRIME:
        return 'valid SDU, echo left unacknowledged'
    if kind == ERTM_KIND_S:
        return (f"{ERTM_S_NAMES[s].upper()} ReqSeq=NextTxSeq+{req_off}{' P' if p else ''}{' F' if f else ''}"
                f"{' reserved-bits' if rsv else ''}")
    return f"I-frame TxSeq=ExpectedTxSeq+{tx_off} ReqSeq=NextTxSeq+{req_off}{' F' if f else ''}"


def ertm_script_bytes(sc: bytes, model: ErtmSeqModel, payload: bytes) -> bytes:
    kind, s, req_off, tx_off, p, f, rsv = sc[:7]
    if kind == ERTM_KIND_PRIME:
        return ertm_i(model.my_tx, model.acked) + payload
    req = (model.rx_expected + req_off) % 64
    if kind == ERTM_KIND_S:
        b = bytearray(ertm_s(s, req, p=p, f=f))
        if rsv:
            b[0] |= 0x60 if rsv & 1 else 0
            b[1] |= 0x40 if rsv & 2 else 0
        return bytes(b)
    return ertm_i((model.my_tx + tx_off) % 64, req, f=f) + payload


def ertm_label(sc: bytes, window: int, primed: int) -> str:
    """Mechanism class of a scripted frame, known from the script, the window and the number of unacknowledged
    frames the round left outstanding (stable across seeds; used in keys)."""
    kind, s, req_off, tx_off, p, f, rsv = sc[:7]
    if kind == ERTM_KIND_PRIME:
        return 'valid'
    t = ERTM_S_NAMES[s] if kind == ERTM_KIND_S else 'iframe'
    if req_off == 0:
        rk = 'reqseq-current'
    elif 64 - req_off <= min(primed, window):
        rk = 'reqseq-partial-ack'
    elif req_off == window:
        rk = 'reqseq-one-window-ahead'
    elif req_off < window:
        rk = 'reqseq-ahead-within-window'
    else:
        rk = 'reqseq-ahead-beyond-window'
    if kind == ERTM_KIND_I and tx_off and req_off == 0:
        rk = 'txseq-ahead' if tx_off < 32 else 'txseq-behind'
    if rsv:
        rk += '+reserved-bits'
    return f'{t}-{rk}'


def ertm_enum_scripts():
    """Every ReqSeq offset 0..63 x frame type (RR, RNR, REJ, SREJ, I) x {plain, P/F variant}; every TxSeq offset."""
    out = []
    for s in range(4):
        for off in range(64):
            out.append(ertm_script(ERTM_KIND_S, s=s, req_off=off))
            pf = (off + s) % 3
            out.append(ertm_script(ERTM_KIND_S, s=s, req_off=off, p=int(pf == 0), f=int(pf == 1), rsv=(off % 4 if pf == 2 else 0)))
    for off in range(64):
        out.append(ertm_script(ERTM_KIND_I, req_off=off))
        out.append(ertm_script(ERTM_KIND_I, req_off=off, f=1, tx_off=(0, 1, 63, 32)[off % 4]))
    for off in range(1, 64):
        out.append(ertm_script(ERTM_KIND_I, tx_off=off))
    return out


# ---- RFCOMM: what a hand-written responder does at each step of the victim's open_dlc() ------------------------
# (RFCOMM 1.2 / TS 07.10 5.2.1.2, 5.4.6.3.1: PN command/response, SABM answered UA or DM, MSC after the UA)
RFCOMM_PN_STEPS = ('accept', 'accept-small-frame', 'accept-no-credits', 'accept-other-dlci', 'accept-dlci-0', 'accept-twice', 'refuse-dm',
                   'silent', 'dm-other-dlci-then-accept', 'ua-then-accept', 'nsc-then-accept', 'pn-command-back-then-accept')
RFCOMM_SABM_STEPS = ('ua', 'dm', 'silent', 'dm-other-dlci-then-ua', 'ua-other-dlci-then-ua', 'ua-twice', 'dm-dlci0',
                     'disc', 'ua-wrong-cr')
RFCOMM_MSC_STEPS = ('command-and-response', 'none', 'response-only', 'command-before-ua', 'other-dlci', 'with-break',
                    'flow-off-then-on', 'rls-rpn')


def rfcomm_open_script(pn: str, sabm: str, msc: str) -> bytes:
    return bytes([RFCOMM_PN_STEPS.index(pn), RFCOMM_SABM_STEPS.index(sabm), RFCOMM_MSC_STEPS.index(msc)])


def rfcomm_open_script_name(sc: bytes) -> str:
    return f'PN:{RFCOMM_PN_STEPS[sc[0]]}/SABM:{RFCOMM_SABM_STEPS[sc[1]]}/MSC:{RFCOMM_MSC_STEPS[sc[2]]}'


def rfcomm_open_label(sc: bytes) -> str:
    """Mechanism class: the step that decides - the answer to the SABM when there is an SABM and it is not a plain UA,
    else the answer to the PN when it is not a plain acceptance, else the MSC variant (the whole script is in the detail)."""
    pn, sabm, msc = RFCOMM_PN_STEPS[sc[0]], RFCOMM_SABM_STEPS[sc[1]], RFCOMM_MSC_STEPS[sc[2]]
    if pn in ('refuse-dm', 'silent', 'accept-dlci-0'):
        return f'pn-{pn}'
    if sabm != 'ua':
        return f'sabm-{sabm}'
    if pn != 'accept':
        return f'pn-{pn}'
    return f'msc-{msc}' if msc != 'command-and-response' else 'plain-open'


def rfcomm_open_enum_scripts():
    out = []
    for pn in RFCOMM_PN_STEPS:
        for sabm in RFCOMM_SABM_STEPS:
            if pn in ('refuse-dm', 'silent', 'accept-dlci-0') and sabm != 'ua':
                continue        # (no SABM for a DLC follows)
            out.append(rfcomm_open_script(pn, sabm, 'command-and-response'))
    for msc in RFCOMM_MSC_STEPS[1:]:
        out.append(rfcomm_open_script('accept', 'ua', msc))
        out.append(rfcomm_open_script('accept-no-credits', 'ua', msc))
    return out


# ---- AVDTP acceptor: boundary SEIDs and the stream state machine (AVDTP 1.3 6.x, 8.x) --------------------------
AVDTP_SIGNAL_NAMES = {1: 'discover', 2: 'get_capabilities', 3: 'set_configuration', 4: 'get_configuration',
                      5: 'reconfigure', 6: 'open', 7: 'start', 8: 'close', 9: 'suspend', 10: 'abort',
                      11: 'security_control', 12: 'get_all_capabilities', 13: 'delayreport'}
AVDTP_SBC_CODEC = bytes([7, 6, 0x00, 0x00, 0x21, 0x15, 2, 53])      # audio / SBC / 44.1 kHz joint stereo, 16 blocks, 8 subbands, loudness, bitpool 2..53
AVDTP_SBC_CONFIG = bytes([1, 0]) + AVDTP_SBC_CODEC                  # media transport + media codec
AVDTP_BAD_ACP_SEID, AVDTP_SEP_IN_USE, AVDTP_BAD_STATE = 0x12, 0x13, 0x31


def avdtp_seid_cmd(label: int, signal: int, acp_seid: int, int_seid: int = 1, rfa: int = 0, more_seids=()) -> bytes:
    """A complete, well-formed AVDTP command of `signal` addressed to `acp_seid` (6 bits, the 2 low bits of the
    octet are RFA and set to `rfa`)."""
    s = bytes([((acp_seid & 0x3F) << 2) | (rfa & 3)])
    if signal == 3:
        body = s + bytes([(int_seid & 0x3F) << 2]) + AVDTP_SBC_CONFIG
    elif signal == 5:
        body = s + AVDTP_SBC_CODEC
    elif signal in (7, 9):
        body = s + bytes((x & 0x3F) << 2 for x in more_seids)
    elif signal == 11:
        body = s + b'\x01\x02'
    elif signal == 13:
        body = s + be16(150)
    else:
        body = s
    return avdtp_single(label, 0, signal, body)


def avdtp_parse(pdu: bytes):
    """(label, packet type, message type, signal, payload) of a single-packet AVDTP message, else None."""
    if len(pdu) < 2 or (pdu[0] >> 2) & 3 != 0:
        return None
    return pdu[0] >> 4, 0, pdu[0] & 3, pdu[1] & 0x3F, pdu[2:]


# state after an ACCEPTED command, per stream end-point (6.5 state machine; the transport channel is what the
# initiator opens after Open and releases after Close/Abort)
AVDTP_ON_ACCEPT = {
    ('idle', 3): 'configured',
    ('configured', 6): 'open',
    ('open', 7): 'streaming',
    ('streaming', 9): 'open',
    ('open', 8): 'closing', ('streaming', 8): 'closing',
    ('open', 5): 'open',
}


def avdtp_boundary_seids(last: int):
    """(label, seid, valid) for the boundary values of a 6-bit SEID given `last` local end-points."""
    return [('seid-0', 0, False), ('seid-first', 1, True), ('seid-last', last, True), ('seid-last+1', last + 1, False),
            ('seid-0x3e', 0x3E, False), ('seid-0x3f', 0x3F, False)]
