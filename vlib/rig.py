"""The rig: N x (Controller + Host + Device) on one LocalLink, with HCI taps,
order-preserving delay pipes and per-controller link inboxes attached from the
outside (no repository edit).
"""
from __future__ import annotations

import asyncio
import collections
import hashlib
import random
import struct

from bumble import hci
from bumble.controller import Controller
from bumble.core import PhysicalTransport
from bumble.device import Device, DeviceConfiguration
from bumble.host import Host
from bumble.link import LocalLink

from . import vloop

H2C = 'h2c'
C2H = 'c2h'


# -----------------------------------------------------------------------------
class DelayFifo:
    """Order-preserving FIFO; each item is released after a seeded number of loop
    turns. While non-empty, a ticker is always in the ready queue, so virtual time
    never advances while a message is in flight."""

    def __init__(self, rig: 'Rig', name: str, max_delay: int):
        self.rig = rig
        self.name = name
        self.max_delay = max_delay
        self.queue: collections.deque = collections.deque()
        self.ticking = False
        self.delivered = 0
        self.paused = False

    def push(self, fn, *args):
        delay = self.rig.rng.randint(0, self.max_delay) if self.max_delay else 0
        self.queue.append([delay, fn, args])
        self.rig.in_flight += 1
        if not self.ticking:
            self.ticking = True
            self.rig.loop.call_soon(self._tick)

    def _tick(self):
        if not self.queue:
            self.ticking = False
            return
        head = self.queue[0]
        if head[0] > 0 or self.paused:
            head[0] -= 1
            self.rig.loop.call_soon(self._tick)
            return
        self.queue.popleft()
        self.rig.in_flight -= 1
        self.delivered += 1
        self.rig.note_delivery(self.name)
        if self.queue:
            self.rig.loop.call_soon(self._tick)
        else:
            self.ticking = False
        head[1](*head[2])


class TapPipe:
    """TransportSink that logs (seq, dev, dir, bytes, vtime) and forwards through a
    DelayFifo. `filters` may drop or rewrite a packet: fn(bytes) -> bytes|None."""

    def __init__(self, rig: 'Rig', dev: int, direction: str, target, max_delay: int):
        self.rig = rig
        self.dev = dev
        self.direction = direction
        self.target = target
        self.fifo = DelayFifo(rig, f'{direction}{dev}', max_delay)
        self.filters: list = []
        self.cut = False  # when True, packets are dropped (transport gone)

    def on_packet(self, packet: bytes) -> None:
        packet = bytes(packet)
        if self.cut:
            self.rig.dropped += 1
            return
        for f in self.filters:
            packet = f(packet)
            if packet is None:
                return
        self.rig.log_hci(self.dev, self.direction, packet)
        if self.direction == H2C:
            self.rig.boundary_log.append(
                (len(self.rig.boundary_log), self.dev, H2C, packet, self.rig.loop.time()))
        self.fifo.push(self._deliver, packet)

    def _deliver(self, packet: bytes) -> None:
        if self.cut:
            self.rig.dropped += 1
            return
        if self.direction == C2H:
            self.rig.boundary_log.append(
                (len(self.rig.boundary_log), self.dev, C2H, packet, self.rig.loop.time()))
        for fn in self.rig.on_hci_delivery:
            fn(self.dev, self.direction, packet)
        try:
            self.target.on_packet(packet)
        except Exception as e:  # exceptions out of on_packet are an observable event
            self.rig.note_exception(f'{self.direction}{self.dev}', e)


# -----------------------------------------------------------------------------
class Rig:
    def __init__(
        self,
        n: int = 2,
        seed: int = 0,
        max_delay: int = 0,
        link_delay: int | None = None,
        classic: bool = False,
        le: bool = True,
        acl_len: int | list[int] | None = None,
        acl_num: int | list[int] | None = None,
        le_acl_len: int | list[int] | None = None,
        le_acl_num: int | list[int] | None = None,
        configs: list[DeviceConfiguration | None] | None = None,
        address_types: list[str] | None = None,
        collide_addresses: bool = False,
    ):
        self.loop = asyncio.get_running_loop()
        self.rng = random.Random(seed)
        self.n = n
        self.in_flight = 0
        self.dropped = 0
        self.hci_log: list[tuple] = []
        # host-boundary view: h2c packets at emission, c2h packets at delivery, i.e.
        # exactly the order in which each host sent and saw things
        self.boundary_log: list[tuple] = []
        self.deliveries: list[str] = []
        self._sig = hashlib.sha1()
        self.exceptions: list[tuple[str, str]] = []
        self.on_hci_delivery: list = []
        self.on_hci_logged: list = []
        self.link = LocalLink()
        # public (controller) addresses and distinct random static addresses
        self.addresses = [
            ':'.join([f'{0x10 + i:02X}'] * 5 + [f'{0xA0 + i:02X}']) for i in range(n)
        ]
        self.random_addresses = [
            ':'.join([f'{0xE0 + i:02X}'] * 6) for i in range(n)
        ]
        if collide_addresses:
            # device k's PUBLIC address has the same six bytes as device k+1's RANDOM
            # address: anything that compares addresses without their type confuses them
            self.addresses = [self.random_addresses[(i + 1) % n] for i in range(n)]
        self.controllers: list[Controller] = []
        self.hosts: list[Host] = []
        self.devices: list[Device] = []
        self.h2c: list[TapPipe] = []
        self.c2h: list[TapPipe] = []
        self.inboxes: list[DelayFifo] = []
        link_delay = max_delay if link_delay is None else link_delay

        def pick(v, i, default):
            if v is None:
                return default
            if isinstance(v, (list, tuple)):
                return v[i]
            return v

        for i in range(n):
            c = Controller(f'C{i}', link=self.link, public_address=self.addresses[i])
            c.acl_data_packet_length = pick(acl_len, i, c.acl_data_packet_length)
            c.total_num_acl_data_packets = pick(acl_num, i, c.total_num_acl_data_packets)
            c.le_acl_data_packet_length = pick(le_acl_len, i, c.le_acl_data_packet_length)
            c.total_num_le_acl_data_packets = pick(
                le_acl_num, i, c.total_num_le_acl_data_packets
            )
            host = Host()
            h2c = TapPipe(self, i, H2C, c, max_delay)
            c2h = TapPipe(self, i, C2H, host, max_delay)
            host.set_packet_sink(h2c)
            c.set_packet_sink(c2h)
            cfg = configs[i] if configs and configs[i] is not None else DeviceConfiguration()
            if not (configs and configs[i] is not None):
                cfg.address = hci.Address(
                    self.random_addresses[i], hci.Address.RANDOM_DEVICE_ADDRESS
                )
                cfg.name = f'dev{i}'
            cfg.classic_enabled = cfg.classic_enabled or classic
            cfg.le_enabled = le
            d = Device(config=cfg, host=host)
            self.controllers.append(c)
            self.hosts.append(host)
            self.devices.append(d)
            self.h2c.append(h2c)
            self.c2h.append(c2h)
            self._wrap_inbox(i, c, link_delay)

    # -- link inboxes ----------------------------------------------------------
    def _wrap_inbox(self, i: int, c: Controller, delay: int):
        inbox = DelayFifo(self, f'link{i}', delay)
        self.inboxes.append(inbox)
        for name in (
            'on_link_acl_data',
            'on_ll_advertising_pdu',
            'on_ll_control_pdu',
            'on_lmp_packet',
        ):
            real = getattr(c, name)

            def wrapper(*args, _real=real, _name=name, _i=i):
                def deliver():
                    try:
                        _real(*args)
                    except Exception as e:
                        self.note_exception(f'link{_i}.{_name}', e)

                inbox.push(deliver)

            setattr(c, name, wrapper)

    # -- logging ---------------------------------------------------------------
    def log_hci(self, dev: int, direction: str, packet: bytes):
        rec = (len(self.hci_log), dev, direction, packet, self.loop.time())
        self.hci_log.append(rec)
        for fn in self.on_hci_logged:
            fn(rec)

    def note_delivery(self, name: str):
        self._sig.update(name.encode())

    def note_exception(self, where: str, e: BaseException):
        self.exceptions.append((where, f'{type(e).__name__}: {e}'))

    @property
    def schedule_signature(self) -> str:
        return self._sig.hexdigest()[:16]

    # -- helpers ---------------------------------------------------------------
    def pipes_empty(self) -> bool:
        return self.in_flight == 0

    async def quiesce(self, extra_turns: int = 20, max_turns: int = 200000):
        """Run until all pipes are empty and `extra_turns` further idle turns
        passed. Does not advance virtual time unless nothing is ready."""
        idle = 0
        turns = 0
        while idle < extra_turns:
            await asyncio.sleep(0)
            turns += 1
            if self.in_flight == 0:
                idle += 1
            else:
                idle = 0
            if turns > max_turns:
                raise vloop.Hang('no quiescence: messages kept flowing')

    async def power_on(self):
        for d in self.devices:
            await vloop.vwait(d.power_on())

    async def connect_le(self, central: int, peripheral: int, own_address_type=None,
                         advertise: bool = True):
        """central connects to peripheral (which advertises). Returns (cc, pc)."""
        c, p = self.devices[central], self.devices[peripheral]
        fut = self.loop.create_future()

        def on_conn(conn):
            if not fut.done():
                fut.set_result(conn)

        p.once('connection', on_conn)
        if advertise:
            await vloop.vwait(p.start_advertising(auto_restart=False))
        target = p.random_address
        kwargs = {}
        if own_address_type is not None:
            kwargs['own_address_type'] = own_address_type
        cc = await vloop.vwait(c.connect(target, **kwargs))
        pc = await vloop.vwait(fut)
        return cc, pc

    async def connect_classic(self, initiator: int, acceptor: int):
        a, b = self.devices[initiator], self.devices[acceptor]
        fut = self.loop.create_future()

        def on_conn(conn):
            if not fut.done():
                fut.set_result(conn)

        b.once('connection', on_conn)
        ca = await vloop.vwait(
            a.connect(b.public_address, transport=PhysicalTransport.BR_EDR)
        )
        cb = await vloop.vwait(fut)
        return ca, cb

    def cut_transport(self, dev: int):
        """HCI transport to the controller is lost for host `dev`."""
        self.h2c[dev].cut = True
        self.c2h[dev].cut = True


# -----------------------------------------------------------------------------
class RawPeer:
    """Turns device `dev` of the rig into a scripted peer: L2CAP PDUs that reach its
    host are handed to the harness instead of bumble's upper layers, and the harness
    sends raw PDUs with whatever identifiers and orderings it likes. The device's
    HCI/controller/link machinery stays real."""

    def __init__(self, rig: Rig, dev: int):
        self.rig = rig
        self.dev = dev
        self.device = rig.devices[dev]
        self.inbox: list[tuple[int, int, bytes]] = []  # (handle, cid, payload)
        self.handlers: list = []
        self._cursor = 0
        self.event = asyncio.Event()
        mgr = self.device.l2cap_channel_manager

        def on_pdu(connection, cid, pdu):
            rec = (connection.handle, cid, bytes(pdu))
            self.inbox.append(rec)
            self.event.set()
            for h in self.handlers:
                h(*rec)

        mgr.on_pdu = on_pdu

    def send(self, handle: int, cid: int, payload: bytes):
        self.device.host.send_l2cap_pdu(handle, cid, payload)

    def take(self):
        """PDUs received since the last take()."""
        out = self.inbox[self._cursor:]
        self._cursor = len(self.inbox)
        return out

    async def wait_for(self, pred, t_v: float = 60.0):
        """Wait (virtual time) until a received-but-not-yet-taken PDU satisfies pred;
        returns it (and consumes everything up to it) or None on timeout."""
        async def _w():
            while True:
                for i in range(self._cursor, len(self.inbox)):
                    if pred(*self.inbox[i]):
                        self._cursor = i + 1
                        return self.inbox[i]
                self.event.clear()
                await self.event.wait()
        try:
            return await asyncio.wait_for(_w(), t_v)
        except asyncio.TimeoutError:
            return None


# -----------------------------------------------------------------------------
# Reference ACL reassembler over the HCI log (independent of bumble's)
# -----------------------------------------------------------------------------
def parse_acl(packet: bytes):
    """packet: H4 bytes starting with 0x02. Returns (handle, pb, bc, data)."""
    hf, ln = struct.unpack_from('<HH', packet, 1)
    return hf & 0xFFF, (hf >> 12) & 3, (hf >> 14) & 3, packet[5:5 + ln]


class RefReassembler:
    """Reassembles L2CAP PDUs per (dev, direction, handle) from tapped ACL packets.
    Yields (cid, payload) for complete PDUs."""

    def __init__(self):
        self.buf: dict = {}

    def feed(self, key, pb: int, data: bytes):
        out = []
        if pb in (0, 2):
            self.buf[key] = bytearray(data)
        elif pb == 1:
            if key not in self.buf:
                return out
            self.buf[key] += data
        else:
            return out
        b = self.buf[key]
        if len(b) >= 4:
            ln, cid = struct.unpack_from('<HH', b, 0)
            if len(b) >= ln + 4:
                out.append((cid, bytes(b[4:4 + ln])))
                del self.buf[key]
        return out


def l2cap_log(hci_log, dev: int | None = None, direction: str | None = None):
    """From the rig's HCI log, the ordered list of
    (seq, dev, direction, handle, cid, payload) L2CAP PDUs."""
    r = RefReassembler()
    out = []
    for seq, d, dr, pkt, _t in hci_log:
        if pkt[0] != 0x02:
            continue
        if dev is not None and d != dev:
            continue
        if direction is not None and dr != direction:
            continue
        handle, pb, _bc, data = parse_acl(pkt)
        for cid, payload in r.feed((d, dr, handle), pb, data):
            out.append((seq, d, dr, handle, cid, payload))
    return out


# -----------------------------------------------------------------------------
# Determinism: replace the process entropy sources used by bumble
# -----------------------------------------------------------------------------
def seed_entropy(seed: int):
    import secrets

    rng = random.Random(seed ^ 0x5EED)
    random.seed(seed)
    secrets.token_bytes = lambda n=32: bytes(rng.getrandbits(8) for _ in range(n))
    secrets.randbelow = lambda n: rng.randrange(n)
    secrets.randbits = lambda k: rng.getrandbits(k)
    secrets.choice = lambda seq: rng.choice(seq)
