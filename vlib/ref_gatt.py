"""Independent GATT reference for C12 (pure Python, imports nothing from bumble).

* a database model (services / includes / characteristics / descriptors) and the
  GATT layout rule that turns the order of definition into attribute handles
  (Core Vol 3 Part G 3.1-3.3: service declaration, include declarations,
  then per characteristic: declaration, value, descriptors; a service definition
  ends where the next service declaration starts; service definitions never nest);
* the expected value of every declaration attribute;
* a hand-written parser that turns the tapped L2CAP log into per-bearer ATT PDU
  streams (fixed channel CID 4 and enhanced bearers opened with SPSM 0x0027,
  K-frames reassembled into SDUs), with the ATT_MTU in force computed from the
  Exchange MTU PDUs / the credit-based connection request+response on the wire.
"""
from __future__ import annotations

import struct

# ----------------------------------------------------------------------------
# UUIDs (little-endian byte strings of 2, 4 or 16 bytes)
# ----------------------------------------------------------------------------
# 00000000-0000-1000-8000-00805F9B34FB, little-endian, without the first 4 bytes
_BASE_TAIL_LE = bytes([0xFB, 0x34, 0x9B, 0x5F, 0x80, 0x00, 0x00, 0x80, 0x00, 0x10, 0x00, 0x00])

T_PRIMARY = b'\x00\x28'
T_SECONDARY = b'\x01\x28'
T_INCLUDE = b'\x02\x28'
T_CHARACTERISTIC = b'\x03\x28'
T_CCCD = b'\x02\x29'

P_NOTIFY = 0x10
P_INDICATE = 0x20


def u128(u: bytes) -> bytes:
    """Canonical 128-bit (little-endian) form of a 16/32/128-bit UUID."""
    if len(u) == 2:
        return _BASE_TAIL_LE + u + b'\x00\x00'
    if len(u) == 4:
        return _BASE_TAIL_LE + u
    if len(u) == 16:
        return bytes(u)
    raise ValueError(f'bad uuid length {len(u)}')


def pdu_uuid(u: bytes) -> bytes:
    """How a UUID travels in an ATT PDU: 16-bit as is, 32-bit widened to 128-bit."""
    return bytes(u) if len(u) == 2 else u128(u)


def width(u: bytes) -> int:
    return len(u) * 8


# ----------------------------------------------------------------------------
# Database model
# ----------------------------------------------------------------------------
class Desc:
    def __init__(self, uuid: bytes, value: bytes):
        self.uuid = uuid
        self.value = bytes(value)
        self.handle = 0
        self.is_cccd = False


class Char:
    def __init__(self, uuid: bytes, props: int, value: bytes, dynamic: bool, descs: list[Desc]):
        self.uuid = uuid
        self.props = props
        self.value = bytes(value)
        self.dynamic = dynamic
        self.user_descs = descs
        self.descs: list[Desc] = []      # user descriptors + CCCD when subscribable
        self.decl_handle = 0
        self.handle = 0                  # value handle
        self.end = 0
        self.cccd: Desc | None = None


class Svc:
    def __init__(self, uuid: bytes, primary: bool, includes: list[int], chars: list[Char]):
        self.uuid = uuid
        self.primary = primary
        self.includes = includes         # indices into Db.services
        self.chars = chars
        self.handle = 0
        self.end = 0
        self.include_handles: list[int] = []
        self.placed = False


class Db:
    """`services` in creation order; `top` = indices handed to the server's
    add_service() in that order. A service included by a top-level service
    without having been added before is *unregistered*: it has to be laid out as a
    service definition of its own (before the including one), never inside it."""

    def __init__(self, services: list[Svc], top: list[int], first_handle: int = 1):
        self.services = services
        self.top = top
        self.first_handle = first_handle
        self.attrs: dict[int, tuple] = {}   # handle -> (type_le, kind, obj)
        self.order: list[int] = []          # service indices in handle order
        self.has_unregistered_include = False
        self._next = first_handle
        self._layout()

    def _take(self, type_le: bytes, kind: str, obj) -> int:
        h = self._next
        self._next += 1
        self.attrs[h] = (type_le, kind, obj)
        return h

    def _place(self, idx: int, top_level: bool):
        s = self.services[idx]
        if s.placed:
            return
        for inc in s.includes:
            if not self.services[inc].placed:
                self.has_unregistered_include = True
                self._place(inc, False)
        s.placed = True
        self.order.append(idx)
        s.handle = self._take(T_PRIMARY if s.primary else T_SECONDARY, 'service', s)
        s.include_handles = [self._take(T_INCLUDE, 'include', (s, inc)) for inc in s.includes]
        for c in s.chars:
            c.decl_handle = self._take(T_CHARACTERISTIC, 'chardecl', c)
            c.handle = self._take(c.uuid, 'value', c)
            c.descs = list(c.user_descs)
            for d in c.user_descs:
                d.handle = self._take(d.uuid, 'desc', d)
            if c.props & (P_NOTIFY | P_INDICATE):
                d = Desc(T_CCCD, b'\x00\x00')
                d.is_cccd = True
                d.handle = self._take(T_CCCD, 'cccd', d)
                c.descs.append(d)
                c.cccd = d
            c.end = self._next - 1
        s.end = self._next - 1

    def _layout(self):
        for idx in self.top:
            self._place(idx, True)

    # -- expected views -------------------------------------------------------
    @property
    def last_handle(self) -> int:
        return self._next - 1

    def expected_value(self, handle: int) -> bytes:
        type_le, kind, obj = self.attrs[handle]
        if kind == 'service':
            return pdu_uuid(obj.uuid)
        if kind == 'include':
            _s, inc = obj
            t = self.services[inc]
            v = struct.pack('<HH', t.handle, t.end)
            # Vol 3 Part G 3.2: the service UUID is present only when it is a 16-bit UUID
            return v + (t.uuid if len(t.uuid) == 2 else b'')
        if kind == 'chardecl':
            return bytes([obj.props & 0xFF]) + struct.pack('<H', obj.handle) + pdu_uuid(obj.uuid)
        return bytes(obj.value)

    def primaries(self):
        return [(s.handle, s.end, u128(s.uuid)) for s in
                sorted(self.services, key=lambda s: s.handle) if s.placed and s.primary]

    def all_attributes(self):
        return [(h, u128(self.attrs[h][0])) for h in sorted(self.attrs)]

    def includes_of(self, s: Svc):
        return [(self.services[i].handle, self.services[i].end, u128(self.services[i].uuid))
                for i in s.includes]

    def chars_of(self, s: Svc):
        return [(c.handle, c.end, u128(c.uuid), c.props & 0xFF) for c in s.chars]

    def descs_of(self, c: Char):
        return [(d.handle, u128(d.uuid)) for d in c.descs]

    def describe(self):
        out = []
        for idx in self.order:
            s = self.services[idx]
            out.append({
                'svc': f'{s.handle}-{s.end}', 'uuid_bits': width(s.uuid), 'primary': s.primary,
                'includes': [width(self.services[i].uuid) for i in s.includes],
                'chars': [{'vh': c.handle, 'bits': width(c.uuid), 'props': c.props, 'len': len(c.value),
                           'descs': [width(d.uuid) for d in c.descs]} for c in s.chars]})
        return out


# ----------------------------------------------------------------------------
# ATT on the wire
# ----------------------------------------------------------------------------
ATT_CID = 0x0004
LE_SIG = 0x0005
EATT_SPSM = 0x0027
CODE_ECOC_REQ = 0x17
CODE_ECOC_RSP = 0x18

OP_ERROR = 0x01
OP_MTU_REQ = 0x02
OP_MTU_RSP = 0x03
OP_FIND_INFO_REQ = 0x04
OP_FIND_INFO_RSP = 0x05
OP_FIND_BY_TYPE_REQ = 0x06
OP_FIND_BY_TYPE_RSP = 0x07
OP_READ_BY_TYPE_REQ = 0x08
OP_READ_BY_TYPE_RSP = 0x09
OP_READ_REQ = 0x0A
OP_READ_RSP = 0x0B
OP_READ_BLOB_REQ = 0x0C
OP_READ_BLOB_RSP = 0x0D
OP_READ_BY_GROUP_REQ = 0x10
OP_READ_BY_GROUP_RSP = 0x11
OP_WRITE_REQ = 0x12
OP_WRITE_RSP = 0x13
OP_WRITE_CMD = 0x52
OP_NOTIFY = 0x1B
OP_INDICATE = 0x1D
OP_CONFIRM = 0x1E

ERR_INVALID_HANDLE = 0x01
ERR_NOT_FOUND = 0x0A
ERR_UNLIKELY = 0x0E


def is_request(op: int) -> bool:
    """Client->server PDU that expects a response (not a command, not a confirmation)."""
    return op in (OP_MTU_REQ, OP_FIND_INFO_REQ, OP_FIND_BY_TYPE_REQ, OP_READ_BY_TYPE_REQ, OP_READ_REQ,
                  OP_READ_BLOB_REQ, 0x0E, OP_READ_BY_GROUP_REQ, OP_WRITE_REQ, 0x16, 0x18, 0x20)


class WireBearer:
    def __init__(self, kind: str, link, c_dev=None, c_cid=ATT_CID, s_dev=None, s_cid=ATT_CID, mtu=23):
        self.kind = kind            # 'fixed' | 'eatt'
        self.link = link            # canonical link id ((dev, handle), (dev, handle))
        self.c_dev = c_dev          # requester of the enhanced channel (None for fixed)
        self.c_cid = c_cid          # CID local to c_dev (frames *to* c_dev carry it)
        self.s_dev = s_dev
        self.s_cid = s_cid
        self.mtu = mtu              # ATT_MTU in force after the PDUs seen so far
        self.req_mtu = None
        self.rsp_mtu = None
        self.pdus: list[tuple[int, int, bytes, int]] = []   # (seq, sender_dev, pdu, mtu_in_force)
        self._pending_mtu = None

    def add(self, seq: int, sender: int, pdu: bytes):
        self.pdus.append((seq, sender, pdu, self.mtu))
        if self.kind == 'fixed' and pdu:
            if pdu[0] == OP_MTU_REQ and len(pdu) >= 3:
                self._pending_mtu = struct.unpack_from('<H', pdu, 1)[0]
                self.req_mtu = self._pending_mtu
            elif pdu[0] == OP_MTU_RSP and len(pdu) >= 3 and self._pending_mtu is not None:
                self.rsp_mtu = struct.unpack_from('<H', pdu, 1)[0]
                self.mtu = max(23, min(self._pending_mtu, self.rsp_mtu))
                self._pending_mtu = None


class AttWire:
    """Incremental parser: feed() it L2CAP PDUs `(seq, dev, dir, handle, cid, payload)`
    sent by any device (direction h2c only), it sorts them into bearers."""

    def __init__(self, links: dict):
        # links: {(dev, handle): (peer_dev, peer_handle)}
        self.links = dict(links)
        self.bearers: dict[tuple, WireBearer] = {}
        self._pending: dict[tuple, tuple] = {}      # (link, ident) -> (c_dev, mtu, scids)
        self._chan: dict[tuple, tuple] = {}         # (sender_dev, sender_handle, cid) -> (bearer, state)
        self.unknown_frames = 0

    def link_id(self, dev: int, handle: int):
        a = (dev, handle)
        b = self.links.get(a)
        if b is None:
            return None
        return (a, b) if a <= b else (b, a)

    def fixed(self, dev: int, handle: int) -> WireBearer | None:
        link = self.link_id(dev, handle)
        if link is None:
            return None
        key = (link, 'fixed')
        if key not in self.bearers:
            self.bearers[key] = WireBearer('fixed', link)
        return self.bearers[key]

    def eatt(self, c_dev: int, c_handle: int, c_cid: int) -> WireBearer | None:
        link = self.link_id(c_dev, c_handle)
        return self.bearers.get((link, 'eatt', c_dev, c_cid))

    def feed(self, records):
        for seq, dev, direction, handle, cid, payload in records:
            if direction != 'h2c':
                continue
            link = self.link_id(dev, handle)
            if link is None:
                continue
            if cid == ATT_CID:
                self.fixed(dev, handle).add(seq, dev, payload)
            elif cid == LE_SIG:
                self._signalling(seq, dev, handle, link, payload)
            elif cid >= 0x0040:
                ent = self._chan.get((dev, handle, cid))
                if ent is None:
                    self.unknown_frames += 1
                    continue
                bearer, st = ent
                if st['sdu'] is None:
                    if len(payload) < 2:
                        continue
                    st['len'] = struct.unpack_from('<H', payload, 0)[0]
                    st['sdu'] = bytearray(payload[2:])
                else:
                    st['sdu'] += payload
                if len(st['sdu']) >= st['len']:
                    bearer.add(seq, dev, bytes(st['sdu'][:st['len']]))
                    st['sdu'] = None

    def _signalling(self, seq, dev, handle, link, payload):
        off = 0
        while off + 4 <= len(payload):
            code, ident, ln = struct.unpack_from('<BBH', payload, off)
            data = payload[off + 4: off + 4 + ln]
            off += 4 + ln
            if code == CODE_ECOC_REQ and len(data) >= 8:
                spsm, mtu, _mps, _cr = struct.unpack_from('<HHHH', data, 0)
                n = (len(data) - 8) // 2
                scids = list(struct.unpack_from(f'<{n}H', data, 8))
                if spsm == EATT_SPSM:
                    self._pending[(link, ident)] = (dev, handle, mtu, scids)
            elif code == CODE_ECOC_RSP and len(data) >= 8:
                mtu, _mps, _cr, _result = struct.unpack_from('<HHHH', data, 0)
                n = (len(data) - 8) // 2
                dcids = list(struct.unpack_from(f'<{n}H', data, 8))
                rq = self._pending.pop((link, ident), None)
                if rq is None:
                    continue
                c_dev, c_handle, req_mtu, scids = rq
                for scid, dcid in zip(scids, dcids):
                    if dcid == 0:
                        continue
                    b = WireBearer('eatt', link, c_dev=c_dev, c_cid=scid, s_dev=dev, s_cid=dcid,
                                   mtu=min(req_mtu, mtu))
                    b.req_mtu, b.rsp_mtu = req_mtu, mtu
                    self.bearers[(link, 'eatt', c_dev, scid)] = b
                    # frames sent by the requester are addressed to the acceptor's CID and vice versa
                    self._chan[(c_dev, c_handle, dcid)] = (b, {'sdu': None, 'len': 0})
                    self._chan[(dev, handle, scid)] = (b, {'sdu': None, 'len': 0})


# ----------------------------------------------------------------------------
# tiny ATT response builders for the adversarial server (hand-written layouts)
# ----------------------------------------------------------------------------
def error_rsp(req_op: int, handle: int, code: int) -> bytes:
    return struct.pack('<BBHB', OP_ERROR, req_op, handle & 0xFFFF, code)


def read_by_group_rsp(entries, length=None) -> bytes:
    """entries: [(handle, end, value)]"""
    body = b''.join(struct.pack('<HH', h & 0xFFFF, e & 0xFFFF) + v for h, e, v in entries)
    if length is None:
        length = 4 + len(entries[0][2]) if entries else 6
    return bytes([OP_READ_BY_GROUP_RSP, length & 0xFF]) + body


def read_by_type_rsp(entries, length=None) -> bytes:
    """entries: [(handle, value)]"""
    body = b''.join(struct.pack('<H', h & 0xFFFF) + v for h, v in entries)
    if length is None:
        length = 2 + len(entries[0][1]) if entries else 7
    return bytes([OP_READ_BY_TYPE_RSP, length & 0xFF]) + body


def find_info_rsp(entries, fmt=None) -> bytes:
    """entries: [(handle, uuid_le)]"""
    if fmt is None:
        fmt = 1 if not entries or len(entries[0][1]) == 2 else 2
    return bytes([OP_FIND_INFO_RSP, fmt & 0xFF]) + b''.join(struct.pack('<H', h & 0xFFFF) + u for h, u in entries)


def find_by_type_rsp(entries) -> bytes:
    """entries: [(handle, end)]"""
    return bytes([OP_FIND_BY_TYPE_RSP]) + b''.join(struct.pack('<HH', h & 0xFFFF, e & 0xFFFF) for h, e in entries)
