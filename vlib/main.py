"""Parent runner: plans cases, shards them over subprocesses, classifies what the
monitors reported, writes evidence and replay files, prints the verdict.

usage: bin/check <Cnn> [--tier quick|thorough] [--seed N] [--replay FILE] [--jobs N]
exit: 0 held | 1 violated (VIOLATION line) | 2 inconclusive (INCONCLUSIVE line)
"""
from __future__ import annotations

import argparse
import hashlib
import importlib
import json
import os
import shutil
import subprocess
import sys
import time

ROOT = os.path.dirname(os.path.dirname(os.path.abspath(__file__)))
REPO = os.environ.get('VERIF_REPO', '/repo')
PY = os.environ.get('VERIF_PYTHON', '/venv/bin/python')
DEPS = os.path.join(ROOT, '.deps')


def ensure_deps():
    """icontract (+asttokens) beside the repository's interpreter, offline."""
    marker = os.path.join(DEPS, 'icontract')
    if os.path.isdir(marker):
        return
    os.makedirs(DEPS, exist_ok=True)
    subprocess.run(
        [PY, '-m', 'pip', 'install', '--quiet', '--no-index', '--find-links',
         '/opt/veriftools/wheels', '--target', DEPS, 'icontract', 'deal'],
        check=False, stdout=subprocess.DEVNULL, stderr=subprocess.DEVNULL,
    )


def load_known():
    path = os.path.join(ROOT, 'known_findings.json')
    try:
        with open(path) as f:
            return json.load(f)
    except FileNotFoundError:
        return []


def child_env(seed: int):
    env = dict(os.environ)
    env['PYTHONHASHSEED'] = '0'
    env['PYTHONPATH'] = os.pathsep.join([REPO, ROOT, DEPS])
    env['VERIF_SEED'] = str(seed)
    env['PYTHONDONTWRITEBYTECODE'] = '1'
    env.setdefault('BUMBLE_VERIF', '1')
    return env


def main(argv=None):
    ap = argparse.ArgumentParser()
    ap.add_argument('prop')
    ap.add_argument('--tier', default=os.environ.get('VERIF_TIER', 'quick'))
    ap.add_argument('--seed', type=int, default=int(os.environ.get('VERIF_SEED', '0')))
    ap.add_argument('--replay')
    ap.add_argument('--jobs', type=int, default=int(os.environ.get('VERIF_JOBS', '16')))
    ap.add_argument('--no-evidence', action='store_true')
    args = ap.parse_args(argv)
    prop = args.prop.upper()
    tier = args.tier if args.tier in ('quick', 'thorough') else 'quick'
    os.chdir(ROOT)
    ensure_deps()

    if args.replay:
        env = child_env(args.seed)
        r = subprocess.run([PY, '-m', 'vlib.shard', '--replay', args.replay], env=env)
        return r.returncode

    t0 = time.time()
    if not args.no_evidence:
        # replay files always describe the latest run
        shutil.rmtree(os.path.join(ROOT, 'replays', prop), ignore_errors=True)
    sys.path[:0] = [REPO, ROOT, DEPS]
    os.environ['PYTHONHASHSEED'] = '0'
    mod = importlib.import_module(f'checks.{prop.lower()}')
    cases = mod.plan(tier, args.seed)
    for i, c in enumerate(cases):
        c['_i'] = i
    jobs = max(1, min(args.jobs, len(cases)))
    work = os.path.join(ROOT, '.work', f'{prop}-{os.getpid()}')
    os.makedirs(work, exist_ok=True)
    shards = [cases[k::jobs] for k in range(jobs)]
    procs = []
    shard_timeout = getattr(mod, 'SHARD_TIMEOUT', {}).get(tier, 900 if tier == 'quick' else 7200)
    env = child_env(args.seed)
    for k, sc in enumerate(shards):
        inp = os.path.join(work, f'in{k}.json')
        outp = os.path.join(work, f'out{k}.json')
        with open(inp, 'w') as f:
            json.dump({'prop': prop, 'tier': tier, 'seed': args.seed, 'cases': sc}, f)
        errf = open(os.path.join(work, f'err{k}.txt'), 'w')
        p = subprocess.Popen([PY, '-m', 'vlib.shard', inp, outp], env=env, cwd=ROOT,
                             stdout=errf, stderr=subprocess.STDOUT)
        procs.append((k, p, outp, errf))

    results = []
    inconclusive = []
    deadline = time.time() + shard_timeout
    for k, p, outp, errf in procs:
        try:
            p.wait(timeout=max(1, deadline - time.time()))
        except subprocess.TimeoutExpired:
            p.kill()
            p.wait()
            inconclusive.append(f'shard {k} hit the wall-clock watchdog ({shard_timeout}s)')
        errf.close()
        try:
            with open(outp) as f:
                results.append(json.load(f))
        except Exception:
            tail = ''
            try:
                with open(os.path.join(work, f'err{k}.txt')) as f:
                    tail = f.read()[-1500:]
            except Exception:
                pass
            inconclusive.append(f'shard {k} produced no result (rc={p.returncode}): {tail}')

    # ---- merge ---------------------------------------------------------------
    evaluations = 0
    sigs = set()
    events: dict[str, int] = {}
    violations = []
    samples = []
    sched = set()
    extra: dict = {}
    repo_file = None
    for r in results:
        repo_file = r.get('bumble_file', repo_file)
        for note in r.get('inconclusive', []):
            inconclusive.append(note)
        for cr in r['cases']:
            evaluations += cr.get('evaluations', 1)
            for s in cr.get('sigs', []):
                sigs.add(s)
            for k2, v in cr.get('events', {}).items():
                events[k2] = events.get(k2, 0) + v
            for v in cr.get('violations', []):
                v['case'] = cr['case']
                violations.append(v)
            if cr.get('sample') is not None and len(samples) < 200:
                samples.append(cr['sample'])
            for s in cr.get('sched', []):
                sched.add(s)
            for k2, v in cr.get('extra', {}).items():
                if isinstance(v, list):
                    extra.setdefault(k2, [])
                    for x in v:
                        if x not in extra[k2] and len(extra[k2]) < 400:
                            extra[k2].append(x)
                elif isinstance(v, bool):
                    extra[k2] = bool(extra.get(k2, True)) and v
                elif isinstance(v, (int, float)):
                    extra[k2] = extra.get(k2, 0) + v
                else:
                    extra[k2] = v

    if repo_file and not repo_file.startswith(REPO.rstrip('/') + '/'):
        inconclusive.append(f'bumble imported from {repo_file}, not from {REPO}')

    # minimal monitor activity demanded by the check
    for name, need in getattr(mod, 'MIN_EVENTS', {}).get(tier, {}).items():
        if events.get(name, 0) < need:
            inconclusive.append(
                f'monitor event {name!r} seen {events.get(name, 0)} times, need >= {need}')

    known = {(k['property'], k['key']): k for k in load_known() if k.get('status') == 'known'}
    known_hit: dict[str, int] = {}
    new = []
    for v in violations:
        kk = (prop, v['key'])
        if kk in known:
            known_hit[v['key']] = known_hit.get(v['key'], 0) + 1
        else:
            new.append(v)

    # ---- replay files for new violations (first 3 per key) ---------------------
    per_key: dict[str, int] = {}
    replay_paths = []
    for v in new:
        n = per_key.get(v['key'], 0)
        per_key[v['key']] = n + 1
        if n >= 3:
            continue
        d = os.path.join(ROOT, '.scratch-replays' if args.no_evidence else 'replays', prop)
        os.makedirs(d, exist_ok=True)
        safe = ''.join(ch if ch.isalnum() or ch in '-_.' else '_' for ch in v['key'])[:100]
        path = os.path.join(d, f'{safe}-{args.seed}-{n}.json')
        with open(path, 'w') as f:
            json.dump({'prop': prop, 'tier': tier, 'seed': args.seed, 'case': v['case'],
                       'key': v['key'], 'detail': v.get('detail'),
                       'trace_tail': v.get('trace_tail')}, f, indent=1, default=str)
        replay_paths.append((v['key'], os.path.relpath(path, ROOT), v.get('detail')))

    wall = time.time() - t0
    # sample selection: spread
    if len(samples) > 12:
        step = len(samples) / 12.0
        samples = [samples[int(i * step)] for i in range(12)]
    if not samples:
        samples = [cases[0]] if cases else []
    coverage = {
        'evaluations': evaluations,
        'distinct_nontrivial': len(sigs),
        'rule': getattr(mod, 'RULE', ''),
        'samples': samples,
        'monitor_events': events,
        'schedule_signatures': len(sched),
        'cases_planned': len(cases),
        'known_findings_hit': known_hit,
        'inconclusive_notes': inconclusive[:20],
        'new_violation_keys': sorted(per_key),
        'bumble_file': repo_file,
    }
    if getattr(mod, 'EXHAUSTIVE_NOTE', None):
        coverage['exhaustive_subspaces'] = mod.EXHAUSTIVE_NOTE
    coverage.update(extra)
    evidence = {
        'property_id': prop,
        'tier': tier,
        'seed': args.seed,
        'level': mod.LEVEL,
        'coverage': coverage,
        'assumptions': getattr(mod, 'ASSUMPTIONS', []),
        'wall_s': round(wall, 2),
        'violations': len(new),
    }
    if not args.no_evidence:
        os.makedirs(os.path.join(ROOT, 'evidence'), exist_ok=True)
        with open(os.path.join(ROOT, 'evidence', f'{prop}.json'), 'w') as f:
            json.dump(evidence, f, indent=1, default=str)
    shutil.rmtree(work, ignore_errors=True)
    try:
        os.rmdir(os.path.join(ROOT, '.work'))
    except OSError:
        pass

    print(f'[{prop}] tier={tier} seed={args.seed} cases={len(cases)} evaluations={evaluations} '
          f'distinct={len(sigs)} sched_sigs={len(sched)} wall={wall:.1f}s')
    print(f'[{prop}] monitor events: ' + ', '.join(f'{k}={v}' for k, v in sorted(events.items())))
    for key, n in sorted(known_hit.items()):
        print(f'KNOWN-FINDING: property={prop} {known[(prop, key)]["what"]} [key={key} hits={n}]')
    if new:
        for note in inconclusive[:5]:
            print(f'  (also inconclusive: {note[:300]})')
        for key, path, detail in replay_paths:
            print(f'  violated clause {key}: {str(detail)[:300]}')
        seen = set()
        for key, path, detail in replay_paths:
            if key in seen:
                continue
            seen.add(key)
            print(f'VIOLATION property={prop} replay={path}')
        return 1
    if inconclusive:
        for note in inconclusive[:10]:
            print(f'INCONCLUSIVE property={prop} reason={note[:500]}')
        return 2
    print(f'[{prop}] held on everything explored')
    return 0


if __name__ == '__main__':
    sys.exit(main())
