"""hostwire — how `bumble.host.Host` wires the controller's buffer geometry and the link
life-cycle into its three outbound data queues (BR/EDR ACL, LE ACL, ISO).

A real `Host` is attached to a real `bumble.controller.Controller` through two small
intercepting sinks, and `await host.reset()` runs the REAL initialisation sequence against a
controller whose buffer geometry (three pools, all different) and supported-command mask
(LE_Read_Buffer_Size v2 / v1 / none) are set per history.  After the reset every HCI ACL (0x02)
and ISO (0x05) data packet the host emits is recorded and swallowed; the controller's data side
is played by hand: Connection Complete, LE (Enhanced) Connection Complete, LE CIS Established,
LE Create BIG Complete / Terminate BIG Complete, Number Of Completed Packets (several handles,
over-reports, unknown handles, zero counts), Disconnection Complete (also failed ones and
unknown handles) are written down byte by byte from the Core specification (Vol 4 Part E 7.7)
and injected into `host.on_packet`.

The scenario keeps an INDEPENDENT ledger (it never asks a DataPacketQueue anything):
  * pool capacity / data length = what the controller put on the wire in its
    Read_Buffer_Size / LE_Read_Buffer_Size[_V2] Command Complete events;
  * per link: the byte stream submitted (ACL: 4-byte L2CAP header + PDU; ISO: the SDUs), the
    number of stream bytes emitted so far, packets in flight = emitted - completed, and
    everything of a link is discarded when its Disconnection / BIG termination is injected.
It does not judge anything itself: a `judge` object supplied by the check (C04: credits, FIFO,
no stall, drain; C05: fragment length per pool, markers, reassembly) is called
  on_reset(sc)               after each Host.reset(), pools known
  on_emit(sc, pk)            for every data packet emitted towards a live link
  on_stray(sc, pk)           for a data packet whose handle has no live link
  on_link_closed(sc, link)   when a link was discarded
  on_settle(sc, after)       at quiescence after every operation
  on_exception(sc, what, e)  when bumble raised out of an API call / on_packet
  on_finish(sc)              after the final drain-everything phase
"""
from __future__ import annotations

import asyncio
import dataclasses
import random
import struct

from . import vloop

LENGTHS = [27, 28, 31, 48, 64, 100, 120, 251, 255, 512, 1021]
HANDLES = [0x001, 0x040, 0x041, 0x060, 0x061, 0x0EFF]
UNKNOWN_HANDLE = 0x0EEE
ACL_KINDS = ('bredr', 'le')
ISO_KINDS = ('cis', 'bis')

OP_READ_BUFFER_SIZE = 0x1005
OP_LE_READ_BUFFER_SIZE = 0x2002
OP_LE_READ_BUFFER_SIZE_V2 = 0x2060


# =============================================================================
# geometry
# =============================================================================
@dataclasses.dataclass
class Geometry:
    acl_len: int
    acl_num: int
    le_len: int          # 0 = LE shares the BR/EDR pool
    le_num: int
    iso_len: int
    iso_num: int
    v2: bool = True      # controller lists LE_Read_Buffer_Size [v2] as supported
    le_cmd: bool = True  # controller lists LE_Read_Buffer_Size [v1] as supported

    def pools(self) -> dict[str, tuple[int, int]]:
        """Pools a spec-conforming host must end up with: name -> (data length, count)."""
        le_known = self.v2 or self.le_cmd
        dedicated = le_known and self.le_len and self.le_num
        out = {}
        if dedicated:
            out['bredr'] = (self.acl_len, self.acl_num)
            out['le'] = (self.le_len, self.le_num)
        else:
            out['shared'] = (self.acl_len, self.acl_num)
        if self.v2 and self.iso_len and self.iso_num:
            out['iso'] = (self.iso_len, self.iso_num)
        return out

    def brief(self):
        return (f'acl={self.acl_len}x{self.acl_num} le={self.le_len}x{self.le_num} '
                f'iso={self.iso_len}x{self.iso_num} v2={int(self.v2)} v1={int(self.le_cmd)}')

    def key(self):
        return dataclasses.astuple(self)


def random_geometry(rng: random.Random, avoid: Geometry | None = None) -> Geometry:
    """Three pools with pairwise different lengths and counts (so that a value taken from the
    wrong field is visible), every order of the three lengths; with `avoid`, every length and
    count also differs from the previous geometry's."""
    for _ in range(1000):
        a, l, i = rng.sample(LENGTHS, 3)
        na, nl, ni = rng.sample(range(1, 7), 3)
        mode = rng.choices(['v2', 'v2-shared', 'v1', 'v1-shared', 'no-le-cmd', 'v2-only'],
                           [10, 3, 2.5, 1, 0.5, 1])[0]
        g = Geometry(a, na, l, nl, i, ni)
        if mode in ('v2-shared', 'v1-shared'):
            g.le_len = g.le_num = 0
        if mode in ('v1', 'v1-shared', 'no-le-cmd'):
            g.v2 = False
        if mode == 'no-le-cmd':
            g.le_cmd = False
        if mode == 'v2-only':
            g.le_cmd = False
        if avoid is not None:
            if g.acl_len == avoid.acl_len or g.acl_num == avoid.acl_num:
                continue
            if g.le_len and (g.le_len == avoid.le_len or g.le_num == avoid.le_num):
                continue
            if g.iso_len == avoid.iso_len or g.iso_num == avoid.iso_num:
                continue
            # what the stale LE queue would be must differ from the new LE pool, too
            if not g.le_len and (avoid.le_len == g.acl_len or avoid.le_num == g.acl_num):
                continue
        return g
    raise RuntimeError('no geometry found')


# =============================================================================
# events, byte by byte (Core spec Vol 4 Part E 7.7.x / 7.7.65.x)
# =============================================================================
def _ev(code: int, body: bytes) -> bytes:
    return bytes([0x04, code, len(body)]) + body


def _le(sub: int, body: bytes) -> bytes:
    return _ev(0x3E, bytes([sub]) + body)


def _u24(x: int) -> bytes:
    return x.to_bytes(3, 'little')


def _addr(handle: int) -> bytes:
    return bytes([handle & 0xFF, handle >> 8, 0x33, 0x44, 0x55, 0xC6])


def ev_connection_complete(handle: int, status: int = 0) -> bytes:
    # Status, Connection_Handle, BD_ADDR, Link_Type (1 = ACL), Encryption_Enabled
    return _ev(0x03, bytes([status]) + struct.pack('<H', handle) + _addr(handle) + bytes([1, 0]))


def ev_le_connection_complete(handle: int, enhanced: bool, role: int, status: int = 0) -> bytes:
    head = bytes([status]) + struct.pack('<H', handle) + bytes([role, 1]) + _addr(handle)
    tail = struct.pack('<HHH', 24, 0, 100) + bytes([0])
    if enhanced:
        return _le(0x0A, head + bytes(6) + bytes(6) + tail)
    return _le(0x01, head + tail)


def ev_cis_established(handle: int, status: int = 0) -> bytes:
    return _le(0x19, bytes([status]) + struct.pack('<H', handle) + _u24(1000) + _u24(1000) + _u24(2000)
               + _u24(2000) + bytes([2, 2, 1, 1, 1, 1, 1]) + struct.pack('<HHH', 120, 120, 8))


def ev_create_big_complete(big: int, handles: list[int], status: int = 0) -> bytes:
    return _le(0x1B, bytes([status, big]) + _u24(100) + _u24(200) + bytes([2, 1, 1, 0, 1])
               + struct.pack('<HH', 120, 8) + bytes([len(handles)])
               + b''.join(struct.pack('<H', h) for h in handles))


def ev_terminate_big_complete(big: int, reason: int = 0x16) -> bytes:
    return _le(0x1C, bytes([big, reason]))


def ev_number_of_completed_packets(entries: list[tuple[int, int]]) -> bytes:
    return _ev(0x13, bytes([len(entries)]) + b''.join(struct.pack('<HH', h, n) for h, n in entries))


def ev_disconnection_complete(handle: int, status: int = 0, reason: int = 0x13) -> bytes:
    return _ev(0x05, bytes([status]) + struct.pack('<H', handle) + bytes([reason]))


# =============================================================================
# emitted data packets, parsed by hand (Vol 4 Part E 5.4.2 / 5.4.5)
# =============================================================================
class Pk:
    """One data packet the host handed to its HCI sink."""
    __slots__ = ('raw', 'type', 'handle', 'pb', 'bc', 'ts', 'declared', 'data', 'payload', 'psn', 'sdu_len',
                 'status_flag', 'link', 'offset', 'step', 'phase')

    def __init__(self, raw: bytes):
        self.raw = raw
        self.type = raw[0]
        hf, ln = struct.unpack_from('<HH', raw, 1)
        self.handle = hf & 0xFFF
        self.pb = (hf >> 12) & 3
        self.data = raw[5:]
        self.psn = self.sdu_len = self.status_flag = None
        self.link = None
        self.offset = 0
        if self.type == 0x02:
            self.bc = (hf >> 14) & 3
            self.ts = 0
            self.declared = ln
            self.payload = self.data
        else:
            self.bc = 0
            self.ts = (hf >> 14) & 1
            self.declared = ln & 0x3FFF
            off = 0
            if self.pb in (0b00, 0b10):
                if self.ts:
                    off += 4
                if len(self.data) >= off + 4:
                    self.psn, info = struct.unpack_from('<HH', self.data, off)
                    self.sdu_len = info & 0xFFF
                    self.status_flag = info >> 14
                off += 4
            self.payload = self.data[off:]

    def brief(self):
        return (f'{"ACL" if self.type == 2 else "ISO"} h={self.handle:#x} pb={self.pb:02b} '
                f'len={len(self.data)}')


# =============================================================================
# ledger
# =============================================================================
class Pool:
    __slots__ = ('name', 'length', 'count', 'packets', 'full_waits')

    def __init__(self, name, length, count):
        self.name = name
        self.length = length
        self.count = count
        self.packets = 0
        self.full_waits = 0


class Link:
    """One life of a connection handle."""

    def __init__(self, handle: int, kind: str, pool: Pool, gen: int, seed: int, phase: int, big=None):
        self.handle = handle
        self.kind = kind            # bredr | le | cis | bis
        self.pool = pool
        self.gen = gen
        self.phase = phase
        self.big = big
        self.rand = random.Random(seed)
        self.units: list = []       # ACL: (cid, payload); ISO: sdu bytes
        self.submitted = bytearray()
        self.emitted = 0            # stream bytes emitted so far
        self.inflight = 0
        self.npackets = 0
        self.alive = True
        self.closed_with = None     # (inflight, waiting) at the moment it was discarded
        self.state = None           # free for the judge

    @property
    def is_iso(self):
        return self.kind in ISO_KINDS

    @property
    def waiting(self):
        """stream bytes submitted but not yet handed to the controller"""
        return len(self.submitted) - self.emitted

    def __repr__(self):
        return f'{self.kind}@{self.handle:#x}/g{self.gen}'


class Waiter:
    __slots__ = ('link', 'task', 'born')

    def __init__(self, link, task, born):
        self.link = link
        self.task = task
        self.born = born


class NullJudge:
    def on_reset(self, sc): pass
    def on_emit(self, sc, pk): pass
    def on_stray(self, sc, pk): pass
    def on_link_closed(self, sc, link): pass
    def on_settle(self, sc, after): pass
    def on_exception(self, sc, what, e): pass
    def on_finish(self, sc): pass


# =============================================================================
# scenario
# =============================================================================
class Scenario:
    def __init__(self, rng: random.Random, r, judge, max_ops: tuple[int, int] = (30, 110)):
        self.rng = rng
        self.r = r
        self.judge = judge
        self.max_ops = max_ops
        self.host = None
        self.controller = None
        self.geometry: Geometry | None = None
        self.geometries: list[Geometry] = []
        self.pools: dict[str, Pool] = {}
        self.live: dict[int, Link] = {}
        self.dead: list[Link] = []
        self.gens: dict[int, int] = {}
        self.bigs: dict[int, list[int]] = {}
        self.waiters: list[Waiter] = []
        self.phase = 0
        self.step = 0
        self.ops: list = []
        self.in_reset = False
        self.wire: dict[int, bytes] = {}
        self.terminating: set[int] = set()
        self.last_change = 'reset'
        self.multi_fragment_units = 0

    # -- wiring -----------------------------------------------------------------
    def _build(self):
        from bumble.controller import Controller
        from bumble.host import Host
        from bumble.link import LocalLink

        sc = self
        self.controller = Controller('C', link=LocalLink(), public_address='10:10:10:10:10:A0')
        self.host = Host()
        self._all_commands = set(Controller.supported_commands)

        class HostToController:
            def on_packet(self, packet):
                packet = bytes(packet)
                if packet[0] in (0x02, 0x05):
                    sc._on_data(packet)          # recorded, NOT forwarded
                    return
                sc.controller.on_packet(packet)

        class ControllerToHost:
            def on_packet(self, packet):
                packet = bytes(packet)
                # Command Complete: 04 0E len ncmd opcode(2) return parameters
                if len(packet) >= 6 and packet[0] == 4 and packet[1] == 0x0E:
                    sc.wire[struct.unpack_from('<H', packet, 4)[0]] = packet[6:]
                sc.host.on_packet(packet)

        self.host.set_packet_sink(HostToController())
        self.controller.set_packet_sink(ControllerToHost())

    def _apply_geometry(self, g: Geometry):
        from bumble import hci
        c = self.controller
        c.acl_data_packet_length = g.acl_len
        c.total_num_acl_data_packets = g.acl_num
        c.le_acl_data_packet_length = g.le_len
        c.total_num_le_acl_data_packets = g.le_num
        c.iso_data_packet_length = g.iso_len
        c.total_num_iso_data_packets = g.iso_num
        cmds = set(self._all_commands)
        if not g.v2:
            cmds.discard(hci.HCI_LE_READ_BUFFER_SIZE_V2_COMMAND)
        if not g.le_cmd:
            cmds.discard(hci.HCI_LE_READ_BUFFER_SIZE_COMMAND)
        c.supported_commands = cmds

    def _pools_from_wire(self) -> dict[str, tuple[int, int]]:
        """What the controller said on the wire during this reset (spec layouts)."""
        w = self.wire
        if OP_READ_BUFFER_SIZE not in w:
            raise RuntimeError('host did not read the BR/EDR buffer size')
        st, acl_len, _sco_len, acl_num, _sco_num = struct.unpack_from('<BHBHH', w[OP_READ_BUFFER_SIZE], 0)
        le = iso = None
        if OP_LE_READ_BUFFER_SIZE_V2 in w:
            st, le_len, le_num, iso_len, iso_num = struct.unpack_from('<BHBHB', w[OP_LE_READ_BUFFER_SIZE_V2], 0)
            le = (le_len, le_num)
            iso = (iso_len, iso_num)
        if OP_LE_READ_BUFFER_SIZE in w:
            st, le_len, le_num = struct.unpack_from('<BHB', w[OP_LE_READ_BUFFER_SIZE], 0)
            if le is None:
                le = (le_len, le_num)
        out = {}
        if le and le[0] and le[1]:
            out['bredr'] = (acl_len, acl_num)
            out['le'] = le
        else:
            out['shared'] = (acl_len, acl_num)
        if iso and iso[0] and iso[1]:
            out['iso'] = iso
        return out

    async def reset(self, g: Geometry):
        if self.host is None:
            self._build()
        self._apply_geometry(g)
        self.wire = {}
        self.in_reset = True
        try:
            await vloop.vwait(self.host.reset())
        finally:
            self.in_reset = False
        self.geometry = g
        self.geometries.append(g)
        self.phase += 1
        wire = self._pools_from_wire()
        if wire != g.pools():
            # The controller (bumble code as well) wrote other numbers into its Command Complete events, read by
            # the spec's byte layout, than the buffers it has. The pools are what the controller HAS; a host that
            # follows the wrong numbers will show as over-credit / stall / too-long fragments, and the mismatch
            # itself is reported once.
            diff = sorted(name for name in set(wire) | set(g.pools()) if wire.get(name) != g.pools().get(name))
            self.judge.on_exception(self, 'controller-advertises-other-geometry/' + '+'.join(diff),
                                    RuntimeError(f'on the wire (spec layout): {wire}; buffers the controller has: {g.pools()}'))
            wire = g.pools()
        self.pools = {name: Pool(name, ln, n) for name, (ln, n) in wire.items()}
        self.r.ev('hostwire_resets')
        if self.phase >= 2:
            self.r.ev('hostwire_second_resets')
        self.r.ev(f'hostwire_geometry_{"+".join(sorted(self.pools))}')
        self.ops.append(('reset', g.brief()))
        self.judge.on_reset(self)

    # -- ledger helpers for judges -------------------------------------------------
    def pool_of(self, kind: str) -> Pool | None:
        if kind in ISO_KINDS:
            return self.pools.get('iso')
        if 'shared' in self.pools:
            return self.pools['shared']
        return self.pools[kind]

    def pool_links(self, pool: Pool):
        return [l for l in self.live.values() if l.pool is pool]

    def pool_inflight(self, pool: Pool) -> int:
        return sum(l.inflight for l in self.live.values() if l.pool is pool)

    def pool_waiting(self, pool: Pool):
        return [l for l in self.live.values() if l.pool is pool and l.waiting > 0]

    def after_label(self, after: str) -> str:
        """Label of a judgement made after operation `after`: the kind of the last operation
        that changed the ledger (a drain request or a no-op event changes nothing), or
        'second-reset' for everything that happens after Host.reset() ran again."""
        return 'after-second-reset' if self.phase >= 2 else f'after-{self.last_change}'

    def context(self, n=30):
        return f'geometry[{self.geometry.brief()}] phase={self.phase} ops(last {n})={self.ops[-n:]}'

    # -- data side --------------------------------------------------------------
    def _on_data(self, raw: bytes):
        pk = Pk(raw)
        pk.step = self.step
        pk.phase = self.phase
        self.r.ev('hostwire_packets')
        link = None if self.in_reset else self.live.get(pk.handle)
        if link is None and pk.handle in self.terminating:
            # Host.remove_big() flushes the BIS of a terminated BIG one after the other; the
            # buffers returned by the first one may be used for a packet of a sibling BIS that
            # is flushed a moment later. The packet holds no buffer afterwards on either side;
            # the property does not speak of it: counted, not judged.
            self.r.ev('hostwire_packets_to_sibling_bis_of_terminating_big')
            return
        if link is None:
            self.r.ev('hostwire_stray_packets')
            self.judge.on_stray(self, pk)
            return
        pk.link = link
        pk.offset = link.emitted
        link.emitted += len(pk.payload)
        link.inflight += 1
        link.npackets += 1
        link.pool.packets += 1
        self.r.ev('hostwire_iso_packets' if pk.type == 5 else 'hostwire_acl_packets')
        self.r.ev(f'hostwire_packets_{link.pool.name}')
        if link.kind == 'le':
            self.r.ev('hostwire_packets_le_links')
        if self.phase >= 2:
            self.r.ev('hostwire_packets_after_second_reset')
        self.judge.on_emit(self, pk)

    def inject(self, what: str, packet: bytes):
        try:
            self.host.on_packet(packet)
        except Exception as e:  # noqa: BLE001 - the judge decides what it means
            self.judge.on_exception(self, f'event/{what}', e)

    async def settle(self, after: str):
        if after in ('connect', 'enqueue', 'completion', 'disconnect', 'reset'):
            self.last_change = after
        for _ in range(4):
            await asyncio.sleep(0)
        for w in list(self.waiters):
            if w.task.done():
                self.waiters.remove(w)
                self.r.ev('hostwire_drain_completions')
                if not w.task.cancelled() and w.task.exception() is None and w.task.result() == 'no-such':
                    self.r.ev('hostwire_drain_no_such_connection')
        for pool in self.pools.values():
            if self.pool_inflight(pool) >= pool.count and self.pool_waiting(pool):
                pool.full_waits += 1
                self.r.ev('hostwire_full_waits')
                self.r.ev(f'hostwire_full_waits_{pool.name}')
        self.r.ev('hostwire_settles')
        self.judge.on_settle(self, after)
        self.step += 1

    # -- operations -------------------------------------------------------------
    def _free_handles(self):
        return [h for h in HANDLES if h not in self.live]

    def _new_link(self, handle, kind, big=None) -> Link:
        gen = self.gens.get(handle, 0)
        self.gens[handle] = gen + 1
        if gen:
            self.r.ev('hostwire_reconnects_same_handle')
        link = Link(handle, kind, self.pool_of(kind), gen, self.rng.getrandbits(32), self.phase, big)
        self.live[handle] = link
        self.r.ev(f'hostwire_links_{kind}')
        return link

    async def op_connect(self, kind: str | None = None):
        free = self._free_handles()
        if not free or len(self.live) >= 5:
            return False
        kinds = ['bredr', 'le', 'le']
        if 'iso' in self.pools:
            kinds += ['cis', 'cis', 'bis']
        kind = kind or self.rng.choice(kinds)
        if kind in ISO_KINDS and 'iso' not in self.pools:
            return False
        used = [h for h in free if h in self.gens]
        handle = self.rng.choice(used) if used and self.rng.random() < 0.6 else self.rng.choice(free)
        if kind == 'bredr':
            self._new_link(handle, kind)
            self.ops.append(('conn', kind, handle))
            self.inject('connection-complete', ev_connection_complete(handle))
        elif kind == 'le':
            enhanced = self.rng.random() < 0.5
            self._new_link(handle, kind)
            self.ops.append(('conn', 'le-enh' if enhanced else 'le', handle))
            self.inject('le-connection-complete',
                        ev_le_connection_complete(handle, enhanced, self.rng.choice([0, 1])))
        elif kind == 'cis':
            self._new_link(handle, kind)
            self.ops.append(('conn', kind, handle))
            self.inject('cis-established', ev_cis_established(handle))
        else:
            bigs = [b for b in (0, 1, 7) if b not in self.bigs]
            if not bigs:
                return False
            big = self.rng.choice(bigs)
            handles = [handle]
            rest = [h for h in free if h != handle]
            if rest and len(self.live) < 4 and self.rng.random() < 0.5:
                handles.append(self.rng.choice(rest))
            self.bigs[big] = handles
            for h in handles:
                self._new_link(h, 'bis', big)
            self.ops.append(('conn', 'big', big, tuple(handles)))
            self.inject('create-big-complete', ev_create_big_complete(big, handles))
        await self.settle('connect')
        return True

    def _size_for(self, link: Link) -> int:
        """Unit size in bytes of payload, biased to the pool's fragment boundaries. For ACL the
        4-byte L2CAP header travels in the stream, for ISO the first fragment carries a 4-byte
        SDU header, so the boundary in payload bytes is L-4 for both."""
        L = link.pool.length
        rng = self.rng
        k = rng.random()
        if k < 0.45:
            s = L - 4 + rng.randint(-5, 5)
        elif k < 0.60:
            s = 2 * L - 4 + rng.randint(-2, 2)
        elif k < 0.66:
            s = 3 * L - 4 + rng.randint(-1, 1)
        elif k < 0.76:
            s = rng.choice([0, 1, 2])
        elif k < 0.80:
            # around the OTHER pools' boundaries: where a length taken from the wrong pool shows
            s = rng.choice([p.length for p in self.pools.values()]) - 4 + rng.randint(-1, 1)
        else:
            s = rng.randint(0, 2 * L)
        s = max(0, s)
        if link.is_iso:
            s = min(s, 4095)       # ISO_SDU_Length is a 12-bit field
        return s

    def _submit(self, link: Link, size: int | None = None):
        size = self._size_for(link) if size is None else size
        data = link.rand.randbytes(size)
        L = link.pool.length
        if link.is_iso:
            link.units.append(data)
            link.submitted += data
            self.ops.append(('iso', link.handle, size))
            self.r.ev('hostwire_sdus_submitted')
            if size + 4 > L:
                self.multi_fragment_units += 1
                self.r.ev('hostwire_multi_fragment_units')
            try:
                self.host.send_iso_sdu(link.handle, data)
            except Exception as e:  # noqa: BLE001
                self.judge.on_exception(self, 'send_iso_sdu', e)
        else:
            cid = self.rng.choice([0x0004, 0x0005, 0x0040, 0x0072])
            link.units.append((cid, data))
            link.submitted += struct.pack('<HH', size, cid) + data
            self.ops.append(('l2', link.handle, size))
            self.r.ev('hostwire_pdus_submitted')
            if size + 4 > L:
                self.multi_fragment_units += 1
                self.r.ev('hostwire_multi_fragment_units')
            try:
                self.host.send_l2cap_pdu(link.handle, cid, data)
            except Exception as e:  # noqa: BLE001
                self.judge.on_exception(self, 'send_l2cap_pdu', e)

    async def op_send(self, link: Link | None = None):
        if not self.live:
            return False
        link = link or self.rng.choice(list(self.live.values()))
        self._submit(link)
        await self.settle('enqueue')
        return True

    async def op_burst(self):
        if not self.live:
            return False
        links = self.rng.sample(list(self.live.values()), min(len(self.live), self.rng.choice([1, 2, 2, 3])))
        for _ in range(self.rng.randint(2, 7)):
            self._submit(self.rng.choice(links))
        await self.settle('enqueue')
        return True

    async def op_send_dead(self):
        """Traffic for a handle that has no link (any more): nothing may come out."""
        free = self._free_handles()
        if not free:
            return False
        h = self.rng.choice(free)
        self.ops.append(('send-dead', h))
        try:
            if self.rng.random() < 0.5:
                self.host.send_l2cap_pdu(h, 0x40, bytes(self.rng.randint(0, 60)))
            else:
                self.host.send_iso_sdu(h, bytes(self.rng.randint(1, 60)))
        except Exception as e:  # noqa: BLE001
            self.judge.on_exception(self, 'send-to-dead-handle', e)
        await self.settle('enqueue')
        return True

    async def op_complete(self, everything: bool = False):
        """A Number Of Completed Packets event. An over-report for handle h completes
        min(n, in-flight[h]); to keep that exact while the host works through the entries one
        by one (and sends more in between), an over-report is only placed where no new packet
        of its handle can have been sent since the event was built: first, or for a link with
        nothing waiting."""
        rng = self.rng
        busy = [l for l in self.live.values() if l.inflight]
        if not busy and rng.random() < 0.7:
            return False
        entries: list[tuple[int, int]] = []
        remaining = {l.handle: l.inflight for l in self.live.values()}
        n_entries = rng.choice([1, 1, 1, 2, 2, 3, 4])
        kinds = []
        for i in range(n_entries):
            k = rng.choices(['exact', 'all', 'over', 'unknown', 'zero', 'dead'], [8, 4, 1.2, 0.8, 0.5, 0.5])[0]
            if everything:
                k = 'all'
            cands = [l for l in self.live.values() if remaining[l.handle] > 0]
            if k in ('exact', 'all') and not cands:
                k = 'unknown'
            if k == 'exact':
                l = rng.choice(cands)
                n = rng.randint(1, remaining[l.handle])
                remaining[l.handle] -= n
                entries.append((l.handle, n))
            elif k == 'all':
                l = rng.choice(cands)
                entries.append((l.handle, remaining[l.handle]))
                remaining[l.handle] = 0
            elif k == 'over':
                ok = [l for l in self.live.values() if (i == 0 or l.waiting == 0)
                      and l.handle not in [h for h, _ in entries]]
                if not ok:
                    continue
                l = rng.choice(ok)
                entries.append((l.handle, remaining[l.handle] + rng.randint(1, 3)))
                remaining[l.handle] = 0
                self.r.ev('hostwire_over_reports')
            elif k == 'unknown':
                entries.append((UNKNOWN_HANDLE, rng.randint(0, 3)))
                self.r.ev('hostwire_unknown_handle_reports')
            elif k == 'dead':
                gone = [h for h in self.gens if h not in self.live]
                if not gone:
                    continue
                entries.append((rng.choice(gone), rng.randint(1, 3)))
                self.r.ev('hostwire_unknown_handle_reports')
            else:
                if not self.live:
                    continue
                entries.append((rng.choice(list(self.live)), 0))
            kinds.append(k)
        if not entries:
            return False
        # ledger first: everything reported was in flight when the event was built
        for h, n in entries:
            l = self.live.get(h)
            if l is not None:
                l.inflight -= min(n, l.inflight)
        self.ops.append(('nocp', tuple(entries)))
        self.r.ev('hostwire_nocp_events')
        if len(entries) >= 2:
            self.r.ev('hostwire_nocp_multi_handle')
            if len({self.live[h].pool.name for h, _ in entries if h in self.live}) >= 2:
                self.r.ev('hostwire_nocp_multi_pool')
        self.inject('number-of-completed-packets', ev_number_of_completed_packets(entries))
        await self.settle('completion')
        return True

    def _discard(self, link: Link):
        link.closed_with = (link.inflight, link.waiting)
        if link.inflight or link.waiting:
            self.r.ev('hostwire_disconnects_outstanding')
            self.r.ev(f'hostwire_disconnects_outstanding_{link.kind}')
        if link.inflight and any(l.waiting for l in self.pool_links(link.pool) if l is not link):
            self.r.ev('hostwire_disconnects_freeing_for_others')
        link.alive = False
        link.inflight = 0
        del self.live[link.handle]
        self.dead.append(link)

    async def op_disconnect(self, link: Link | None = None):
        if not self.live:
            return False
        if link is None:
            links = list(self.live.values())
            out = [l for l in links if l.inflight or l.waiting]
            link = self.rng.choice(out) if out and self.rng.random() < 0.7 else self.rng.choice(links)
        if link.kind == 'bis':
            big = link.big
            members = [self.live[h] for h in self.bigs.pop(big) if h in self.live]
            for m in members:
                self._discard(m)
            self.ops.append(('term-big', big, tuple(m.handle for m in members)))
            self.terminating = {m.handle for m in members}
            self.inject('terminate-big-complete', ev_terminate_big_complete(big))
            self.terminating = set()
            closed = members
        else:
            self._discard(link)
            self.ops.append(('disc', link.kind, link.handle, link.closed_with))
            self.inject('disconnection-complete',
                        ev_disconnection_complete(link.handle, 0, self.rng.choice([0x08, 0x13, 0x16])))
            closed = [link]
        self.r.ev('hostwire_disconnects', len(closed))
        await self.settle('disconnect')
        for l in closed:
            self.judge.on_link_closed(self, l)
        return True

    async def op_non_disconnect(self):
        """A Disconnection Complete that ends nothing: failed status for a live handle, or an
        unknown handle. Every link keeps its packets."""
        if self.live and self.rng.random() < 0.7:
            h = self.rng.choice([l.handle for l in self.live.values() if l.kind != 'bis'] or [UNKNOWN_HANDLE])
            status = self.rng.choice([0x0C, 0x02, 0x1F]) if h != UNKNOWN_HANDLE else 0
        else:
            h, status = UNKNOWN_HANDLE, 0
        self.ops.append(('non-disc', h, status))
        self.r.ev('hostwire_non_disconnects')
        self.inject('disconnection-complete-nop', ev_disconnection_complete(h, status))
        await self.settle('failed-disconnect')
        return True

    async def op_drain(self):
        if not self.live:
            return False
        link = self.rng.choice(list(self.live.values()))
        host = self.host
        if self.rng.random() < 0.5:
            q = host.get_data_packet_queue(link.handle)
        elif link.is_iso:
            iso = host.cis_links.get(link.handle) or host.bis_links.get(link.handle)
            q = iso.packet_queue if iso else None
        else:
            c = host.connections.get(link.handle)
            q = c.acl_packet_queue if c else None
        if q is None:
            self.judge.on_exception(self, 'drain/no-queue-for-live-link', RuntimeError(repr(link)))
            return False

        async def waiter():
            try:
                await q.drain(link.handle)
                return 'done'
            except ValueError:
                return 'no-such'

        self.waiters.append(Waiter(link, asyncio.ensure_future(waiter()), self.step))
        self.ops.append(('drain', link.handle))
        self.r.ev('hostwire_drain_waiters')
        await self.settle('drain')
        return True

    async def op_hog_disconnect(self):
        """One link takes every buffer of its pool, a second link of the same pool queues
        behind it, the first one goes away."""
        rng = self.rng
        pools = [p for p in self.pools.values()]
        pool = rng.choice(pools)
        links = self.pool_links(pool)
        while len(links) < 2:
            kinds = {'iso': ['cis', 'bis'], 'le': ['le'], 'bredr': ['bredr'], 'shared': ['le', 'bredr']}[pool.name]
            if not await self.op_connect(rng.choice(kinds)):
                return False
            links = self.pool_links(pool)
        hog, other = rng.sample(links, 2)
        if hog.kind == 'bis' and other.big == hog.big:
            return False
        for _ in range(pool.count + rng.randint(0, 2)):
            self._submit(hog, rng.randint(0, max(0, pool.length - 4)))
        for _ in range(rng.randint(1, 3)):
            self._submit(other)
        await self.settle('enqueue')
        if rng.random() < 0.4:
            await self.op_drain()
        self.r.ev('hostwire_hog_scenarios')
        await self.op_disconnect(hog)
        return True

    async def second_reset(self):
        """All links go away (with whatever they had in flight and queued), the controller
        comes back with another geometry, Host.reset() runs again."""
        while self.live:
            await self.op_disconnect(self.rng.choice(list(self.live.values())))
        g = random_geometry(self.rng, avoid=self.geometry)
        await self.reset(g)
        await self.settle('reset')

    async def finish(self):
        """Return every buffer; everything submitted to a live link must come out."""
        for _ in range(100000):
            busy = [l for l in self.live.values() if l.inflight]
            if not busy:
                break
            l = self.rng.choice(busy)
            n = self.rng.randint(1, l.inflight)
            l.inflight -= n
            self.ops.append(('nocp', ((l.handle, n),)))
            self.inject('number-of-completed-packets', ev_number_of_completed_packets([(l.handle, n)]))
            await self.settle('completion')
        self.judge.on_finish(self)
        for l in list(self.live.values()):
            self.judge.on_link_closed(self, l)
        for w in self.waiters:
            w.task.cancel()
        for _ in range(2):
            await asyncio.sleep(0)

    # -- one history --------------------------------------------------------------
    async def run(self):
        rng = self.rng
        await self.reset(random_geometry(rng))
        nops = rng.randint(*self.max_ops)
        resets = []
        if rng.random() < 0.65:
            resets.append(rng.randint(8, max(9, nops - 15)))
            if rng.random() < 0.15:
                resets.append(rng.randint(8, max(9, nops - 8)))
        for _ in range(rng.randint(2, 4)):
            await self.op_connect()
        i = 0
        while i < nops:
            i += 1
            if i in resets:
                await self.second_reset()
                for _ in range(rng.randint(2, 4)):
                    await self.op_connect()
                continue
            op = rng.choices(
                ['send', 'burst', 'complete', 'connect', 'disconnect', 'drain', 'hog', 'non-disc', 'send-dead'],
                [9, 3, 9, 1.5, 1.2, 1.8, 0.5, 0.4, 0.3])[0]
            self.r.ev('hostwire_ops')
            if op == 'send':
                await self.op_send()
            elif op == 'burst':
                await self.op_burst()
            elif op == 'complete':
                await self.op_complete()
            elif op == 'connect':
                await self.op_connect()
            elif op == 'disconnect':
                await self.op_disconnect()
            elif op == 'drain':
                await self.op_drain()
            elif op == 'hog':
                await self.op_hog_disconnect()
            elif op == 'non-disc':
                await self.op_non_disconnect()
            else:
                await self.op_send_dead()
            if not self.live:
                await self.op_connect()
        await self.finish()
        self.r.ev('hostwire_histories')

    def summary(self):
        return {'kind': 'hostwire',
                'geometries': [g.brief() for g in self.geometries],
                'links': [f'{l!r}:{len(l.units)}u/{l.npackets}p' for l in (self.dead + list(self.live.values()))][:12],
                'full_waits': {p.name: p.full_waits for p in self.pools.values()},
                'ops': [str(o) for o in self.ops[:25]]}

    def signature(self):
        return (tuple(g.key() for g in self.geometries), tuple(o[:2] if o[0] != 'nocp' else o for o in self.ops))


async def run_history(rng: random.Random, r, judge, max_ops=(30, 110)) -> Scenario:
    sc = Scenario(rng, r, judge, max_ops)
    await sc.run()
    return sc
