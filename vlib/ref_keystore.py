"""Independent reference for the JSON key store (C15).

Nothing here imports bumble. Three pieces:

* the *layout*: how a database {namespace: {peer: keys}} is written as JSON, taken from
  the documented object model (JsonKeyStore docstring): a key is
  {"value": hex, "authenticated": bool[, "ediv": int][, "rand": hex]}; "address_type" and
  "link_key_type" are plain integers.  `encode_db` / `decode_db`.
* the *model*: a dict of dicts with merge-on-update and the documented default-namespace
  rule (a store opened without a namespace uses "__DEFAULT__" when present, else the only
  existing namespace, else creates "__DEFAULT__").  `Model`.
* `fields_of(obj)`: reads a PairingKeys-shaped object attribute by attribute into the
  model's representation, checking the Python types on the way.

Model representation of one peer's keys ("fields"):
    {'address_type': int, 'link_key_type': int,
     '<key name>': (value: bytes, authenticated: bool, ediv: int|None, rand: bytes|None)}
absent members are simply absent.
"""
from __future__ import annotations

import copy

KEY_FIELDS = ('ltk', 'ltk_central', 'ltk_peripheral', 'irk', 'csrk', 'link_key')
INT_FIELDS = ('address_type', 'link_key_type')
DEFAULT_NAMESPACE = '__DEFAULT__'
PUBLIC_DEVICE = 0
RANDOM_DEVICE = 1


class LayoutError(Exception):
    pass


# ----------------------------------------------------------------------------- layout
def encode_key(k):
    value, authenticated, ediv, rand = k
    d = {'value': value.hex(), 'authenticated': bool(authenticated)}
    if ediv is not None:
        d['ediv'] = ediv
    if rand is not None:
        d['rand'] = rand.hex()
    return d


def encode_fields(fields):
    out = {}
    for name, v in fields.items():
        if name in INT_FIELDS:
            out[name] = int(v)
        elif name in KEY_FIELDS:
            out[name] = encode_key(v)
        else:
            raise LayoutError(f'unknown member {name!r}')
    return out


def encode_db(db):
    return {ns: {peer: encode_fields(f) for peer, f in peers.items()} for ns, peers in db.items()}


def _hex(x, what):
    if not isinstance(x, str):
        raise LayoutError(f'{what}: expected a hex string, got {type(x).__name__} {x!r}')
    try:
        return bytes.fromhex(x)
    except ValueError:
        raise LayoutError(f'{what}: not hex: {x!r}')


def _int(x, what):
    if isinstance(x, bool) or not isinstance(x, int):
        raise LayoutError(f'{what}: expected an integer, got {type(x).__name__} {x!r}')
    return x


def decode_key(d, what='key'):
    if not isinstance(d, dict):
        raise LayoutError(f'{what}: expected an object, got {type(d).__name__}')
    extra = set(d) - {'value', 'authenticated', 'ediv', 'rand'}
    if extra:
        raise LayoutError(f'{what}: unknown members {sorted(extra)}')
    if 'value' not in d:
        raise LayoutError(f'{what}: no value')
    if not isinstance(d.get('authenticated'), bool):
        raise LayoutError(f'{what}: authenticated is {d.get("authenticated")!r}, expected true/false')
    ediv = _int(d['ediv'], what + '.ediv') if 'ediv' in d else None
    rand = _hex(d['rand'], what + '.rand') if 'rand' in d else None
    return (_hex(d['value'], what + '.value'), d['authenticated'], ediv, rand)


def decode_fields(d, what='keys'):
    if not isinstance(d, dict):
        raise LayoutError(f'{what}: expected an object, got {type(d).__name__}')
    out = {}
    for name, v in d.items():
        if name in INT_FIELDS:
            out[name] = _int(v, f'{what}.{name}')
        elif name in KEY_FIELDS:
            out[name] = decode_key(v, f'{what}.{name}')
        else:
            raise LayoutError(f'{what}: unknown member {name!r}')
    return out


def decode_db(obj):
    if not isinstance(obj, dict):
        raise LayoutError(f'database is a JSON {type(obj).__name__}, expected an object: {obj!r:.80}')
    db = {}
    for ns, peers in obj.items():
        if not isinstance(peers, dict):
            raise LayoutError(f'namespace {ns!r} is a {type(peers).__name__}, expected an object')
        db[ns] = {peer: decode_fields(f, f'{ns}/{peer}') for peer, f in peers.items()}
    return db


def strip_empty(db):
    return {ns: peers for ns, peers in db.items() if peers}


# ----------------------------------------------------------------------------- reading objects
def _key_of(k, what, problems):
    value = getattr(k, 'value', None)
    auth = getattr(k, 'authenticated', None)
    ediv = getattr(k, 'ediv', None)
    rand = getattr(k, 'rand', None)
    if not isinstance(value, (bytes, bytearray)):
        problems.append(f'{what}.value is {type(value).__name__}')
    if not isinstance(auth, bool):
        problems.append(f'{what}.authenticated is {type(auth).__name__} {auth!r}')
    if ediv is not None and (isinstance(ediv, bool) or not isinstance(ediv, int)):
        problems.append(f'{what}.ediv is {type(ediv).__name__}')
    if rand is not None and not isinstance(rand, (bytes, bytearray)):
        problems.append(f'{what}.rand is {type(rand).__name__}')
    return (bytes(value) if isinstance(value, (bytes, bytearray)) else value, auth, ediv,
            bytes(rand) if isinstance(rand, (bytes, bytearray)) else rand)


def fields_of(pk, problems=None):
    """PairingKeys-shaped object -> model fields (attribute by attribute)."""
    if problems is None:
        problems = []
    out = {}
    for name in INT_FIELDS:
        v = getattr(pk, name)
        if v is not None:
            if isinstance(v, bool) or not isinstance(v, int):
                problems.append(f'{name} is {type(v).__name__} {v!r}')
                out[name] = v
            else:
                out[name] = int(v)
    for name in KEY_FIELDS:
        k = getattr(pk, name)
        if k is not None:
            out[name] = _key_of(k, name, problems)
    return out


# ----------------------------------------------------------------------------- addresses
def split_peer(peer):
    """'AA:BB:CC:DD:EE:FF[/P]' -> (6 address bytes little-endian, forced_public) or None."""
    forced_public = peer.endswith('/P')
    s = peer[:-2] if forced_public else peer
    parts = s.split(':')
    if len(parts) != 6 or any(len(p) != 2 for p in parts):
        return None
    try:
        b = bytes(int(p, 16) for p in parts)
    except ValueError:
        return None
    return (b[::-1], forced_public)


# ----------------------------------------------------------------------------- model
class Model:
    def __init__(self, db=None):
        self.db = copy.deepcopy(db) if db else {}

    def copy(self):
        return Model(self.db)

    def resolve(self, ns_arg):
        """Which namespace a store opened with `ns_arg` works on *now*."""
        if ns_arg and ns_arg != DEFAULT_NAMESPACE:
            return ns_arg
        if DEFAULT_NAMESPACE in self.db:
            return DEFAULT_NAMESPACE
        if len(self.db) == 1:
            return next(iter(self.db))
        return DEFAULT_NAMESPACE

    def kind(self, ns_arg):
        """Class of the store for mechanism keys."""
        if ns_arg and ns_arg != DEFAULT_NAMESPACE:
            return 'named'
        return 'default-own' if self.resolve(ns_arg) == DEFAULT_NAMESPACE else 'default-adopted'

    # reads never create anything
    def view(self, ns_arg):
        return self.db.get(self.resolve(ns_arg), {})

    def get(self, ns_arg, peer):
        return self.view(ns_arg).get(peer)

    def resolving(self, ns_arg):
        """[(irk value, address bytes LE, address type)] for entries that hold an IRK."""
        out = []
        for peer, f in self.view(ns_arg).items():
            if 'irk' not in f:
                continue
            sp = split_peer(peer)
            if sp is None:
                out.append((f['irk'][0], None, None))
                continue
            addr, forced_public = sp
            typ = PUBLIC_DEVICE if forced_public else f.get('address_type', RANDOM_DEVICE)
            out.append((f['irk'][0], addr, typ))
        return out

    # mutators create the namespace they work on
    def update(self, ns_arg, peer, fields):
        ns = self.resolve(ns_arg)
        entry = self.db.setdefault(ns, {}).setdefault(peer, {})
        for name, v in fields.items():      # merge: members not given keep their value
            entry[name] = v

    def delete(self, ns_arg, peer):
        ns = self.resolve(ns_arg)
        if peer in self.db.get(ns, {}):
            del self.db[ns][peer]
            return True
        return False

    def delete_all(self, ns_arg):
        ns = self.resolve(ns_arg)
        self.db[ns] = {}

    def sync_empty_namespaces(self, observed_db):
        """Whether a namespace without entries is present in the file is not fixed by the
        property; adopt what is observed (it only matters for the default-namespace rule)."""
        for ns in [n for n, p in self.db.items() if not p]:
            if ns not in observed_db:
                del self.db[ns]
        for ns, p in observed_db.items():
            if not p and ns not in self.db:
                self.db[ns] = {}
