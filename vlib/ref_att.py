"""Independent ATT reference, written from Core Spec Vol 3 Part F (Attribute Protocol)
and Part G 5.3 (EATT): PDU layouts (encoder for what a client sends, decoder for what
a server sends), opcode classes, the request/response pairing automaton with MTU
tracking, and the attribute-permission predicate.  Nothing here imports bumble.
"""
from __future__ import annotations

import collections
import struct

# -----------------------------------------------------------------------------
# Opcodes (Part F 3.4.8 "Attribute Opcode Summary")
# -----------------------------------------------------------------------------
ERROR_RSP = 0x01
EXCHANGE_MTU_REQ, EXCHANGE_MTU_RSP = 0x02, 0x03
FIND_INFO_REQ, FIND_INFO_RSP = 0x04, 0x05
FIND_BY_TYPE_VALUE_REQ, FIND_BY_TYPE_VALUE_RSP = 0x06, 0x07
READ_BY_TYPE_REQ, READ_BY_TYPE_RSP = 0x08, 0x09
READ_REQ, READ_RSP = 0x0A, 0x0B
READ_BLOB_REQ, READ_BLOB_RSP = 0x0C, 0x0D
READ_MULTIPLE_REQ, READ_MULTIPLE_RSP = 0x0E, 0x0F
READ_BY_GROUP_TYPE_REQ, READ_BY_GROUP_TYPE_RSP = 0x10, 0x11
WRITE_REQ, WRITE_RSP = 0x12, 0x13
PREPARE_WRITE_REQ, PREPARE_WRITE_RSP = 0x16, 0x17
EXECUTE_WRITE_REQ, EXECUTE_WRITE_RSP = 0x18, 0x19
HANDLE_VALUE_NTF = 0x1B
HANDLE_VALUE_IND = 0x1D
HANDLE_VALUE_CFM = 0x1E
READ_MULTIPLE_VARIABLE_REQ, READ_MULTIPLE_VARIABLE_RSP = 0x20, 0x21
MULTIPLE_HANDLE_VALUE_NTF = 0x23
WRITE_CMD = 0x52
SIGNED_WRITE_CMD = 0xD2

RESPONSE_OF = {
    EXCHANGE_MTU_REQ: EXCHANGE_MTU_RSP,
    FIND_INFO_REQ: FIND_INFO_RSP,
    FIND_BY_TYPE_VALUE_REQ: FIND_BY_TYPE_VALUE_RSP,
    READ_BY_TYPE_REQ: READ_BY_TYPE_RSP,
    READ_REQ: READ_RSP,
    READ_BLOB_REQ: READ_BLOB_RSP,
    READ_MULTIPLE_REQ: READ_MULTIPLE_RSP,
    READ_BY_GROUP_TYPE_REQ: READ_BY_GROUP_TYPE_RSP,
    WRITE_REQ: WRITE_RSP,
    PREPARE_WRITE_REQ: PREPARE_WRITE_RSP,
    EXECUTE_WRITE_REQ: EXECUTE_WRITE_RSP,
    READ_MULTIPLE_VARIABLE_REQ: READ_MULTIPLE_VARIABLE_RSP,
}
REQUEST_OF = {v: k for k, v in RESPONSE_OF.items()}
REQUESTS = frozenset(RESPONSE_OF)
COMMANDS = frozenset([WRITE_CMD, SIGNED_WRITE_CMD])
SERVER_INITIATED = frozenset([HANDLE_VALUE_NTF, HANDLE_VALUE_IND, MULTIPLE_HANDLE_VALUE_NTF])
RESPONSES = frozenset(REQUEST_OF) | {ERROR_RSP}

NAMES = {
    0x01: 'error-rsp', 0x02: 'exchange-mtu', 0x03: 'exchange-mtu-rsp', 0x04: 'find-information',
    0x05: 'find-information-rsp', 0x06: 'find-by-type-value', 0x07: 'find-by-type-value-rsp',
    0x08: 'read-by-type', 0x09: 'read-by-type-rsp', 0x0A: 'read', 0x0B: 'read-rsp', 0x0C: 'read-blob',
    0x0D: 'read-blob-rsp', 0x0E: 'read-multiple', 0x0F: 'read-multiple-rsp', 0x10: 'read-by-group-type',
    0x11: 'read-by-group-type-rsp', 0x12: 'write', 0x13: 'write-rsp', 0x16: 'prepare-write',
    0x17: 'prepare-write-rsp', 0x18: 'execute-write', 0x19: 'execute-write-rsp', 0x1B: 'notification',
    0x1D: 'indication', 0x1E: 'confirmation', 0x20: 'read-multiple-variable',
    0x21: 'read-multiple-variable-rsp', 0x23: 'multiple-notification', 0x52: 'write-command',
    0xD2: 'signed-write-command',
}

# Error codes (Part F 3.4.1.1, Table 3.4)
E_INVALID_HANDLE = 0x01
E_READ_NOT_PERMITTED = 0x02
E_WRITE_NOT_PERMITTED = 0x03
E_INVALID_PDU = 0x04
E_INSUFFICIENT_AUTHENTICATION = 0x05
E_REQUEST_NOT_SUPPORTED = 0x06
E_INVALID_OFFSET = 0x07
E_INSUFFICIENT_AUTHORIZATION = 0x08
E_ATTRIBUTE_NOT_FOUND = 0x0A
E_ATTRIBUTE_NOT_LONG = 0x0B
E_INSUFFICIENT_KEY_SIZE = 0x0C
E_INVALID_ATTRIBUTE_LENGTH = 0x0D
E_UNLIKELY = 0x0E
E_INSUFFICIENT_ENCRYPTION = 0x0F
E_UNSUPPORTED_GROUP_TYPE = 0x10

DEFAULT_MTU = 23


def opname(op: int) -> str:
    return NAMES.get(op, 'undefined')


def classify(op: int) -> str:
    """Class of a PDU *sent by a client* according to its opcode alone."""
    if op in REQUESTS:
        return 'request'
    if op in COMMANDS:
        return 'command'
    if op == HANDLE_VALUE_CFM:
        return 'confirmation'
    if op in RESPONSES:
        return 'response-type'
    if op in SERVER_INITIATED:
        return 'server-initiated-type'
    if op & 0x40:
        return 'unknown-command'
    return 'unknown'


# -----------------------------------------------------------------------------
# Encoder: what a client sends
# -----------------------------------------------------------------------------
def h(handle: int) -> bytes:
    return struct.pack('<H', handle & 0xFFFF)


def exchange_mtu(mtu: int) -> bytes:
    return bytes([EXCHANGE_MTU_REQ]) + h(mtu)


def find_information(start: int, end: int) -> bytes:
    return bytes([FIND_INFO_REQ]) + h(start) + h(end)


def find_by_type_value(start: int, end: int, type16: int, value: bytes) -> bytes:
    return bytes([FIND_BY_TYPE_VALUE_REQ]) + h(start) + h(end) + h(type16) + value


def read_by_type(start: int, end: int, uuid_le: bytes) -> bytes:
    return bytes([READ_BY_TYPE_REQ]) + h(start) + h(end) + uuid_le


def read(handle: int) -> bytes:
    return bytes([READ_REQ]) + h(handle)


def read_blob(handle: int, offset: int) -> bytes:
    return bytes([READ_BLOB_REQ]) + h(handle) + h(offset)


def read_multiple(handles) -> bytes:
    return bytes([READ_MULTIPLE_REQ]) + b''.join(h(x) for x in handles)


def read_by_group_type(start: int, end: int, uuid_le: bytes) -> bytes:
    return bytes([READ_BY_GROUP_TYPE_REQ]) + h(start) + h(end) + uuid_le


def read_multiple_variable(handles) -> bytes:
    return bytes([READ_MULTIPLE_VARIABLE_REQ]) + b''.join(h(x) for x in handles)


def write_request(handle: int, value: bytes) -> bytes:
    return bytes([WRITE_REQ]) + h(handle) + value


def write_command(handle: int, value: bytes) -> bytes:
    return bytes([WRITE_CMD]) + h(handle) + value


def signed_write_command(handle: int, value: bytes, signature: bytes = bytes(12)) -> bytes:
    return bytes([SIGNED_WRITE_CMD]) + h(handle) + value + signature


def prepare_write(handle: int, offset: int, value: bytes) -> bytes:
    return bytes([PREPARE_WRITE_REQ]) + h(handle) + h(offset) + value


def execute_write(flags: int) -> bytes:
    return bytes([EXECUTE_WRITE_REQ, flags & 0xFF])


def confirmation() -> bytes:
    return bytes([HANDLE_VALUE_CFM])


# -----------------------------------------------------------------------------
# Decoder: what a server sends.  Each parser returns the decoded content or raises
# Malformed when the PDU does not have the layout the spec gives it.
# -----------------------------------------------------------------------------
class Malformed(Exception):
    pass


def parse_error(pdu: bytes):
    """-> (request opcode in error, handle in error, error code)"""
    if len(pdu) != 5 or pdu[0] != ERROR_RSP:
        raise Malformed(f'error response of {len(pdu)} bytes')
    return pdu[1], struct.unpack_from('<H', pdu, 2)[0], pdu[4]


def parse_exchange_mtu_rsp(pdu: bytes) -> int:
    if len(pdu) != 3:
        raise Malformed(f'exchange mtu response of {len(pdu)} bytes')
    return struct.unpack_from('<H', pdu, 1)[0]


def parse_find_information_rsp(pdu: bytes):
    """-> [(handle, uuid_le)]"""
    if len(pdu) < 2:
        raise Malformed('find information response without format')
    fmt = pdu[1]
    if fmt not in (1, 2):
        raise Malformed(f'find information format {fmt}')
    unit = 4 if fmt == 1 else 18
    body = pdu[2:]
    if not body or len(body) % unit:
        raise Malformed(f'find information data of {len(body)} bytes for format {fmt}')
    return [(struct.unpack_from('<H', body, i)[0], body[i + 2:i + unit]) for i in range(0, len(body), unit)]


def parse_find_by_type_value_rsp(pdu: bytes):
    """-> [(found handle, group end handle)]"""
    body = pdu[1:]
    if not body or len(body) % 4:
        raise Malformed(f'handles information list of {len(body)} bytes')
    return [struct.unpack_from('<HH', body, i) for i in range(0, len(body), 4)]


def parse_read_by_type_rsp(pdu: bytes):
    """-> [(handle, value)]"""
    if len(pdu) < 2:
        raise Malformed('read by type response without length')
    unit = pdu[1]
    body = pdu[2:]
    if unit < 2 or not body or len(body) % unit:
        raise Malformed(f'read by type length={unit} with {len(body)} data bytes')
    return [(struct.unpack_from('<H', body, i)[0], body[i + 2:i + unit]) for i in range(0, len(body), unit)]


def parse_read_by_group_type_rsp(pdu: bytes):
    """-> [(handle, end group handle, value)]"""
    if len(pdu) < 2:
        raise Malformed('read by group type response without length')
    unit = pdu[1]
    body = pdu[2:]
    if unit < 4 or not body or len(body) % unit:
        raise Malformed(f'read by group type length={unit} with {len(body)} data bytes')
    return [struct.unpack_from('<HH', body, i) + (body[i + 4:i + unit],) for i in range(0, len(body), unit)]


def parse_read_multiple_variable_rsp(pdu: bytes):
    """-> [(declared length, value bytes present)]; only the last tuple may be
    truncated (Part F 3.4.4.12)."""
    out = []
    off = 1
    while off < len(pdu):
        if off + 2 > len(pdu):
            raise Malformed('dangling byte after the last length-value tuple')
        ln = struct.unpack_from('<H', pdu, off)[0]
        val = pdu[off + 2:off + 2 + ln]
        out.append((ln, val))
        if len(val) < ln and off + 2 + len(val) != len(pdu):
            raise Malformed('truncated tuple that is not the last')
        off += 2 + ln
    return out


def parse_handle_value(pdu: bytes):
    """notification / indication -> (handle, value)"""
    if len(pdu) < 3:
        raise Malformed(f'handle value PDU of {len(pdu)} bytes')
    return struct.unpack_from('<H', pdu, 1)[0], pdu[3:]


def check_layout(pdu: bytes):
    """Raises Malformed when a server PDU does not parse under its opcode's layout."""
    op = pdu[0]
    if op == ERROR_RSP:
        parse_error(pdu)
    elif op == EXCHANGE_MTU_RSP:
        parse_exchange_mtu_rsp(pdu)
    elif op == FIND_INFO_RSP:
        parse_find_information_rsp(pdu)
    elif op == FIND_BY_TYPE_VALUE_RSP:
        parse_find_by_type_value_rsp(pdu)
    elif op == READ_BY_TYPE_RSP:
        parse_read_by_type_rsp(pdu)
    elif op == READ_BY_GROUP_TYPE_RSP:
        parse_read_by_group_type_rsp(pdu)
    elif op == READ_MULTIPLE_VARIABLE_RSP:
        parse_read_multiple_variable_rsp(pdu)
    elif op in (WRITE_RSP, EXECUTE_WRITE_RSP):
        if len(pdu) != 1:
            raise Malformed(f'{opname(op)} with {len(pdu) - 1} parameter bytes')
    elif op in (HANDLE_VALUE_NTF, HANDLE_VALUE_IND):
        parse_handle_value(pdu)
    elif op == PREPARE_WRITE_RSP:
        if len(pdu) < 5:
            raise Malformed('short prepare write response')


# -----------------------------------------------------------------------------
# Pairing automaton (one per bearer)
# -----------------------------------------------------------------------------
class Pairing:
    """Feed it, in wire order, every PDU the client sent (`client`) and every PDU the
    server sent (`server`) on one bearer; call `close()` at each quiescence point.

    Clauses (keys are prefixed `pairing/` and suffixed with the bearer kind):
      no-reply            a defined request without any reply at quiescence
      multiple-replies    a defined request with more than one reply
      reply-to-non-request  a reply naming an opcode the client sent that is a command,
                          confirmation, response-type or command-flagged unknown opcode,
                          or more than one reply to an unknown opcode without command flag,
                          or a response opcode (not Error Response) for an unknown opcode
      reply-unsolicited   a reply naming an opcode the client did not send in this window
      mtu-exceeded        a server PDU longer than the bearer's current ATT_MTU
      indication/two-outstanding
      malformed           a server PDU that does not parse under its own layout
      server-initiated/unexpected   notification / indication nobody asked the server for
    """

    def __init__(self, kind: str, mtu: int = DEFAULT_MTU, mtu_fixed: bool = False):
        self.kind = kind                # 'att' (fixed channel) or 'eatt'
        self.mtu = mtu
        self.mtu_fixed = mtu_fixed      # EATT: ATT_MTU is min(L2CAP MTU fields), never renegotiated
        self.window: list[tuple[int, str, bytes]] = []   # (opcode, class label, pdu) sent by client
        self.replies: list[bytes] = []
        self.pending_client_rx_mtu = None
        self.outstanding_indications = 0
        self.expected_server_initiated = 0   # budget announced by the harness
        self.indications_seen = 0
        self.notifications_seen = 0
        self.max_server_pdu = 0
        self.key_class = ''             # class of the request being judged (set by the harness), part of MTU keys
        self.stats = collections.Counter()

    # -- feeding --------------------------------------------------------------
    def client(self, pdu: bytes, label: str = ''):
        if not pdu:
            self.stats['client_empty_pdus'] += 1
            return
        op = pdu[0]
        self.window.append((op, label, pdu))
        self.stats['client_pdus'] += 1
        if op == EXCHANGE_MTU_REQ and len(pdu) == 3:
            self.pending_client_rx_mtu = struct.unpack_from('<H', pdu, 1)[0]
        if op == HANDLE_VALUE_CFM and len(pdu) == 1 and self.outstanding_indications > 0:
            self.outstanding_indications -= 1

    def server(self, pdu: bytes, r, ctx: str = ''):
        """One PDU transmitted by the server on this bearer."""
        self.stats['server_pdus'] += 1
        r.ev('server_pdus')
        if not pdu:
            r.bad(f'pairing/malformed/empty-pdu/{self.kind}', f'server sent an empty ATT PDU; {ctx}')
            return
        op = pdu[0]
        self.max_server_pdu = max(self.max_server_pdu, len(pdu))
        r.ev('mtu_checks')
        r.ev('oracle_evals')
        if len(pdu) > self.mtu:
            r.bad(f'pairing/mtu-exceeded/{opname(op)}/{self.kind}' + (f'/{self.key_class}' if self.key_class else ''),
                  f'server PDU {opname(op)} of {len(pdu)} bytes with ATT_MTU {self.mtu}; {ctx}; '
                  f'pdu={pdu[:24].hex()}..')
        if len(pdu) == self.mtu:
            r.ev('server_pdus_exactly_mtu')
        try:
            check_layout(pdu)
        except Malformed as e:
            r.bad(f'pairing/malformed/{opname(op)}/{self.kind}', f'{e}; pdu={pdu[:40].hex()}; {ctx}')
        if op in (HANDLE_VALUE_NTF, MULTIPLE_HANDLE_VALUE_NTF, HANDLE_VALUE_IND):
            if self.expected_server_initiated <= 0:
                r.bad(f'pairing/server-initiated/unexpected/{opname(op)}/{self.kind}',
                      f'{opname(op)} although the server application sent none; pdu={pdu[:24].hex()}; {ctx}')
            else:
                self.expected_server_initiated -= 1
            if op == HANDLE_VALUE_IND:
                self.indications_seen += 1
                self.outstanding_indications += 1
                r.ev('indications_seen')
                r.ev('oracle_evals')
                if self.outstanding_indications > 1:
                    r.bad(f'pairing/indication/two-outstanding/{self.kind}',
                          f'{self.outstanding_indications} indications awaiting confirmation; {ctx}')
            else:
                self.notifications_seen += 1
                r.ev('notifications_seen')
            return
        if op == EXCHANGE_MTU_RSP and len(pdu) == 3 and self.pending_client_rx_mtu is not None:
            server_rx = struct.unpack_from('<H', pdu, 1)[0]
            client_rx = self.pending_client_rx_mtu
            self.pending_client_rx_mtu = None
            if not self.mtu_fixed and client_rx >= DEFAULT_MTU and server_rx >= DEFAULT_MTU:
                # takes effect after this response (Part F 3.4.2.2)
                self.mtu = min(client_rx, server_rx)
                self.stats['mtu_updates'] += 1
        self.replies.append(pdu)

    # -- evaluation -----------------------------------------------------------
    def close(self, r, ctx: str = ''):
        """Quiescence: every request of the window must have exactly one reply.
        Returns the number of requests left without a reply (the bearer is then dead
        for a real client: Part F 3.3.3 transaction timeout)."""
        unanswered = 0
        sent = collections.Counter()
        labels = collections.defaultdict(set)
        for op, label, _pdu in self.window:
            sent[op] += 1
            labels[op].add(label)
        answered = collections.Counter()      # opcode named -> count
        answered_by_rsp = collections.Counter()
        confirmations = 0
        for pdu in self.replies:
            op = pdu[0]
            if op == ERROR_RSP:
                if len(pdu) >= 2:
                    answered[pdu[1]] += 1
            elif op in REQUEST_OF:
                answered[REQUEST_OF[op]] += 1
                answered_by_rsp[REQUEST_OF[op]] += 1
            elif op == HANDLE_VALUE_CFM:
                confirmations += 1
            else:
                r.bad(f'pairing/reply-undefined-opcode/{self.kind}',
                      f'server sent opcode {op:#04x}: {pdu[:24].hex()}; {ctx}')

        def lab(op):
            ls = labels.get(op) or {''}
            return sorted(ls)[0] if len(ls) == 1 else 'mixed'

        # defined requests, in the order they were sent: each consumes one reply naming its
        # opcode. Only the first unanswered request of a window is reported (after it the
        # bearer is dead for a client, so later silence is a consequence, not a new fact).
        left = collections.Counter(answered)
        pipelined = len(self.window) > 1
        for op, label, pdu in self.window:
            if classify(op) != 'request':
                continue
            r.ev('requests_judged')
            r.ev('oracle_evals')
            if left.get(op, 0) > 0:
                left[op] -= 1
                r.ev('requests_answered_once')
                continue
            unanswered += 1
            if unanswered == 1:
                # in a pipelined window neither the culprit nor the victim can be told apart
                r.bad(f'pairing/no-reply/{opname(op)}/{"pipelined" if pipelined else label}/{self.kind}',
                      f'{opname(op)} [{label}] got no reply at quiescence ({sent[op]} sent, {answered.get(op, 0)} replies naming '
                      f'it); {ctx}; pdu={pdu[:32].hex()}')
            else:
                r.ev('requests_unanswered_after_first')
        for op, n in sent.items():
            cls = classify(op)
            got = answered.get(op, 0)
            if cls == 'request':
                if got > n:
                    r.ev('oracle_evals')
                    r.bad(f'pairing/multiple-replies/{opname(op)}/{lab(op)}/{self.kind}',
                          f'{n} x {opname(op)} sent, {got} replies; {ctx}')
            elif cls == 'unknown':
                r.ev('unknown_opcodes_judged', n)
                r.ev('oracle_evals', n)
                if got > n or answered_by_rsp.get(op, 0):
                    r.bad(f'pairing/reply-to-non-request/unknown/{self.kind}',
                          f'{got} replies to {n} x undefined opcode {op:#04x}; {ctx}')
                elif got:
                    r.ev('unknown_opcodes_answered_with_error', got)
            else:
                r.ev('non_requests_judged', n)
                r.ev('oracle_evals', n)
                if got:
                    r.bad(f'pairing/reply-to-non-request/{cls}/{opname(op)}/{self.kind}',
                          f'{got} replies naming {opname(op)} ({op:#04x}), a {cls}; {ctx}')
        for op, got in answered.items():
            if op not in sent:
                r.ev('oracle_evals')
                r.bad(f'pairing/reply-unsolicited/{opname(op)}/{self.kind}',
                      f'{got} replies naming opcode {op:#04x} which was not sent in this window; {ctx}')
        # confirmations come from the device's *client* role in answer to an indication
        # the peer sent on the fixed channel: at most one each
        peer_indications = sent.get(HANDLE_VALUE_IND, 0)
        if confirmations > peer_indications:
            r.bad(f'pairing/reply-unsolicited/confirmation/{self.kind}',
                  f'{confirmations} confirmations for {peer_indications} indications sent by the peer; {ctx}')
        self.window = []
        self.replies = []
        return unanswered

    def complete(self) -> bool:
        """True when every defined request of the open window already has a reply
        (lets the harness skip the wait for a protocol timeout)."""
        need = collections.Counter(op for op, _l, _p in self.window if op in REQUESTS)
        for pdu in self.replies:
            op = pdu[0]
            named = pdu[1] if op == ERROR_RSP and len(pdu) >= 2 else REQUEST_OF.get(op)
            if named in need:
                need[named] -= 1
        return all(v <= 0 for v in need.values())


# -----------------------------------------------------------------------------
# Attribute permissions (Part F 3.2.5; error codes Part F 3.4.1.1; GAP Part C 10.3.1)
# -----------------------------------------------------------------------------
P_READABLE = 0x01
P_WRITEABLE = 0x02
P_READ_ENC = 0x04
P_WRITE_ENC = 0x08
P_READ_AUTHN = 0x10
P_WRITE_AUTHN = 0x20
P_READ_AUTHZ = 0x40
P_WRITE_AUTHZ = 0x80


def allowed_read(perm: int, enc: bool, auth: bool) -> bool:
    return bool(perm & P_READABLE) and (enc or not perm & P_READ_ENC) and \
        (auth or not perm & P_READ_AUTHN) and not perm & P_READ_AUTHZ


def allowed_write(perm: int, enc: bool, auth: bool) -> bool:
    return bool(perm & P_WRITEABLE) and (enc or not perm & P_WRITE_ENC) and \
        (auth or not perm & P_WRITE_AUTHN) and not perm & P_WRITE_AUTHZ


def _refusal(not_permitted_code, access_bit, enc_bit, authn_bit, authz_bit, perm, enc, auth):
    codes = set()
    if not perm & access_bit:
        codes.add(not_permitted_code)
    if perm & enc_bit and not enc:
        # unencrypted link: Insufficient Encryption when a key exists, Insufficient
        # Authentication when none does (GAP 10.3.1) - both name the failing requirement
        codes |= {E_INSUFFICIENT_ENCRYPTION, E_INSUFFICIENT_AUTHENTICATION}
    if perm & authn_bit and not auth:
        codes.add(E_INSUFFICIENT_AUTHENTICATION)
        if not enc:
            codes.add(E_INSUFFICIENT_ENCRYPTION)
    if perm & authz_bit:
        codes.add(E_INSUFFICIENT_AUTHORIZATION)
    return codes


def read_refusal_codes(perm: int, enc: bool, auth: bool) -> set:
    """Error codes that name a requirement the link actually fails (empty = allowed)."""
    return _refusal(E_READ_NOT_PERMITTED, P_READABLE, P_READ_ENC, P_READ_AUTHN, P_READ_AUTHZ, perm, enc, auth)


def write_refusal_codes(perm: int, enc: bool, auth: bool) -> set:
    return _refusal(E_WRITE_NOT_PERMITTED, P_WRITEABLE, P_WRITE_ENC, P_WRITE_AUTHN, P_WRITE_AUTHZ, perm, enc, auth)


# -----------------------------------------------------------------------------
# Marker values: every attribute value is a repetition of a 4-byte unit unique to the
# attribute: one tag byte (>= 0x80) followed by three bytes in 0x10..0x73 that spell the
# attribute index in base 100.  The tag can only occur at the start of a unit, so the units
# are self-synchronising: any run of 7 value bytes (whatever the offset of a blob read or the
# truncation of a response) contains one whole unit and identifies the attribute.
# -----------------------------------------------------------------------------
TAG_ORIGINAL = 0xE7
TAG_WRITTEN = 0xD3


def marker_unit(index: int, written: bool = False) -> bytes:
    assert 0 <= index < 1000000
    return bytes([TAG_WRITTEN if written else TAG_ORIGINAL, 0x10 + index % 100, 0x10 + index // 100 % 100,
                  0x10 + index // 10000 % 100])


def marker_value(index: int, length: int, written: bool = False) -> bytes:
    u = marker_unit(index, written)
    return (u * (length // 4 + 1))[:length]


class MarkerTable:
    """(index, written) -> key, for every registered marker."""

    def __init__(self):
        self.table: dict[tuple[int, bool], object] = {}

    def add(self, index: int, written: bool = False, key=None):
        self.table[(index, written)] = index if key is None else key

    def find(self, pdu: bytes) -> set:
        """Keys of all registered markers of which one whole unit appears in pdu."""
        hits = set()
        t = self.table
        for i in range(len(pdu) - 3):
            tag = pdu[i]
            if tag != TAG_ORIGINAL and tag != TAG_WRITTEN:
                continue
            a, b, c = pdu[i + 1] - 0x10, pdu[i + 2] - 0x10, pdu[i + 3] - 0x10
            if 0 <= a < 100 and 0 <= b < 100 and 0 <= c < 100:
                k = t.get((a + 100 * b + 10000 * c, tag == TAG_WRITTEN))
                if k is not None:
                    hits.add(k)
        return hits


# -----------------------------------------------------------------------------
# Link security as a HISTORY of events (used by C11's event-driven histories).
#
# HCI events written out byte by byte from Core Vol 4 Part E 7.7 (packet indicator 0x04, event code,
# parameter length, parameters): these are what a controller sends to the host of the GATT server.
#   7.7.6  Authentication Complete             0x06: Status, Connection_Handle
#   7.7.8  Encryption Change [v1]              0x08: Status, Connection_Handle, Encryption_Enabled
#          Encryption Change [v2]              0x59: Status, Connection_Handle, Encryption_Enabled, Encryption_Key_Size
#   7.7.39 Encryption Key Refresh Complete     0x30: Status, Connection_Handle
# -----------------------------------------------------------------------------
HCI_EVENT_PACKET = 0x04
EV_AUTHENTICATION_COMPLETE = 0x06
EV_ENCRYPTION_CHANGE = 0x08
EV_ENCRYPTION_KEY_REFRESH_COMPLETE = 0x30
EV_ENCRYPTION_CHANGE_V2 = 0x59

ST_SUCCESS = 0x00
ST_AUTHENTICATION_FAILURE = 0x05
ST_PIN_OR_KEY_MISSING = 0x06
ST_LMP_RESPONSE_TIMEOUT = 0x22


def _hci_event(code: int, params: bytes) -> bytes:
    return bytes([HCI_EVENT_PACKET, code, len(params)]) + params


def hci_authentication_complete(handle: int, status: int = ST_SUCCESS) -> bytes:
    return _hci_event(EV_AUTHENTICATION_COMPLETE, bytes([status]) + h(handle))


def hci_encryption_change(handle: int, enabled: int, status: int = ST_SUCCESS) -> bytes:
    return _hci_event(EV_ENCRYPTION_CHANGE, bytes([status]) + h(handle) + bytes([enabled]))


def hci_encryption_change_v2(handle: int, enabled: int, key_size: int, status: int = ST_SUCCESS) -> bytes:
    return _hci_event(EV_ENCRYPTION_CHANGE_V2, bytes([status]) + h(handle) + bytes([enabled, key_size]))


def hci_encryption_key_refresh_complete(handle: int, status: int = ST_SUCCESS) -> bytes:
    return _hci_event(EV_ENCRYPTION_KEY_REFRESH_COMPLETE, bytes([status]) + h(handle))


class LinkSecurity:
    """What a connection's security IS after a history of events, per the spec and nothing else:

      new connection                        not encrypted, not authenticated (whatever an earlier
                                            connection on the same handle was)
      Encryption Change, status success     encrypted := (Encryption_Enabled != 0), whatever the form (v1 / v2)
                                            and whatever key size it carries; the event says nothing about how the
                                            key was obtained, so it does not make the link authenticated
      Encryption Change, status failure     nothing changes
      Encryption Key Refresh Complete       nothing changes (success: the link stays encrypted with a new key)
      Authentication Complete, success      the link is authenticated
      Authentication Complete, failure      nothing changes
      pairing completed                     the link is now encrypted with a key of that pairing: it is authenticated
                                            iff the pairing method gave MITM protection (a Just Works key is not)
      pairing failed                        nothing changes

    An attribute that requires authentication asks for an *authenticated and encrypted* link (GAP Part C
    10.2.1, LE security mode 1 level 3 "authenticated pairing with encryption"), so what the permission
    predicate is given is  auth = authenticated and encrypted."""

    def __init__(self):
        self.encrypted = False
        self.authenticated = False
        self.key_size = 0
        self.trail: list[str] = ['connection']

    def new_connection(self):
        self.encrypted = False
        self.authenticated = False
        self.key_size = 0
        self.trail.append('reconnection')

    def encryption_change(self, status: int, enabled: int, key_size: int | None = None):
        if status == ST_SUCCESS:
            self.encrypted = enabled != 0
            self.key_size = (key_size or 0) if self.encrypted else 0
        self.trail.append(f'enc({status:#x},{enabled},{key_size})')

    def key_refresh(self, status: int):
        self.trail.append(f'refresh({status:#x})')

    def authentication_complete(self, status: int):
        if status == ST_SUCCESS:
            self.authenticated = True
        self.trail.append(f'auth({status:#x})')

    def pairing_complete(self, authenticated_key: bool):
        self.authenticated = bool(authenticated_key)
        self.trail.append(f'paired({"mitm" if authenticated_key else "just-works"})')

    def pairing_failed(self):
        self.trail.append('pairing-failed')

    @property
    def enc(self) -> bool:
        return self.encrypted

    @property
    def auth(self) -> bool:
        return self.authenticated and self.encrypted


def unmet_requirement(perm: int, enc: bool, auth: bool, write: bool = False):
    """Which security requirement of the read (write) side the link fails: 'encryption', 'authentication',
    'authorization' (the first in that order), or None."""
    e, a, z = (P_WRITE_ENC, P_WRITE_AUTHN, P_WRITE_AUTHZ) if write else (P_READ_ENC, P_READ_AUTHN, P_READ_AUTHZ)
    if perm & e and not enc:
        return 'encryption'
    if perm & a and not auth:
        return 'authentication'
    if perm & z:
        return 'authorization'
    return None
