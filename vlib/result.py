"""Per-case result accumulator used by every check."""
from __future__ import annotations

import hashlib
import json


def short(x, n=400):
    if isinstance(x, (bytes, bytearray)):
        x = bytes(x).hex()
    s = x if isinstance(x, str) else repr(x)
    return s if len(s) <= n else s[: n // 2] + f'...[{len(s)} chars]...' + s[-n // 2:]


class R:
    def __init__(self, case):
        self.case = case
        self.evaluations = 0
        self.sigs: set[str] = set()
        self.events: dict[str, int] = {}
        self.violations: list[dict] = []
        self.sample = None
        self.sched: set[str] = set()
        self.extra: dict = {}
        self._vkeys: dict[str, int] = {}

    def ev(self, name: str, n: int = 1):
        self.events[name] = self.events.get(name, 0) + n

    def evals(self, n: int = 1):
        self.evaluations += n

    def sig(self, *parts):
        """Record a distinct non-trivial case signature."""
        h = hashlib.sha1(repr(parts).encode()).hexdigest()[:16]
        self.sigs.add(h)

    def bad(self, key: str, detail, trace_tail=None):
        n = self._vkeys.get(key, 0)
        self._vkeys[key] = n + 1
        if n >= 5:
            return
        self.violations.append(
            {'key': key, 'detail': short(detail, 1200), 'trace_tail': trace_tail}
        )

    def check(self, cond: bool, key: str, detail=''):
        self.ev('oracle_evals')
        if not cond:
            self.bad(key, detail() if callable(detail) else detail)
        return cond

    def add_extra_list(self, name: str, item):
        l = self.extra.setdefault(name, [])
        if item not in l and len(l) < 100:
            l.append(item)

    def to_json(self):
        return {
            'case': self.case,
            'evaluations': max(self.evaluations, 1),
            'sigs': sorted(self.sigs),
            'events': self.events,
            'violations': self.violations,
            'sample': self.sample,
            'sched': sorted(self.sched),
            'extra': self.extra,
        }
