"""Shared harness of C10 / C11.

Device 0 of the rig is a real bumble Device whose GATT server serves a *generated*
attribute database; device 1 is a RawPeer that speaks ATT by hand on the fixed channel
(CID 4) and, when asked, on an enhanced ATT bearer: an L2CAP enhanced credit-based
channel on PSM 0x27 that the harness opens and drives frame by frame.

Every server->client ATT PDU is fed, in arrival order, to one ref_att.Pairing
automaton per bearer; every client->server PDU is fed to it at emission.
"""
from __future__ import annotations

import asyncio
import struct

from . import ref_att as ra
from . import ref_l2cap as rl
from . import rig as vrig
from . import vloop

ATT_CID = 0x0004
EATT_PSM = 0x0027
BASE_UUID_LE = bytes.fromhex('FB349B5F80000080001000000000')[:12]   # + 4 bytes (LE) = 128 bit

T_PRIMARY = bytes.fromhex('0028')
T_SECONDARY = bytes.fromhex('0128')
T_INCLUDE = bytes.fromhex('0228')
T_CHARACTERISTIC = bytes.fromhex('0328')
T_CCCD = bytes.fromhex('0229')


def wire_type(uuid_le: bytes) -> bytes:
    """How an attribute type appears in an ATT PDU (32-bit types are sent as 128-bit)."""
    if len(uuid_le) == 4:
        return BASE_UUID_LE + uuid_le
    return uuid_le


# -----------------------------------------------------------------------------
# Attribute database
# -----------------------------------------------------------------------------
class AttrModel:
    """What the harness knows about one attribute it put into the server."""
    __slots__ = ('index', 'handle', 'end', 'type', 'perm', 'value', 'kind', 'role', 'obj', 'state',
                 'marker', 'svc')

    def __init__(self, **kw):
        self.end = 0
        self.state = {'reads': 0, 'writes': []}
        self.marker = False
        self.svc = None
        for k, v in kw.items():
            setattr(self, k, v)

    def current_value(self):
        """Server-side value now (static attributes only)."""
        return self.obj.value

    def __repr__(self):
        return (f'<{self.role} h={self.handle:#06x} perm={self.perm:#04x} kind={self.kind} '
                f'len={len(self.value) if self.value is not None else None}>')


# -----------------------------------------------------------------------------
# Other ways of building the same database (C11: "the permissions that were asked for")
# -----------------------------------------------------------------------------
ROUTES = ('objects', 'strings', 'adapter', 'template', 'config-dict', 'config-file')
PERMISSION_NAMES = ['READABLE', 'WRITEABLE', 'READ_REQUIRES_ENCRYPTION', 'WRITE_REQUIRES_ENCRYPTION',
                    'READ_REQUIRES_AUTHENTICATION', 'WRITE_REQUIRES_AUTHENTICATION',
                    'READ_REQUIRES_AUTHORIZATION', 'WRITE_REQUIRES_AUTHORIZATION']      # bit 0 .. bit 7 (att.py)
PROPERTY_NAMES = ['BROADCAST', 'READ', 'WRITE_WITHOUT_RESPONSE', 'WRITE', 'NOTIFY', 'INDICATE',
                  'AUTHENTICATED_SIGNED_WRITES', 'EXTENDED_PROPERTIES']                 # bit 0 .. bit 7 (Part G 3.3.1.1)


def permission_text(perm: int, salt: int = 0):
    """The permission byte written the way the documentation / the JSON device configurations write it: flag
    names separated by ',' or by '|', in any order. A byte without any flag has no such spelling: the number."""
    names = [n for i, n in enumerate(PERMISSION_NAMES) if perm >> i & 1]
    if not names:
        return 0
    k = salt % len(names)
    names = names[k:] + names[:k]
    if salt % 3 == 2:
        names.reverse()
    return ('|' if salt % 2 else ',').join(names)


def property_text(props: int) -> str:
    return ','.join(n for i, n in enumerate(PROPERTY_NAMES) if props >> i & 1)


def uuid_text(uuid_le: bytes, dashes: bool = True) -> str:
    """UUID strings are big-endian hex, 128-bit ones optionally 8-4-4-4-12."""
    hx = bytes(reversed(uuid_le)).hex().upper()
    if len(uuid_le) == 16 and dashes:
        return '-'.join([hx[0:8], hx[8:12], hx[12:16], hx[16:20], hx[20:32]])
    return hx


def config_services(spec, salt: int = 0):
    """`gatt_services` of a device configuration (the dict / JSON form the apps load) for the value
    attributes and descriptors of `spec`: permissions as strings. What this form cannot say (values, secondary
    services, includes) is not used by the specs that take this route."""
    out = []
    k = salt
    for s in spec:
        chars = []
        for c in s['chars']:
            k += 1
            descs = []
            for d in c.get('descs', ()):
                k += 1
                descs.append({'descriptor_type': uuid_text(bytes.fromhex(d['uuid']), k % 2 == 0),
                              'permissions': permission_text(d['perm'], k)})
            entry = {'uuid': uuid_text(bytes.fromhex(c['uuid']), k % 2 == 1), 'properties': property_text(c['props']),
                     'permissions': permission_text(c['perm'], k)}
            if descs or k % 2:
                entry['descriptors'] = descs
            chars.append(entry)
        out.append({'uuid': uuid_text(bytes.fromhex(s['uuid'])), 'characteristics': chars})
    return out


def build_db(device, spec, clock_sleep=0.05, route='objects', salt=0):
    """Adds the services described by `spec` (JSON-able) to device.gatt_server.
    Returns the list of AttrModel for *every* attribute of the server, in handle order
    (attributes bumble created by itself - GAP/GATT services, CCCDs - included).

    spec = [ {'uuid': hex LE, 'primary': bool, 'includes': [service positions],
              'perm': int|None (override on the declaration after construction),
              'chars': [ {'uuid': hex LE, 'props': int, 'perm': int, 'len': int, 'index': int,
                          'kind': 'static'|'dyn'|'dyn-v2'|'dyn-async'|'dyn-atterr'|'dyn-raises',
                          'decl_perm': int|None,
                          'descs': [ {'uuid': hex LE, 'perm': int, 'len': int, 'index': int} ]} ] } ]
    """
    from bumble import att, gatt
    from bumble.core import UUID

    server = device.gatt_server
    created = {}      # id(bumble attribute) -> partially filled model

    def make_value(m: AttrModel):
        st = m.state
        val = m.value
        if m.kind == 'static':
            return val
        if m.kind in ('dyn', 'dyn-v2'):
            def rd(_c):
                st['reads'] += 1
                return val

            def wr(_c, v):
                st['writes'].append(bytes(v))
            return (att.AttributeValueV2 if m.kind == 'dyn-v2' else att.AttributeValue)(read=rd, write=wr)
        if m.kind == 'dyn-async':
            async def rd(_c):
                await asyncio.sleep(clock_sleep)
                st['reads'] += 1
                return val

            async def wr(_c, v):
                await asyncio.sleep(clock_sleep)
                st['writes'].append(bytes(v))
            return att.AttributeValue(read=rd, write=wr)
        if m.kind == 'dyn-atterr':
            def rd(_c):
                st['reads'] += 1
                raise att.ATT_Error(0x80)

            def wr(_c, v):
                raise att.ATT_Error(0x81)
            return att.AttributeValue(read=rd, write=wr)
        if m.kind == 'dyn-raises':
            def rd(_c):
                st['reads'] += 1
                raise ValueError('application read callback failed')

            def wr(_c, v):
                raise ValueError('application write callback failed')
            return att.AttributeValue(read=rd, write=wr)
        raise ValueError(m.kind)

    def perm_arg(perm, k):
        """objects: the IntFlag; other routes: the string spelling (a byte without flags has none)"""
        if route == 'strings':
            t = permission_text(perm, salt + k)
            return t if isinstance(t, str) else att.Attribute.Permissions(perm)
        return att.Attribute.Permissions(perm)

    def adapt(cobj, cm, k):
        """adapter route: the characteristic the application registers is an adapter around the one that was
        given the permissions (gatt_adapters.py: the adapter copies uuid, properties, permissions, value and
        descriptors of the characteristic it wraps)."""
        from bumble import gatt_adapters
        if cm.kind == 'static' and len(cm.value) == 4 and k % 2 == 0:
            # a packed adapter: the application-side value is the number, the wire value its 4 bytes (a marker
            # unit); a written value of another length cannot be decoded
            cobj.value = struct.unpack('<I', cm.value)[0]
            cm.state['adapter'] = 'packed'
            return gatt_adapters.PackedCharacteristicAdapter(cobj, '<I')
        if k % 3 == 0:
            cm.state['adapter'] = 'base'
            return gatt_adapters.CharacteristicAdapter(cobj)
        cm.state['adapter'] = 'delegated'
        return gatt_adapters.DelegatedCharacteristicAdapter(cobj, encode=lambda v: bytes(v), decode=lambda v: bytes(v))

    k = 0
    services = []
    for s in spec:
        chars = []
        for ci, c in enumerate(s['chars']):
            k += 1
            descs = []
            for di, d in enumerate(c.get('descs', ())):
                k += 1
                dm = AttrModel(index=d['index'], handle=0, type=wire_type(bytes.fromhex(d['uuid'])),
                               perm=d['perm'], value=ra.marker_value(d['index'], d['len']),
                               kind=d.get('kind', 'static'), role='descriptor', marker=d['len'] >= 4)
                if route in ('config-dict', 'config-file'):
                    created[('d', len(services), ci, di)] = dm
                    continue
                if route == 'strings' and k % 2:
                    dobj = gatt.Descriptor(attribute_type=uuid_text(bytes.fromhex(d['uuid'])),
                                           permissions=perm_arg(d['perm'], k), value=make_value(dm))
                else:
                    dobj = gatt.Descriptor(UUID.from_bytes(bytes.fromhex(d['uuid'])), perm_arg(d['perm'], k),
                                           make_value(dm))
                dm.obj = dobj
                created[id(dobj)] = dm
                descs.append(dobj)
            cm = AttrModel(index=c['index'], handle=0, type=wire_type(bytes.fromhex(c['uuid'])),
                           perm=c['perm'], value=ra.marker_value(c['index'], c['len']), kind=c['kind'],
                           role='value', marker=c['len'] >= 4)
            cm.state['decl_perm'] = c.get('decl_perm')
            if route in ('config-dict', 'config-file'):
                created[('c', len(services), ci)] = cm
                continue
            if route == 'strings' and k % 2:
                cobj = gatt.Characteristic(uuid=uuid_text(bytes.fromhex(c['uuid'])),
                                           properties=gatt.Characteristic.Properties.from_string(property_text(c['props']))
                                           if c['props'] else gatt.Characteristic.Properties(0),
                                           permissions=perm_arg(c['perm'], k), value=make_value(cm), descriptors=descs)
            else:
                cobj = gatt.Characteristic(UUID.from_bytes(bytes.fromhex(c['uuid'])),
                                           gatt.Characteristic.Properties(c['props']),
                                           perm_arg(c['perm'], k), make_value(cm), descs)
            if route == 'adapter':
                cobj = adapt(cobj, cm, k)
            cm.obj = cobj
            created[id(cobj)] = cm
            chars.append(cobj)
        if route in ('config-dict', 'config-file'):
            # Device.__init__ has built the services from the configuration: find what it made of each entry
            # (service by its unique UUID, characteristics and descriptors by position) and give the attributes
            # their values, which this form of configuration cannot carry
            want = UUID.from_bytes(bytes.fromhex(s['uuid']))
            sobj = next(x for x in server.services if x.uuid == want)
            if len(sobj.characteristics) != len(s['chars']):
                raise RuntimeError('configuration route: characteristic count differs')
            for ci, (c, cobj) in enumerate(zip(s['chars'], sobj.characteristics)):
                cm = created.pop(('c', len(services), ci))
                cobj.value = make_value(cm)
                cm.obj = cobj
                created[id(cobj)] = cm
                own = [x for x in cobj.descriptors]
                if len(own) < len(c.get('descs', ())):
                    raise RuntimeError('configuration route: descriptor count differs')
                for di, dobj in enumerate(own[:len(c.get('descs', ()))]):
                    dm = created.pop(('d', len(services), ci, di))
                    dobj.value = make_value(dm)
                    dm.obj = dobj
                    created[id(dobj)] = dm
            services.append(sobj)
            continue
        if route == 'template':
            cls = type('GeneratedTemplateService', (gatt.TemplateService,),
                       {'UUID': UUID.from_bytes(bytes.fromhex(s['uuid']))})
            sobj = cls(chars, s.get('primary', True), [services[i] for i in s.get('includes', ())])
        else:
            sobj = gatt.Service(UUID.from_bytes(bytes.fromhex(s['uuid'])), chars, primary=s.get('primary', True),
                                included_services=[services[i] for i in s.get('includes', ())])
        services.append(sobj)
    if route == 'template':
        # the application-facing entry point: Device.add_services
        device.add_services([sobj for sobj in services if sobj not in server.services])
    for sobj in services:
        if sobj not in server.services:
            server.add_service(sobj)
    for s, sobj in zip(spec, services):
        if s.get('perm') is not None:
            sobj.permissions = att.Attribute.Permissions(s['perm'])
    # one model per attribute actually in the server, in handle order
    models = []
    cur_svc = None
    for a in server.attributes:
        m = created.get(id(a))
        t = a.type.to_pdu_bytes()
        if m is None:
            if isinstance(a, gatt.Service):
                role = 'service'
            elif isinstance(a, gatt.IncludedServiceDeclaration):
                role = 'include'
            elif isinstance(a, gatt.CharacteristicDeclaration):
                role = 'chardecl'
                cmodel = created.get(id(a.characteristic))
                if cmodel is not None and cmodel.state.get('decl_perm') is not None:
                    a.permissions = att.Attribute.Permissions(cmodel.state['decl_perm'])
            elif isinstance(a, gatt.Characteristic):
                role = 'builtin-value'
            elif t == T_CCCD:
                role = 'cccd'
            else:
                role = 'builtin-descriptor'
            static = isinstance(a.value, (bytes, bytearray))
            m = AttrModel(index=-1, handle=a.handle, type=t, perm=int(a.permissions),
                          value=bytes(a.value) if static else None,
                          kind='static' if static else 'builtin-dyn', role=role, obj=a)
        asked = m.perm if id(a) in created else None
        m.handle = a.handle
        m.end = a.end_group_handle
        m.perm = int(a.permissions)
        if asked is not None:
            # what the application ASKED for is what the oracle judges by; what the server object holds is
            # kept aside (equal, unless the construction route lost it)
            m.state['stored_perm'] = m.perm
            m.perm = asked
        if m.role == 'service':
            cur_svc = m
        m.svc = cur_svc
        models.append(m)
    return models


# -----------------------------------------------------------------------------
# Bearers driven by hand
# -----------------------------------------------------------------------------
class FixedBearer:
    kind = 'att'

    def __init__(self, hs: 'Harness'):
        self.hs = hs
        self.rx: list[bytes] = []
        self.pairing = ra.Pairing('att', ra.DEFAULT_MTU)
        self.bumble_bearer = hs.server_conn
        self.dead = False

    def send(self, pdu: bytes, label: str = ''):
        self.pairing.client(pdu, label)
        self.hs.raw.send(self.hs.raw_conn.handle, ATT_CID, pdu)

    def on_pdu(self, pdu: bytes):
        self.rx.append(pdu)
        self.pairing.server(pdu, self.hs.r, self.hs.ctx)


class EattBearer:
    """Harness end of one enhanced credit-based channel carrying ATT."""
    kind = 'eatt'

    def __init__(self, hs: 'Harness', my_cid: int, my_mtu: int, my_mps: int):
        self.hs = hs
        self.my_cid, self.my_mtu, self.my_mps = my_cid, my_mtu, my_mps
        self.peer_cid = self.peer_mtu = self.peer_mps = 0
        self.tx_credits = 0
        self.granted = 0
        self.rx: list[bytes] = []
        self.txq: list[bytes] = []
        self._sdu = None
        self._need = 0
        self.frames_in = 0
        self.pairing = None
        self.bumble_bearer = None
        self.ident = 0x20
        self.dead = False
        self.server_writes: list[bytes] = []   # ATT PDUs the server handed to the channel, not yet seen
        self._off = 0                           # bytes of server_writes[0] already seen in earlier SDUs

    def next_ident(self):
        self.ident = self.ident % 255 + 1
        return self.ident

    def send(self, pdu: bytes, label: str = ''):
        self.pairing.client(pdu, label)
        if not pdu:
            return    # a zero-length SDU cannot be expressed usefully; counted by the automaton
        sdu = struct.pack('<H', len(pdu)) + pdu
        self.txq += [sdu[i:i + self.peer_mps] for i in range(0, len(sdu), self.peer_mps)]
        self.pump()

    def pump(self):
        while self.txq and self.tx_credits > 0:
            self.tx_credits -= 1
            self.hs.raw.send(self.hs.raw_conn.handle, self.peer_cid, self.txq.pop(0))

    def grant(self, n: int):
        self.granted += n
        self.hs.raw.send(self.hs.raw_conn.handle, rl.LE_SIG,
                         rl.sig(rl.CODE_LE_CREDIT, self.next_ident(), struct.pack('<HH', self.my_cid, n)))

    def close(self):
        """The client closes this enhanced bearer (L2CAP Disconnection Request); the ACL link stays up."""
        self.hs.raw.send(self.hs.raw_conn.handle, rl.LE_SIG,
                         rl.sig(rl.CODE_DISC_REQ, self.next_ident(), struct.pack('<HH', self.peer_cid, self.my_cid)))
        self.dead = True
        if self in self.hs.eatt:
            self.hs.eatt.remove(self)

    def on_frame(self, payload: bytes):
        self.frames_in += 1
        self.granted -= 1
        r = self.hs.r
        r.ev('eatt_frames_in')
        if len(payload) > self.my_mps:
            r.bad('eatt/mps-exceeded', f'K-frame of {len(payload)} bytes > my MPS {self.my_mps}')
        if self._sdu is None:
            if len(payload) < 2:
                r.bad('eatt/short-first-frame', f'first K-frame of {len(payload)} bytes')
                return
            self._need = struct.unpack_from('<H', payload, 0)[0]
            self._sdu = bytearray(payload[2:])
        else:
            self._sdu += payload
        if len(self._sdu) >= self._need:
            sdu = bytes(self._sdu)
            self._sdu = None
            if len(sdu) > self._need:
                r.bad('eatt/sdu-overrun', f'SDU announces {self._need} bytes, carries {len(sdu)}')
            if len(sdu) > self.my_mtu:
                r.bad('eatt/l2cap-mtu-exceeded', f'SDU of {len(sdu)} bytes > my L2CAP MTU {self.my_mtu}')
            self.deliver(sdu)
        if self.granted < 8:
            self.grant(64)


    def deliver(self, sdu: bytes):
        """One SDU = one ATT PDU (Part G 5.3.2 / Part A 3.4: SDU boundaries are message
        boundaries). The tap on the server channel's write() is only used to *name* what went
        wrong when an SDU is not exactly one PDU the server wrote: the channel treated the PDUs
        as a byte stream (several PDUs, or pieces of them, in one SDU), or one PDU larger than the
        L2CAP MTU was split over several SDUs. The pairing automaton is then fed with the PDUs as
        the server wrote them, so that the merge is reported once under its own key."""
        r = self.hs.r
        w = self.server_writes
        if w and self._off == 0 and sdu == w[0]:
            w.pop(0)
            self.rx.append(sdu)
            self.pairing.server(sdu, r, self.hs.ctx)
            return
        data = sdu
        touched = []
        completed = []
        while data and w:
            rest = w[0][self._off:]
            n = min(len(rest), len(data))
            if data[:n] != rest[:n]:
                break
            touched.append(w[0])
            data = data[n:]
            if n == len(rest):
                completed.append(w.pop(0))
                self._off = 0
            else:
                self._off += n
        if data or not touched:
            # not explainable from what the server wrote: judge the SDU as it is
            self.server_writes.clear()
            self._off = 0
            self.rx.append(sdu)
            self.pairing.server(sdu, r, self.hs.ctx)
            return
        r.ev('oracle_evals')
        if len(touched) >= 2:
            r.bad('eatt/pdus-merged-into-one-sdu',
                  f'one SDU of {len(sdu)} bytes on an enhanced bearer carries (pieces of) {len(touched)} ATT PDUs '
                  f'({[p[:6].hex() for p in touched[:6]]}); the server had no credits when it wrote them; {self.hs.ctx}')
        for p in completed:
            self.rx.append(p)
            self.pairing.server(p, r, self.hs.ctx + (' (PDU spread over several SDUs)' if len(p) > len(sdu) else ''))


class Harness:
    def __init__(self, r, rg, raw, server_conn, raw_conn, models):
        self.r = r
        self.rg = rg
        self.raw = raw
        self.server_conn = server_conn
        self.raw_conn = raw_conn
        self.models = models
        self.server = rg.devices[0].gatt_server
        self.device = rg.devices[0]
        self.ctx = ''
        self.fixed = FixedBearer(self)
        self.eatt: list[EattBearer] = []
        self.by_handle = {m.handle: m for m in models}
        self.other_cid_pdus = 0
        self._probing = False
        raw.handlers.append(self._on_pdu)

    # -- construction ---------------------------------------------------------
    @classmethod
    async def create(cls, r, seed: int, spec, *, eatt='off', eatt_spec=None, raw_central=True, max_delay=0,
                     le_acl_len=None, server_max_mtu=None, db_route='objects'):
        """eatt: 'off' | 'config' (DeviceConfiguration.eatt_enabled) | 'manual'
        (Server.register_eatt(spec) with eatt_spec = dict(mtu, mps, max_credits)).
        db_route: how the database is handed to bumble (ROUTES): Service / Characteristic / Descriptor objects,
        the same with permission strings, characteristic adapters, TemplateService subclasses through
        Device.add_services, or `gatt_services` of a device configuration loaded from a dict / a JSON file."""
        from bumble import l2cap
        from bumble.device import DeviceConfiguration
        from bumble import hci

        vrig.seed_entropy(seed)
        if db_route in ('config-dict', 'config-file'):
            as_dict = {'name': 'dev0', 'address': 'E0:E0:E0:E0:E0:E0', 'eatt_enabled': eatt == 'config',
                       'gatt_services': config_services(spec, seed)}
            if db_route == 'config-file':
                import json
                import os
                import tempfile
                fd, path = tempfile.mkstemp(suffix='.json', prefix='verif-device-config-')
                try:
                    with os.fdopen(fd, 'w', encoding='utf-8') as f:
                        json.dump(as_dict, f)
                    cfg = DeviceConfiguration.from_file(path)
                finally:
                    os.unlink(path)
            else:
                cfg = DeviceConfiguration.from_dict(as_dict)
        else:
            cfg = DeviceConfiguration()
        cfg.address = hci.Address('E0:E0:E0:E0:E0:E0', hci.Address.RANDOM_DEVICE_ADDRESS)
        cfg.name = 'dev0'
        cfg.eatt_enabled = eatt == 'config'
        rg = vrig.Rig(2, seed=seed, max_delay=max_delay, configs=[cfg, None],
                      le_acl_len=le_acl_len)
        dev = rg.devices[0]
        if server_max_mtu is not None:
            dev.gatt_server.max_mtu = server_max_mtu
        if eatt == 'manual':
            dev.gatt_server.register_eatt(l2cap.LeCreditBasedChannelSpec(psm=EATT_PSM, **eatt_spec))
        models = build_db(dev, spec, route=db_route, salt=seed)
        await rg.power_on()
        if raw_central:
            raw_conn, server_conn = await rg.connect_le(1, 0)
        else:
            server_conn, raw_conn = await rg.connect_le(0, 1)
        await rg.quiesce()
        raw = vrig.RawPeer(rg, 1)
        raw.take()
        return cls(r, rg, raw, server_conn, raw_conn, models)

    async def reconnect(self, raw_central: bool, who_disconnects: str = 'raw'):
        """Drop the LE link (from either end) and make a new one: a NEW connection, whose fixed bearer
        starts again at the default ATT_MTU with no subscriptions; enhanced bearers died with the link."""
        conn = self.raw_conn if who_disconnects == 'raw' else self.server_conn
        await vloop.vwait(conn.disconnect())
        await self.rg.quiesce()
        for b in self.eatt:
            b.dead = True
        self.eatt = []
        if raw_central:
            self.raw_conn, self.server_conn = await self.rg.connect_le(1, 0)
        else:
            self.server_conn, self.raw_conn = await self.rg.connect_le(0, 1)
        await self.rg.quiesce()
        self.fixed.dead = True
        self.old_fixed_rx = getattr(self, 'old_fixed_rx', []) + self.fixed.rx
        self.fixed = FixedBearer(self)
        return self.fixed

    def _on_pdu(self, _handle, cid, payload):
        if cid == ATT_CID:
            self.fixed.on_pdu(payload)
            return
        for b in self.eatt:
            if cid == b.my_cid:
                b.on_frame(payload)
                return
        if cid == rl.LE_SIG:
            for code, _ident, data in rl.parse_signalling(payload):
                if code == rl.CODE_LE_CREDIT and len(data) >= 4:
                    c, n = struct.unpack_from('<HH', data, 0)
                    for b in self.eatt:
                        if b.peer_cid == c:
                            b.tx_credits += n
                            b.pump()
            return
        self.other_cid_pdus += 1

    async def open_eatt(self, my_cid=0x0055, my_mtu=185, my_mps=64, credits=40):
        """Enhanced credit-based connection request (Part A 4.25) for one channel on the
        EATT PSM. Returns the bearer or None when the server refused."""
        b = EattBearer(self, my_cid, my_mtu, my_mps)
        ident = b.next_ident()
        b.granted = credits
        self.raw.send(self.raw_conn.handle, rl.LE_SIG,
                      rl.sig(rl.CODE_ECOC_REQ, ident, struct.pack('<HHHHH', EATT_PSM, my_mtu, my_mps, credits, my_cid)))
        rsp = await self.raw.wait_for(
            lambda _h, cid, p: cid == rl.LE_SIG and p and p[0] == rl.CODE_ECOC_RSP and p[1] == ident)
        if rsp is None:
            return None
        data = rsp[2][4:]
        if len(data) < 10:
            return None
        mtu, mps, cr, result = struct.unpack_from('<HHHH', data, 0)
        dcid = struct.unpack_from('<H', data, 8)[0]
        if result != 0 or dcid == 0:
            return None
        b.peer_cid, b.peer_mtu, b.peer_mps, b.tx_credits = dcid, mtu, mps, cr
        # Part G 5.3.1: ATT_MTU of an enhanced bearer = min of the two MTU fields, fixed
        b.pairing = ra.Pairing('eatt', min(my_mtu, mtu), mtu_fixed=True)
        chans = self.device.l2cap_channel_manager.le_coc_channels.get(self.server_conn.handle, {})
        b.bumble_bearer = ch = chans.get(my_cid)
        if ch is not None:
            real_write = ch.write

            def tapped_write(data, _b=b, _real=real_write):
                if data:
                    _b.server_writes.append(bytes(data))
                return _real(data)
            ch.write = tapped_write
        self.eatt.append(b)
        await self.rg.quiesce()
        return b

    # -- driving --------------------------------------------------------------
    @property
    def bearers(self):
        return [self.fixed] + self.eatt

    def set_link(self, enc: bool, auth: bool):
        self.server_conn.encryption = 1 if enc else 0
        self.server_conn.authenticated = bool(auth)

    # -- link security through the events the stack receives (C11 histories) -------
    async def controller_event(self, packet: bytes):
        """One HCI event packet (indicator byte included), exactly as the server's controller would hand
        it to the host: through the tapped controller->host pipe of device 0 (logged, delayed and ordered
        like every other packet of that pipe), then quiescence."""
        self.rg.c2h[0].on_packet(bytes(packet))
        await self.rg.quiesce()

    async def pairing_completed(self, authenticated_key: bool, sc: bool = True):
        """What the SMP session does when a pairing ends well: Device.on_pairing(connection, identity
        address, keys, sc). The keys say whether the pairing method gave MITM protection."""
        from bumble.keys import PairingKeys
        keys = PairingKeys()
        keys.ltk = PairingKeys.Key(value=bytes(range(16)), authenticated=bool(authenticated_key))
        self.device.on_pairing(self.server_conn, None, keys, sc)
        await self.rg.quiesce()

    async def pairing_failed(self, reason: int = 0x05):
        """...and when it does not: Device.on_pairing_failure(connection, reason)."""
        self.device.on_pairing_failure(self.server_conn, reason)
        await self.rg.quiesce()

    def stack_link_state(self):
        """(encryption, authenticated) as the server's Connection object has them - for the detail text of
        a violation only, never for a verdict."""
        c = self.server_conn
        return getattr(c, 'encryption', None), getattr(c, 'authenticated', None)

    async def settle(self, force_wait: bool = False):
        """Quiescence. When a request is still unanswered (or force_wait), let 31 virtual
        seconds pass first (a GATT client would time out at 30 s), so that replies produced
        after application-level sleeps are still seen."""
        await self.rg.quiesce()
        if force_wait or not all(b.pairing.complete() for b in self.bearers):
            await asyncio.sleep(31)
            await self.rg.quiesce()

    async def exchange(self, bearer, pdu: bytes, label: str = '', ctx: str = '', wait: bool = True):
        """One client PDU in its own window. Returns the server PDUs that arrived."""
        return await self.burst(bearer, [(pdu, label)], ctx, wait)

    async def burst(self, bearer, pdus, ctx: str = '', wait: bool = True):
        self.ctx = ctx
        start = len(bearer.rx)
        exc_before = len(self.rg.exceptions)
        for pdu, label in pdus:
            bearer.send(pdu, label)
        if wait:
            await self.settle()
        else:
            await self.rg.quiesce()
        for b in self.bearers:
            if b.pairing.close(self.r, ctx):
                # a request timed out: for a client this bearer is finished (Part F 3.3.3)
                b.dead = True
        if len(self.rg.exceptions) > exc_before and not bearer.dead and not self._probing:
            # something in that window made the stack raise: "the next request after garbage"
            # must still be answered (handle 3 = Device Name of the built-in GAP service)
            self._probing = True
            self.r.ev('probes_after_stack_exception')
            try:
                await self.burst(bearer, [(ra.read(3), 'after-stack-exception')],
                                 f'probe after a window that raised {self.rg.exceptions[-1][1][:80]}; ' + ctx)
            finally:
                self._probing = False
        return bearer.rx[start:]

    @property
    def alive(self):
        return [b for b in self.bearers if not b.dead]

    async def finish(self):
        """Late replies, stack exceptions, and a cross-check of what the RawPeer saw
        against the independent reassembly of device 0's HCI output."""
        self.ctx = 'final settle'
        await self.settle(force_wait=True)
        for b in self.bearers:
            b.pairing.close(self.r, 'final settle')
        r = self.r
        wire = [p for (_s, _d, _dir, _h, cid, p) in vrig.l2cap_log(self.rg.hci_log, dev=0, direction=vrig.H2C)
                if cid == ATT_CID]
        r.ev('oracle_evals')
        seen = getattr(self, 'old_fixed_rx', []) + self.fixed.rx
        if wire != seen:
            r.bad('harness/wire-log-mismatch',
                  f'{len(wire)} ATT PDUs left device 0 on CID 4, raw peer saw {len(seen)}')
        r.ev('stack_exceptions', len(self.rg.exceptions))
        return list(self.rg.exceptions)
