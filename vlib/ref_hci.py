"""Independent reference codec for bumble's HCI field-spec language (C01).

Nothing in here imports bumble or calls any bumble encoder/decoder.  The
*declarations* are read from the classes under test (dataclass field metadata key
'bumble.hci': spec, list_begin, list_end; the names of the address / coding-format
parsers; the size/byteorder cells captured by SpecableEnum/SpecableFlag.type_spec;
the `padded_size` keyword of the length-prefixed serializer).  What those
declarations *mean on the wire* is written down here from the Bluetooth Core
specification (Vol 4 Part E 5.4: little-endian unless stated, BD_ADDR 6 octets LSB
first, arrays = Num_X octet followed by the items) and from the documented meaning of
the spec language in bumble/hci.py ("Field specification can be: ...").

Plain value model used by the generator, the encoder and the decoder:
    uint / sint            int
    bytes / v / rest / lpv bytes
    addr                   (bytes6, type_int | None)
    coding                 (codec_id, company_id, vendor_codec_id)
    object                 dict name -> plain
    group / maskgroup      every sub-field name appears in the parent dict with a
                           list of per-item plain values (struct of arrays)
"""
from __future__ import annotations

import dataclasses
import functools

META_KEY = 'bumble.hci'


class Unsupported(Exception):
    """The class uses a declaration this reference does not understand."""


class RefDecodeError(Exception):
    pass


class FD:
    """Field descriptor."""

    __slots__ = ('name', 'kind', 'size', 'big', 'enum', 'sub', 'addr', 'cls', 'pad',
                 'custom', 'mask', 'choices')

    def __init__(self, name, kind, size=0, big=False, enum=None, sub=None, addr=None,
                 cls=None, pad=0, custom=False, mask=None):
        self.name = name
        self.kind = kind      # uint sint bytes v rest lpv addr coding object group maskgroup
        self.size = size      # width in octets for uint/sint/bytes
        self.big = big
        self.enum = enum      # declared enum / flag class (for building values), or None
        self.sub = sub        # sub descriptors (object, group, maskgroup)
        self.addr = addr      # 'public' | 'random' | 'preceded' | 'untyped'
        self.cls = cls        # class of nested object
        self.pad = pad        # lpv: total padded size
        self.custom = custom  # class-specific serializer/parser involved
        self.mask = mask      # maskgroup: name of the field whose popcount is the item count
        self.choices = None   # optional restriction of generated values

    @property
    def tag(self):
        """Mechanism-level name of the codec path this field goes through."""
        k = self.kind
        if k in ('uint', 'sint'):
            t = f'{k}{self.size * 8}' + ('be' if self.big else '')
            return t
        if k == 'bytes':
            return 'bytes-fixed' + ('-custom' if self.custom else '')
        if k == 'addr':
            return 'addr-' + self.addr
        return k

    def __repr__(self):
        return f'<{self.name}:{self.tag}>'


# ---------------------------------------------------------------------------------
# reading the declarations
# ---------------------------------------------------------------------------------
def _closure_vars(fn):
    code = getattr(fn, '__code__', None)
    cells = getattr(fn, '__closure__', None)
    if code is None or not cells:
        return {}
    out = {}
    for name, cell in zip(code.co_freevars, cells):
        try:
            out[name] = cell.cell_contents
        except ValueError:
            pass
    return out


def _owner_name(fn):
    owner = getattr(fn, '__self__', None)
    if owner is None:
        return None
    return getattr(owner, '__name__', type(owner).__name__)


def _is_enum_typespec(fn):
    qn = getattr(fn, '__qualname__', '')
    return qn.startswith(('SpecableEnum.type_spec', 'SpecableFlag.type_spec'))


def _annotation_says_address(ann):
    if ann is None:
        return False
    s = ann if isinstance(ann, str) else getattr(ann, '__name__', repr(ann))
    s = s.replace(' ', '')
    return s in ('Address', 'hci.Address', 'bumble.hci.Address')


def describe_spec(name, spec, annotation=None):
    """Translate one declared field spec into a descriptor."""
    if isinstance(spec, bool):
        raise Unsupported(f'{name}: bool spec')
    if isinstance(spec, int):
        if spec in (1, 2, 3, 4):
            return FD(name, 'uint', size=spec)
        if spec in (-1, -2):
            return FD(name, 'sint', size=-spec)
        if 4 < spec <= 256:
            return FD(name, 'bytes', size=spec)
        raise Unsupported(f'{name}: integer spec {spec}')
    if isinstance(spec, str):
        if spec == '*':
            return FD(name, 'rest')
        if spec == 'v':
            return FD(name, 'v')
        if spec == '>2':
            return FD(name, 'uint', size=2, big=True)
        if spec == '>4':
            return FD(name, 'uint', size=4, big=True)
        raise Unsupported(f'{name}: string spec {spec!r}')
    if isinstance(spec, dict):
        ser = spec.get('serializer')
        par = spec.get('parser')
        if 'size' in spec:
            d = describe_spec(name, spec['size'], annotation)
            if ser is not None:
                d.custom = True
            return d
        if ser is not None and par is not None and _is_enum_typespec(ser) and _is_enum_typespec(par):
            # the declaration is the (size, byteorder) that type_spec() was called with; both
            # lambdas capture it.  Whether each of them honours it is what the run decides.
            sv, pv = _closure_vars(ser), _closure_vars(par)
            size = sv.get('size', pv.get('size'))
            order = sv.get('byteorder', pv.get('byteorder'))
            if size == 1 and order is None:
                order = 'little'
            if not isinstance(size, int) or not 1 <= size <= 8 or order not in ('little', 'big'):
                raise Unsupported(f'{name}: enum spec size={size!r} byteorder={order!r}')
            return FD(name, 'uint', size=size, big=(order == 'big'), enum=pv.get('cls'))
        if (
            par is not None
            and getattr(par, '__name__', '') == 'parse_length_prefixed_bytes'
            and isinstance(ser, functools.partial)
            and getattr(ser.func, '__name__', '') == 'serialize_length_prefixed_bytes'
        ):
            return FD(name, 'lpv', pad=int(ser.keywords.get('padded_size', 0)), custom=True)
        raise Unsupported(f'{name}: dict spec with keys {sorted(spec)}')
    if callable(spec):
        fname = getattr(spec, '__name__', '')
        owner = _owner_name(spec)
        if owner == 'Address' or (owner and _annotation_says_address(annotation) and fname.startswith('parse_')):
            if fname == 'parse_address':
                return FD(name, 'addr', addr='public')
            if fname == 'parse_random_address':
                return FD(name, 'addr', addr='random')
            if fname == 'parse_address_preceded_by_type':
                return FD(name, 'addr', addr='preceded')
        if owner == 'CodingFormat' and fname == 'parse_from_bytes':
            return FD(name, 'coding')
        if fname == 'parse_from_bytes' and dataclasses.is_dataclass(getattr(spec, '__self__', None)):
            sub_cls = spec.__self__
            return FD(name, 'object', sub=describe_class(sub_cls), cls=sub_cls)
        if _annotation_says_address(annotation):
            # class-specific parser (a lambda); the declared Python type says BD_ADDR
            return FD(name, 'addr', addr='untyped', custom=True)
        raise Unsupported(f'{name}: callable spec {getattr(spec, "__qualname__", spec)!r}')
    raise Unsupported(f'{name}: spec {spec!r}')


def describe_class(cls):
    """Descriptors of a dataclass whose fields carry 'bumble.hci' metadata.

    Own reading of the declaration (does not use cls.fields): fields in dataclass
    order; list_begin opens a counted group, list_end closes it."""
    if not dataclasses.is_dataclass(cls):
        raise Unsupported(f'{cls.__name__} is not a dataclass')
    stack = [[]]
    for f in dataclasses.fields(cls):
        md = f.metadata.get(META_KEY)
        if md is None or not hasattr(md, 'spec'):
            if (f.init and f.default is dataclasses.MISSING
                    and f.default_factory is dataclasses.MISSING):
                raise Unsupported(f'{cls.__name__}.{f.name}: required constructor field without wire metadata')
            continue
        if getattr(md, 'list_begin', False):
            stack.append([])
        if md.spec:
            stack[-1].append(describe_spec(f.name, md.spec, f.type))
        elif (f.init and f.default is dataclasses.MISSING
              and f.default_factory is dataclasses.MISSING):
            raise Unsupported(f'{cls.__name__}.{f.name}: required field with empty spec')
        if getattr(md, 'list_end', False):
            if len(stack) < 2:
                raise Unsupported(f'{cls.__name__}.{f.name}: list_end without list_begin')
            top = stack.pop()
            if not top:
                raise Unsupported(f'{cls.__name__}.{f.name}: empty group')
            stack[-1].append(FD('+'.join(d.name for d in top), 'group', sub=top))
    if len(stack) != 1:
        raise Unsupported(f'{cls.__name__}: list_begin without list_end')
    descs = stack[0]
    _validate(cls.__name__, descs)
    return descs


def _validate(owner, descs, in_group=False):
    for i, d in enumerate(descs):
        if d.kind == 'addr' and d.addr == 'preceded':
            prev = descs[i - 1] if i else None
            if prev is None or prev.kind != 'uint' or prev.size != 1:
                raise Unsupported(f'{owner}.{d.name}: address "preceded by type" without a 1-octet field before it')
        if d.kind == 'rest' and (i != len(descs) - 1):
            raise Unsupported(f'{owner}.{d.name}: rest-of-packet field is not last')
        if d.kind == 'rest' and in_group:
            raise Unsupported(f'{owner}.{d.name}: rest-of-packet field inside a group')
        if d.kind in ('group', 'maskgroup'):
            _validate(owner, d.sub, True)
        if d.kind == 'object':
            for s in d.sub:
                if s.kind == 'rest':
                    raise Unsupported(f'{owner}.{d.name}: nested object with rest-of-packet field')


def structure(descs):
    """Names/nesting only, comparable with bumble's derived `fields` list."""
    out = []
    for d in descs:
        if d.kind == 'group':
            out.append([s.name for s in d.sub])
        else:
            out.append(d.name)
    return out


def structure_of_fields(fields):
    out = []
    for f in fields:
        if isinstance(f, list):
            out.append([s[0] for s in f])
        else:
            out.append(f[0])
    return out


# ---------------------------------------------------------------------------------
# hand-written layouts for the classes that do not use the field language
# (Core spec Vol 4 Part E 7.8.64 and 7.8.66: one entry per bit set in the PHY mask,
# in bit order, no count octet)
# ---------------------------------------------------------------------------------
def handwritten(cls_name):
    if cls_name == 'HCI_LE_Set_Extended_Scan_Parameters_Command':
        return [
            FD('own_address_type', 'uint', size=1),
            FD('scanning_filter_policy', 'uint', size=1),
            FD('scanning_phys', 'uint', size=1),
            FD('scan_types+scan_intervals+scan_windows', 'maskgroup', mask='scanning_phys', sub=[
                FD('scan_types', 'uint', size=1),
                FD('scan_intervals', 'uint', size=2),
                FD('scan_windows', 'uint', size=2),
            ]),
        ]
    if cls_name == 'HCI_LE_Extended_Create_Connection_Command':
        return [
            FD('initiator_filter_policy', 'uint', size=1),
            FD('own_address_type', 'uint', size=1),
            FD('peer_address_type', 'uint', size=1),
            FD('peer_address', 'addr', addr='preceded'),
            FD('initiating_phys', 'uint', size=1),
            FD('per-phy', 'maskgroup', mask='initiating_phys', sub=[
                FD(n, 'uint', size=2) for n in (
                    'scan_intervals', 'scan_windows', 'connection_interval_mins',
                    'connection_interval_maxs', 'max_latencies', 'supervision_timeouts',
                    'min_ce_lengths', 'max_ce_lengths')
            ]),
        ]
    return None


# ---------------------------------------------------------------------------------
# sizes
# ---------------------------------------------------------------------------------
def min_size(descs):
    n = 0
    for d in descs:
        k = d.kind
        if k in ('uint', 'sint', 'bytes'):
            n += d.size
        elif k == 'addr':
            n += 6
        elif k == 'coding':
            n += 5
        elif k == 'v':
            n += 1
        elif k == 'lpv':
            n += max(1, d.pad)
        elif k == 'object':
            n += min_size(d.sub)
        elif k == 'group':
            n += 1
    return n


# ---------------------------------------------------------------------------------
# generator (boundary biased); plain values only
# ---------------------------------------------------------------------------------
def gen_uint(rng, bits):
    top = (1 << bits) - 1
    x = rng.random()
    if x < 0.55:
        cands = [0, 1, 0x7F, 0x80, 0xFF, top, top - 1, 1 << (bits - 1), (1 << (bits - 1)) - 1]
        for k in (8, 16, 24):
            if k < bits:
                cands += [(1 << k) - 1, 1 << k, (1 << k) + 1]
        if bits > 8:
            # every octet distinct, so that a byte-order or width slip always shows
            cands += [int.from_bytes(bytes(range(0x11, 0x11 + 0x11 * (bits // 8), 0x11)), 'big'),
                      int.from_bytes(bytes(range(0xF1, 0xF1 + (bits // 8))), 'little')]
        return rng.choice(cands) & top
    return rng.getrandbits(bits)


def gen_sint(rng, bits):
    lo, hi = -(1 << (bits - 1)), (1 << (bits - 1)) - 1
    if rng.random() < 0.6:
        return rng.choice([lo, lo + 1, -1, 0, 1, hi - 1, hi, -2, -128 if bits > 8 else lo,
                           127, -129 if bits > 8 else -127, 128 if bits > 8 else 127])
    return rng.randint(lo, hi)


def gen_bytes(rng, n):
    if n == 0:
        return b''
    x = rng.random()
    if x < 0.08:
        return bytes(n)
    if x < 0.16:
        return b'\xff' * n
    if x < 0.26:
        return bytes((i + 1) & 0xFF for i in range(n))
    if x < 0.34:
        # zero tail / zero head: padding and truncation slips show here
        k = rng.randint(0, n)
        b = rng.randbytes(k) + bytes(n - k)
        return b if rng.random() < 0.5 else b[::-1]
    return rng.randbytes(n)


class Budget:
    def __init__(self, n):
        self.left = max(0, n)

    def take(self, want):
        got = max(0, min(want, self.left))
        self.left -= got
        return got


_LEN_CANDS = (0, 0, 1, 1, 2, 3, 7, 8, 15, 16, 17, 30, 31, 32, 33, 63, 64, 100, 127, 128, 129,
              200, 250, 251, 252, 253, 254, 255)


def gen_len(rng, budget, cap=255):
    if rng.random() < 0.7:
        want = rng.choice(_LEN_CANDS)
    else:
        want = rng.randint(0, cap)
    if rng.random() < 0.15:
        want = budget.left  # fill the packet exactly
    return budget.take(min(want, cap))


def gen_count(rng, budget, item_min, cap=255):
    room = budget.left // max(1, item_min)
    x = rng.random()
    if x < 0.2:
        n = 0
    elif x < 0.45:
        n = 1
    elif x < 0.65:
        n = 2
    elif x < 0.8:
        n = 3
    elif x < 0.9:
        n = room  # as many as fit
    else:
        n = rng.randint(0, 12)
    n = max(0, min(n, room, cap))
    budget.take(n * item_min)
    return n


def gen_field(rng, d, budget, short_arrays=False):
    k = d.kind
    if d.choices is not None:
        return rng.choice(d.choices)
    if k == 'uint':
        if d.enum is not None and rng.random() < 0.5:
            try:
                members = [int(m) for m in d.enum]
            except TypeError:
                members = []
            members = [m for m in members if 0 <= m < (1 << (8 * d.size))]
            if members:
                return rng.choice(members)
        return gen_uint(rng, 8 * d.size)
    if k == 'sint':
        return gen_sint(rng, 8 * d.size)
    if k == 'bytes':
        if short_arrays and rng.random() < 0.7:
            return gen_bytes(rng, rng.choice([0, 1, d.size - 1, d.size // 2, rng.randint(0, d.size)]))
        return gen_bytes(rng, d.size)
    if k == 'v':
        return gen_bytes(rng, gen_len(rng, budget))
    if k == 'rest':
        return gen_bytes(rng, gen_len(rng, budget))
    if k == 'lpv':
        cap = d.pad - 1 if d.pad else 255
        if d.pad:
            n = rng.choice([0, 1, 2, cap - 1, cap, rng.randint(0, cap)])
        else:
            n = gen_len(rng, budget)
        return gen_bytes(rng, n)
    if k == 'addr':
        b = gen_bytes(rng, 6)
        return (b, None)  # type filled in by gen_values
    if k == 'coding':
        return (gen_uint(rng, 8), gen_uint(rng, 16), gen_uint(rng, 16))
    if k == 'object':
        return gen_values(rng, d.sub, budget, short_arrays)
    raise Unsupported(f'cannot generate {d!r}')


def _fix_addr_types(rng, descs, values, index=None):
    """Address whose type is on the wire in the preceding octet: take that value."""
    for i, d in enumerate(descs):
        if d.kind != 'addr':
            continue
        if d.addr == 'preceded':
            prev = descs[i - 1].name
            if index is None:
                values[d.name] = (values[d.name][0], values[prev])
            else:
                values[d.name][index] = (values[d.name][index][0], values[prev][index])


def gen_values(rng, descs, budget, short_arrays=False):
    out = {}
    for d in descs:
        if d.kind == 'group':
            n = gen_count(rng, budget, min_size(d.sub))
            for s in d.sub:
                out[s.name] = []
            for i in range(n):
                for s in d.sub:
                    out[s.name].append(gen_field(rng, s, budget, short_arrays))
                _fix_addr_types(rng, d.sub, out, i)
        elif d.kind == 'maskgroup':
            n = bin(out[d.mask]).count('1')
            for s in d.sub:
                out[s.name] = [gen_field(rng, s, budget, short_arrays) for _ in range(n)]
        else:
            out[d.name] = gen_field(rng, d, budget, short_arrays)
    _fix_addr_types(rng, descs, out)
    return out


# ---------------------------------------------------------------------------------
# encoder with layout map
# ---------------------------------------------------------------------------------
def _enc_int(v, size, big, signed=False):
    if signed:
        if not -(1 << (8 * size - 1)) <= v < (1 << (8 * size - 1)):
            raise ValueError('signed value out of range')
        v &= (1 << (8 * size)) - 1
    if not 0 <= v < (1 << (8 * size)):
        raise ValueError('value out of range')
    octets = [(v >> (8 * i)) & 0xFF for i in range(size)]  # least significant first
    if big:
        octets.reverse()
    return bytes(octets)


def canon_bytes_fixed(v, size):
    """Documented behaviour for fixed arrays: pad with zeros on the right when short."""
    v = bytes(v)
    if len(v) < size:
        return v + bytes(size - len(v))
    return v[:size]


def encode_field(d, v, out, layout, path):
    start = len(out)
    k = d.kind
    if k == 'uint':
        out += _enc_int(int(v), d.size, d.big)
    elif k == 'sint':
        out += _enc_int(int(v), d.size, d.big, signed=True)
    elif k == 'bytes':
        out += canon_bytes_fixed(v, d.size)
    elif k == 'v':
        if len(v) > 255:
            raise ValueError('v field too long')
        out.append(len(v))
        out += v
    elif k == 'rest':
        out += v
    elif k == 'lpv':
        out.append(len(v))
        out += v
        if 1 + len(v) < d.pad:
            out += bytes(d.pad - 1 - len(v))
    elif k == 'addr':
        if len(v[0]) != 6:
            raise ValueError('address length')
        out += v[0]
    elif k == 'coding':
        out.append(v[0] & 0xFF)
        out += _enc_int(v[1], 2, False)
        out += _enc_int(v[2], 2, False)
    elif k == 'object':
        encode_into(d.sub, v, out, layout, path + '.')
        return
    else:
        raise Unsupported(f'cannot encode {d!r}')
    layout.append((path, start, len(out) - start, d))


def encode_into(descs, values, out, layout, prefix=''):
    for d in descs:
        if d.kind == 'group':
            n = len(values[d.sub[0].name])
            for s in d.sub:
                if len(values[s.name]) != n:
                    raise ValueError('ragged group')
            if n > 255:
                raise ValueError('group too long')
            layout.append((prefix + d.name + '#count', len(out), 1, d))
            out.append(n)
            for i in range(n):
                for s in d.sub:
                    encode_field(s, values[s.name][i], out, layout, f'{prefix}{s.name}[{i}]')
        elif d.kind == 'maskgroup':
            n = bin(values[d.mask]).count('1')
            for i in range(n):
                for s in d.sub:
                    encode_field(s, values[s.name][i], out, layout, f'{prefix}{s.name}[{i}]')
        else:
            encode_field(d, values[d.name], out, layout, prefix + d.name)


def encode(descs, values):
    out = bytearray()
    layout = []
    encode_into(descs, values, out, layout)
    return bytes(out), layout


# ---------------------------------------------------------------------------------
# decoder
# ---------------------------------------------------------------------------------
def _need(data, off, n):
    if off + n > len(data):
        raise RefDecodeError(f'need {n} octets at {off}, have {len(data) - off}')


def _dec_int(data, off, size, big, signed=False):
    _need(data, off, size)
    chunk = data[off:off + size]
    if big:
        chunk = chunk[::-1]
    v = 0
    for i, b in enumerate(chunk):
        v |= b << (8 * i)
    if signed and v >> (8 * size - 1):
        v -= 1 << (8 * size)
    return v


def decode_field(d, data, off, prev_octet=None):
    k = d.kind
    if k == 'uint':
        return _dec_int(data, off, d.size, d.big), off + d.size
    if k == 'sint':
        return _dec_int(data, off, d.size, d.big, True), off + d.size
    if k == 'bytes':
        _need(data, off, d.size)
        return bytes(data[off:off + d.size]), off + d.size
    if k in ('v', 'lpv'):
        _need(data, off, 1)
        n = data[off]
        _need(data, off + 1, n)
        end = off + 1 + n
        v = bytes(data[off + 1:end])
        if k == 'lpv' and d.pad and end - off < d.pad:
            end = min(len(data), off + d.pad)
        return v, end
    if k == 'rest':
        return bytes(data[off:]), len(data)
    if k == 'addr':
        _need(data, off, 6)
        t = None
        if d.addr == 'preceded':
            t = data[off - 1]
        return (bytes(data[off:off + 6]), t), off + 6
    if k == 'coding':
        _need(data, off, 5)
        return (data[off], _dec_int(data, off + 1, 2, False), _dec_int(data, off + 3, 2, False)), off + 5
    if k == 'object':
        return decode_from(d.sub, data, off)
    raise Unsupported(f'cannot decode {d!r}')


def decode_from(descs, data, off=0):
    out = {}
    for d in descs:
        if d.kind == 'group':
            _need(data, off, 1)
            n = data[off]
            off += 1
            for s in d.sub:
                out[s.name] = []
            for _ in range(n):
                for s in d.sub:
                    v, off = decode_field(s, data, off)
                    out[s.name].append(v)
        elif d.kind == 'maskgroup':
            n = bin(out[d.mask]).count('1')
            for s in d.sub:
                out[s.name] = []
            for _ in range(n):
                for s in d.sub:
                    v, off = decode_field(s, data, off)
                    out[s.name].append(v)
        else:
            out[d.name], off = decode_field(d, data, off)
    return out, off


def canonical(descs, values):
    """The values a faithful parser must report for what `encode` put on the wire
    (short fixed arrays come back zero-padded)."""
    out = {}
    for d in descs:
        if d.kind in ('group', 'maskgroup'):
            for s in d.sub:
                out[s.name] = [canonical([s], {s.name: v})[s.name] for v in values[s.name]]
        elif d.kind == 'bytes':
            out[d.name] = canon_bytes_fixed(values[d.name], d.size)
        elif d.kind == 'object':
            out[d.name] = canonical(d.sub, values[d.name])
        elif d.kind in ('v', 'rest', 'lpv'):
            out[d.name] = bytes(values[d.name])
        else:
            out[d.name] = values[d.name]
    return out


def locate(layout, ref, got):
    """Descriptor and path of the field in which `got` first departs from `ref`."""
    n = min(len(ref), len(got))
    pos = next((i for i in range(n) if ref[i] != got[i]), n)
    for path, start, length, d in layout:
        if start <= pos < start + length:
            return path, d, pos
    if layout and pos >= layout[-1][1] + layout[-1][2]:
        path, start, length, d = layout[-1]
        return path + '(+tail)', d, pos
    return '?', None, pos


# ---------------------------------------------------------------------------------
# packet headers (Core Vol 4 Part E 5.4.1 - 5.4.5)
# ---------------------------------------------------------------------------------
def command_packet(op_code, params):
    if len(params) > 255:
        raise ValueError('parameters too long')
    return bytes([0x01, op_code & 0xFF, (op_code >> 8) & 0xFF, len(params)]) + bytes(params)


def event_packet(event_code, params):
    if len(params) > 255:
        raise ValueError('parameters too long')
    return bytes([0x04, event_code & 0xFF, len(params)]) + bytes(params)


def acl_packet(handle, pb, bc, data):
    h = (handle & 0xFFF) | ((pb & 3) << 12) | ((bc & 3) << 14)
    return bytes([0x02, h & 0xFF, h >> 8, len(data) & 0xFF, len(data) >> 8]) + bytes(data)


def sco_packet(handle, status, data):
    h = (handle & 0xFFF) | ((status & 3) << 12)
    return bytes([0x03, h & 0xFF, h >> 8, len(data)]) + bytes(data)


def iso_packet(handle, pb, time_stamp, seq, sdu_len, status, fragment):
    """5.4.5: handle[0:12] PB[12:14] TS[14] RFU[15]; length[0:14];
    optional Time_Stamp (32); when PB is 0b00/0b10: Packet_Sequence_Number (16),
    ISO_SDU_Length[0:12] RFU[12:14] Packet_Status_Flag[14:16]."""
    ts = 1 if time_stamp is not None else 0
    h = (handle & 0xFFF) | ((pb & 3) << 12) | (ts << 14)
    body = bytearray()
    if time_stamp is not None:
        body += _enc_int(time_stamp, 4, False)
    if seq is not None:
        body += _enc_int(seq, 2, False)
        body += _enc_int((sdu_len & 0xFFF) | ((status & 3) << 14), 2, False)
    body += fragment
    n = len(body)
    if n > 0x3FFF:
        raise ValueError('ISO data load too long')
    return bytes([0x05, h & 0xFF, h >> 8, n & 0xFF, n >> 8]) + bytes(body)
