"""Independent reference for HCI "H4" (UART) framing — Core spec Vol 4 Part A ch. 2 and
Vol 4 Part E ch. 5.4.  Written from the spec; imports nothing from bumble.

    0x01 command      opcode(2)            length(1)        parameters
    0x02 ACL data     handle|PB|BC(2)      length(2, LE)    data
    0x03 SCO data     handle|status(2)     length(1)        data
    0x04 event        event code(1)        length(1)        parameters
    0x05 ISO data     handle|PB|TS(2)      length(14 bit LE, top 2 bits RFU = 0)   data

Packets are built by hand here (never by bumble's serialisers); because the builder
knows where it put every packet, the expected framing of a concatenated stream is known
*by construction* (cumulative lengths), not by running any parser.
"""
from __future__ import annotations

import bisect
import random

CMD, ACL, SCO, EVT, ISO = 1, 2, 3, 4, 5
ALL_TYPES = (CMD, ACL, SCO, EVT, ISO)
NAME = {CMD: 'cmd', ACL: 'acl', SCO: 'sco', EVT: 'evt', ISO: 'iso'}

# type -> (bytes before the length field, width of the length field, largest legal body)
LAYOUT = {
    CMD: (2, 1, 255),
    ACL: (2, 2, 65535),
    SCO: (2, 1, 255),
    EVT: (1, 1, 255),
    ISO: (2, 2, 65535),
}

# body lengths the property names, per width of the length field
BOUNDARY_LENGTHS = {
    1: (0, 1, 2, 3, 127, 128, 254, 255),
    2: (0, 1, 2, 3, 254, 255, 256, 257, 511, 512, 4096),
}
HUGE = {ACL: 65535, ISO: 65535}
# (the H4 framing of ISO data has a 16-bit length field; its two top bits are RFU for the ISO layer, which
# is none of the framers' business: all of them must frame on the 16-bit value)
HUGE_CHOICES = {ACL: (65535, 65534, 32768), ISO: (65535, 16383, 16384, 49152)}

INVALID_TYPES = (0x00, 0x06, 0x07, 0x08, 0x10, 0x77, 0x80, 0xFE, 0xFF)


def header_size(ptype: int) -> int:
    """Bytes after the type byte and before the body."""
    pre, width, _ = LAYOUT[ptype]
    return pre + width


def build(ptype: int, body: bytes, lead: bytes) -> bytes:
    """One H4 packet: type byte, `lead` (opcode / handle+flags / event code), length, body."""
    pre, width, maxlen = LAYOUT[ptype]
    assert len(lead) == pre and len(body) <= maxlen
    n = len(body)
    if width == 1:
        length = bytes([n])
    else:
        length = bytes([n & 0xFF, (n >> 8) & 0xFF])
    return bytes([ptype]) + lead + length + body


def hostile_body(rng: random.Random, n: int) -> bytes:
    """Body bytes chosen so that a framer that loses its place reads plausible headers."""
    style = rng.randrange(6)
    if n == 0:
        return b''
    if style == 0:
        return bytes(rng.getrandbits(8) for _ in range(min(n, 64))) * (n // min(n, 64) + 1)
    if style == 1:
        return bytes(n)
    if style == 2:
        return b'\xff' * n
    if style == 3:  # looks like a run of type bytes
        return bytes(((i % 5) + 1) for i in range(n))
    if style == 4:  # looks like short event packets back to back
        return (b'\x04\x0e\x01\x00' * (n // 4 + 1))
    return rng.randbytes(n)


def random_lead(rng: random.Random, ptype: int) -> bytes:
    if ptype == EVT:
        return bytes([rng.choice([0x00, 0x01, 0x05, 0x0E, 0x0F, 0x13, 0x3E, 0xFF, rng.getrandbits(8)])])
    if ptype == CMD:
        v = rng.choice([0x0000, 0x0C03, 0x2001, 0xFC00, 0xFFFF, rng.getrandbits(16)])
    elif ptype == ACL:
        v = rng.choice([0x000, 0x001, 0xEFF, 0xFFF, rng.getrandbits(12)]) | (rng.getrandbits(4) << 12)
    elif ptype == SCO:
        v = rng.choice([0x000, 0x001, 0xEFF, rng.getrandbits(12)]) | (rng.getrandbits(2) << 12)
    else:  # ISO: handle, PB(2), TS(1), bit 15 RFU = 0
        v = rng.choice([0x000, 0x001, 0xEFF, rng.getrandbits(12)]) | (rng.getrandbits(3) << 12)
    return bytes([v & 0xFF, v >> 8])


def make_packet(rng: random.Random, ptype: int, body_len: int) -> bytes:
    return build(ptype, hostile_body(rng, body_len)[:body_len], random_lead(rng, ptype))


def bounds_of(packets) -> list[int]:
    """End offset of every packet in the concatenation (known by construction)."""
    out, pos = [], 0
    for p in packets:
        pos += len(p)
        out.append(pos)
    return out


def complete_in_prefix(bounds, n: int) -> int:
    """Number of packets wholly contained in the first n bytes of the stream."""
    return bisect.bisect_right(bounds, n)


def cut_class(types, bounds, pos: int, typed: bool = True) -> str:
    """Where a chunk boundary at stream offset `pos` falls, relative to the packet it
    cuts: at-boundary / after-type / in-header / after-header / in-body.  `types` is the
    packet type of every packet; `typed` says whether the stream carries type bytes."""
    if pos == 0 or pos in set(bounds):
        return 'at-boundary'
    i = bisect.bisect_right(bounds, pos)
    if i >= len(types):
        return 'past-end'
    start = bounds[i - 1] if i else 0
    off = pos - start
    hs = (1 if typed else 0) + header_size(types[i])
    if typed and off == 1:
        return 'after-type'
    if off < hs:
        return 'in-header'
    if off == hs:
        return 'after-header'
    return 'in-body'


def len_class(n: int) -> str:
    if n == 0:
        return 'len=0'
    if n <= 255:
        return 'len<=255'
    return 'len>255'


def split_at(stream: bytes, cuts) -> list[bytes]:
    """Chunks of `stream` cut at the (sorted, possibly repeated) offsets `cuts`;
    a repeated offset yields an empty chunk."""
    out, prev = [], 0
    for c in cuts:
        out.append(stream[prev:c])
        prev = c
    out.append(stream[prev:])
    return out
