"""Child process: runs a list of cases of one check in-process, one after the
other, each under a wall-clock alarm (expiry = inconclusive, never a verdict)."""
from __future__ import annotations

import importlib
import inspect
import json
import logging
import os
import signal
import sys
import traceback


class CaseTimeout(BaseException):
    pass


def _alarm(signum, frame):
    raise CaseTimeout()


def run_one(mod, case, seed):
    from vlib import vloop
    from vlib.result import R

    r = R(case)
    timeout = int(case.get('_timeout', getattr(mod, 'CASE_TIMEOUT', 120)))
    signal.signal(signal.SIGALRM, _alarm)
    signal.alarm(timeout)
    note = None
    try:
        res = mod.run_case(case, r)
        if inspect.iscoroutine(res):
            try:
                vloop.run(res)
            except vloop.Hang as e:
                r.bad(case.get('_hang_key', 'hang/case'), f'{e}')
    except CaseTimeout:
        note = f'case {case.get("_i")} hit the per-case wall watchdog ({timeout}s): {json.dumps(case, default=str)[:300]}'
    except Exception as e:  # harness failure is not a verdict on the code
        tb = traceback.format_exc()
        note = f'case {case.get("_i")} harness error {type(e).__name__}: {e} :: {tb[-1200:]}'
    finally:
        signal.alarm(0)
    return r, note


def main():
    logging.disable(logging.CRITICAL)
    import bumble

    if sys.argv[1] == '--replay':
        with open(sys.argv[2]) as f:
            rp = json.load(f)
        mod = importlib.import_module(f'checks.{rp["prop"].lower()}')
        if hasattr(mod, 'init_shard'):
            mod.init_shard(rp['tier'], rp['seed'])
        r, note = run_one(mod, rp['case'], rp['seed'])
        print(json.dumps(r.to_json(), indent=1, default=str)[:20000])
        if note:
            print('INCONCLUSIVE', note)
            sys.exit(2)
        if r.violations:
            for v in r.violations:
                print(f'violated clause {v["key"]}: {v["detail"]}')
            print(f'VIOLATION property={rp["prop"]} replay={sys.argv[2]}')
            sys.exit(1)
        print('replay: no violation')
        sys.exit(0)

    with open(sys.argv[1]) as f:
        job = json.load(f)
    mod = importlib.import_module(f'checks.{job["prop"].lower()}')
    if hasattr(mod, 'init_shard'):
        mod.init_shard(job['tier'], job['seed'])
    out = {'bumble_file': bumble.__file__, 'cases': [], 'inconclusive': []}
    for case in job['cases']:
        r, note = run_one(mod, case, job['seed'])
        out['cases'].append(r.to_json())
        if note:
            out['inconclusive'].append(note)
    with open(sys.argv[2] + '.tmp', 'w') as f:
        json.dump(out, f, default=str)
    os.replace(sys.argv[2] + '.tmp', sys.argv[2])


if __name__ == '__main__':
    main()
