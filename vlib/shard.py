"""Child process: runs a list of cases of one check in-process, one after the
other, each under a wall-clock alarm (expiry = inconclusive, never a verdict)."""
from __future__ import annotations

import importlib
import inspect
import json
import logging
import os
import signal
import sys
import traceback


class CaseTimeout(SystemExit):
    # (a SystemExit: asyncio stores any other BaseException raised inside a task step in the task and carries on)
    pass


class Spin(SystemExit):
    """One iteration of a virtual-time loop used SPIN_CPU..2*SPIN_CPU seconds of this process's CPU time
    without returning to the loop: something computes or loops without ever yielding."""


SPIN_CPU = 40.0
_spin_seen = [None]
_spin_sites = {}        # site -> times seen in this shard (after the first, the budget per case drops to 5 CPU-s)


def _alarm(signum, frame):
    raise CaseTimeout()


def _vtalarm(signum, frame):
    from vlib import vloop
    if vloop.RUNNING[0] <= 0:
        _spin_seen[0] = None
        return
    if _spin_seen[0] == vloop.TICKS[0]:
        stack = traceback.extract_stack(frame)
        raise Spin(stack)
    _spin_seen[0] = vloop.TICKS[0]


def _spin_site(stack):
    """(key suffix, text) for the innermost frame inside the bumble package, or None."""
    import bumble
    root = os.path.dirname(os.path.abspath(bumble.__file__))
    inner = [f for f in stack if os.path.abspath(f.filename).startswith(root + os.sep)]
    if not inner:
        return None
    f = inner[-1]
    mod = os.path.relpath(f.filename, root)[:-3].replace(os.sep, '.')
    chain = ' <- '.join(f'{os.path.basename(x.filename)}:{x.lineno} {x.name}' for x in reversed(stack[-6:]))
    return f'{mod}.{f.name}', chain


def run_one(mod, case, seed):
    from vlib import vloop
    from vlib.result import R

    r = R(case)
    timeout = int(case.get('_timeout', getattr(mod, 'CASE_TIMEOUT', 120)))
    signal.signal(signal.SIGALRM, _alarm)
    signal.alarm(timeout)
    _spin_seen[0] = None
    signal.signal(signal.SIGVTALRM, _vtalarm)
    budget = 5.0 if _spin_sites else SPIN_CPU
    signal.setitimer(signal.ITIMER_VIRTUAL, budget, budget)
    note = None
    try:
        res = mod.run_case(case, r)
        if inspect.iscoroutine(res):
            try:
                vloop.run(res)
            except vloop.Hang as e:
                r.bad(case.get('_hang_key', 'hang/case'), f'{e}')
    except Spin as e:
        site = _spin_site(e.args[0])
        if site is None:
            note = (f'case {case.get("_i")}: one loop iteration used more than {SPIN_CPU:.0f} CPU-seconds outside bumble '
                    f'(harness): {json.dumps(case, default=str)[:200]}')
        elif _spin_sites and site[0] not in _spin_sites:
            note = (f'case {case.get("_i")}: after a spin at {sorted(_spin_sites)} the reduced budget of {budget:.0f} CPU-seconds '
                    f'ran out at another place ({site[0]}): not judged')
        else:
            _spin_sites[site[0]] = _spin_sites.get(site[0], 0) + 1
            r.bad(f'spin/{site[0]}', f'one event-loop iteration used more than {budget:.0f} s of CPU time without returning '
                                     f'to the loop (a wait that never yields); innermost frames: {site[1]}')
    except CaseTimeout:
        note = f'case {case.get("_i")} hit the per-case wall watchdog ({timeout}s): {json.dumps(case, default=str)[:300]}'
    except Exception as e:  # harness failure is not a verdict on the code
        tb = traceback.format_exc()
        note = f'case {case.get("_i")} harness error {type(e).__name__}: {e} :: {tb[-1200:]}'
    finally:
        signal.alarm(0)
        signal.setitimer(signal.ITIMER_VIRTUAL, 0, 0)
    return r, note


def main():
    logging.disable(logging.CRITICAL)
    import bumble

    if sys.argv[1] == '--replay':
        with open(sys.argv[2]) as f:
            rp = json.load(f)
        mod = importlib.import_module(f'checks.{rp["prop"].lower()}')
        if hasattr(mod, 'init_shard'):
            mod.init_shard(rp['tier'], rp['seed'])
        r, note = run_one(mod, rp['case'], rp['seed'])
        print(json.dumps(r.to_json(), indent=1, default=str)[:20000])
        if note:
            print('INCONCLUSIVE', note)
            sys.exit(2)
        if r.violations:
            for v in r.violations:
                print(f'violated clause {v["key"]}: {v["detail"]}')
            print(f'VIOLATION property={rp["prop"]} replay={sys.argv[2]}')
            sys.exit(1)
        print('replay: no violation')
        sys.exit(0)

    with open(sys.argv[1]) as f:
        job = json.load(f)
    mod = importlib.import_module(f'checks.{job["prop"].lower()}')
    if hasattr(mod, 'init_shard'):
        mod.init_shard(job['tier'], job['seed'])
    out = {'bumble_file': bumble.__file__, 'cases': [], 'inconclusive': []}
    for case in job['cases']:
        if sum(_spin_sites.values()) >= 8:
            out['inconclusive'].append(f'case {case.get("_i")} skipped: 8 cases of this shard already spun at {sorted(_spin_sites)}')
            continue
        r, note = run_one(mod, case, job['seed'])
        out['cases'].append(r.to_json())
        if note:
            out['inconclusive'].append(note)
    with open(sys.argv[2] + '.tmp', 'w') as f:
        json.dump(out, f, default=str)
    os.replace(sys.argv[2] + '.tmp', sys.argv[2])


if __name__ == '__main__':
    main()
