"""Virtual-time asyncio event loop.

`time()` is a counter.  Whenever the ready queue is empty the clock jumps to the
next scheduled timer, so protocol timeouts fire instantly and deterministically.
If the ready queue is empty *and* no timer is scheduled, nothing can ever happen
again: the loop flags `deadlocked` and stops (a definite hang of whatever was
being awaited).
"""
from __future__ import annotations

import asyncio
import heapq
import selectors


class Hang(Exception):
    """An awaited operation did not finish within the virtual-time budget."""


class _NullSelector(selectors.SelectSelector):
    # The virtual loop never blocks in select(): the self-pipe is still
    # registered (asyncio needs it) but we always poll with timeout 0.
    def select(self, timeout=None):
        return super().select(0)


class VirtualTimeLoop(asyncio.SelectorEventLoop):
    def __init__(self):
        super().__init__(_NullSelector())
        self._vtime = 0.0
        self.deadlocked = False
        self.iterations = 0
        self.time_jumps = 0
        self.livelock_limit = 1_000_000
        self.livelock_jumps = 0
        self._last_jump_iter = 0

    def time(self):
        return self._vtime

    def _run_once(self):
        self.iterations += 1
        TICKS[0] += 1
        if (self._ready and self._scheduled
                and self.iterations - self._last_jump_iter > self.livelock_limit):
            # Busy for `livelock_limit` consecutive iterations: messages keep flowing
            # and nothing lets time pass. Force the clock forward so that bounded-
            # progress timers (vwait) can expire: a livelock is a hang, not a pass.
            self.livelock_jumps += 1
            self._last_jump_iter = self.iterations
            self._vtime += 2 * T_V
        if not self._ready and not self._stopping:
            self._last_jump_iter = self.iterations
            # drop cancelled timers at the head
            while self._scheduled and self._scheduled[0]._cancelled:
                self._timer_cancelled_count -= 1
                handle = heapq.heappop(self._scheduled)
                handle._scheduled = False
            if self._scheduled:
                when = self._scheduled[0]._when
                if when > self._vtime:
                    self._vtime = when
                    self.time_jumps += 1
            else:
                self.deadlocked = True
                self.stop()
        super()._run_once()


T_V = 300.0
# number of loop iterations run by any VirtualTimeLoop of this process (spin watchdog in shard.py); RUNNING counts
# the virtual loops currently inside run()
TICKS = [0]
RUNNING = [0]


async def vwait(awaitable, t_v: float = T_V):
    """Await with the bounded-progress budget; raises Hang on expiry."""
    try:
        return await asyncio.wait_for(awaitable, t_v)
    except asyncio.TimeoutError:
        raise Hang(f'still pending after {t_v} virtual seconds') from None


async def settle(turns: int = 50):
    """Let the loop run until `turns` consecutive iterations were needed; used as
    "quiescence": with delay pipes non-empty the loop is never idle, so we spin
    until every registered pipe is empty and then a few more turns."""
    for _ in range(turns):
        await asyncio.sleep(0)


def run(coro, t_v: float | None = None):
    """Run `coro` on a fresh virtual loop. Returns (result, loop).
    Raises Hang if the loop deadlocked before the coroutine finished."""
    loop = VirtualTimeLoop()
    asyncio.set_event_loop(loop)
    RUNNING[0] += 1
    try:
        if t_v is not None:
            coro = vwait(coro, t_v)
        task = loop.create_task(coro)
        try:
            loop.run_until_complete(task)
        except RuntimeError as e:
            if loop.deadlocked and not task.done():
                task.cancel()
                loop.deadlocked = False
                try:
                    loop.run_until_complete(asyncio.gather(task, return_exceptions=True))
                except Exception:
                    pass
                raise Hang('event loop idle with no timers while awaiting') from None
            raise
        return task.result(), loop
    finally:
        try:
            pending = [t for t in asyncio.all_tasks(loop) if not t.done()]
            for t in pending:
                t.cancel()
            if pending:
                loop.deadlocked = False
                loop.run_until_complete(asyncio.gather(*pending, return_exceptions=True))
        except Exception:
            pass
        RUNNING[0] -= 1
        asyncio.set_event_loop(None)
        loop.close()
