"""Parameter layouts of HCI commands, events and LE sub-events, per op code / event code /
sub-event code, written down from the Bluetooth Core specification (Vol 4 Part E 7.1 - 7.8:
"Command parameters" / "Event parameters" of each section; arrays per 5.2: a Num_X octet
followed by A[0], B[0], A[1], B[1], ...), the Android "HCI requirements" page and Zephyr's
hci_vs.h for the vendor ones.

Nothing in here imports bumble or reads bumble's declarations.  The *names* are the keyword /
attribute names bumble's classes expose (API, lower-cased spec parameter names); order, width,
signedness and kind of each parameter are the specification's.

Layout language (one string per packet, tokens separated by blanks):
    name:N        unsigned little-endian integer, N = 1..4 octets
    name:-N       signed (two's complement) integer of N octets
    name:?N       integer of N octets whose signedness this table does not state
    name:A        BD_ADDR, 6 octets, no type on the wire
    name:T        BD_ADDR, 6 octets, whose address type is the parameter just before it
    name:BN       N octets (array of octets / wide number kept as bytes)
    name:V        one length octet followed by that many octets (Length + Data pair)
    name:PN       one length octet L, then N-1 octets: L octets of data, zero padded (N octets in all)
    name:C        coding format: Coding_Format (1), Company_ID (2), Vendor codec ID (2)
    name:*        the rest of the parameters
    [ ... ]       one count octet N, then N items of the tokens inside, item after item
    [ name( ... ) ]   the same, bumble exposes the items as one list `name` of objects
    {mask ... }   no count octet: one item per bit set in the earlier parameter `mask`
"""
from __future__ import annotations


class Tok:
    __slots__ = ('name', 'kind', 'size', 'sub', 'mask', 'obj')

    def __init__(self, name, kind, size=0, sub=None, mask=None, obj=None):
        self.name = name      # attribute name
        self.kind = kind      # u s x addr taddr bytes v codec rest group maskgroup
        self.size = size
        self.sub = sub
        self.mask = mask
        self.obj = obj        # group: name of the list of objects, or None

    def __repr__(self):
        return f'<{self.name}:{self.kind}{self.size or ""}>'


def _tok(word):
    name, _, t = word.partition(':')
    if not name or not t:
        raise ValueError(f'bad token {word!r}')
    if t == 'A':
        return Tok(name, 'addr', 6)
    if t == 'T':
        return Tok(name, 'taddr', 6)
    if t == 'V':
        return Tok(name, 'v')
    if t == 'C':
        return Tok(name, 'codec', 5)
    if t == '*':
        return Tok(name, 'rest')
    if t[0] == 'B':
        return Tok(name, 'bytes', int(t[1:]))
    if t[0] == 'P':
        return Tok(name, 'lpv', int(t[1:]))
    if t[0] == '-':
        return Tok(name, 's', int(t[1:]))
    if t[0] == '?':
        return Tok(name, 'x', int(t[1:]))
    n = int(t)
    if not 1 <= n <= 4:
        raise ValueError(f'bad width {word!r}')
    return Tok(name, 'u', n)


def parse(text):
    words = text.replace('[', ' [ ').replace(']', ' ] ').replace('(', '( ').replace(')', ' ) ') \
                .replace('{', ' { ').replace('}', ' } ').split()
    out = []
    stack = [out]
    opened = []
    i = 0
    while i < len(words):
        w = words[i]
        if w == '[':
            g = Tok('', 'group', sub=[])
            if words[i + 1].endswith('('):
                g.obj = words[i + 1][:-1]
                i += 1
            stack[-1].append(g)
            stack.append(g.sub)
            opened.append(g)
        elif w == '{':
            g = Tok('', 'maskgroup', sub=[], mask=words[i + 1])
            i += 1
            stack[-1].append(g)
            stack.append(g.sub)
            opened.append(g)
        elif w in (']', '}'):
            stack.pop()
            g = opened.pop()
            g.name = g.obj or '+'.join(s.name for s in g.sub)
        elif w == ')':
            pass
        else:
            stack[-1].append(_tok(w))
        i += 1
    if len(stack) != 1:
        raise ValueError(f'unbalanced layout {text!r}')
    for k, t in enumerate(out):
        if t.kind == 'rest' and k != len(out) - 1:
            raise ValueError('rest not last')
    return out


def names(toks):
    """Structure comparable with bumble's `fields`: names, nested list per group."""
    out = []
    for t in toks:
        if t.kind in ('group', 'maskgroup'):
            out.append([t.obj] if t.obj else [s.name for s in t.sub])
        else:
            out.append(t.name)
    return out


def min_size(toks):
    n = 0
    for t in toks:
        if t.kind in ('u', 's', 'x', 'addr', 'taddr', 'bytes', 'codec', 'lpv'):
            n += t.size
        elif t.kind in ('v', 'group'):
            n += 1
    return n


# ---------------------------------------------------------------------------------------
# value generation.  Plain values: int | bytes | (bytes6, type|None) | (id, company, vendor)
# groups: {'#': [item dict, ...]} stored under the group name
# ---------------------------------------------------------------------------------------
PROFILES = ('distinct', 'max', 'min', 'small')


class Gen:
    def __init__(self, rng, profile, budget):
        self.rng = rng
        self.profile = profile
        self.left = budget
        self.c = 0x21
        self.k = 0
        self.tflip = 1 if profile in ('distinct', 'small', 'min') else 0

    def octet(self):
        v = self.c
        self.c += 1
        if self.c > 0xFE:
            self.c = 0x21
        return v

    def octets(self, n):
        return bytes(self.octet() for _ in range(n))

    def take(self, n):
        n = max(0, min(n, self.left))
        self.left -= n
        return n

    def integer(self, t, is_type):
        bits = 8 * t.size
        top = (1 << bits) - 1
        p = self.profile
        rng = self.rng
        if is_type:
            if p == 'random':
                return rng.choice([0, 1])
            v = self.tflip
            if p in ('distinct', 'small'):
                self.tflip ^= 1
            return v
        self.k += 1
        if t.kind == 's':
            lo, hi = -(1 << (bits - 1)), (1 << (bits - 1)) - 1
            if p == 'distinct':
                raw = int.from_bytes(self.octets(t.size), 'little') | (1 << (bits - 1))
                return raw - (1 << bits)
            if p == 'max':
                return -1
            if p == 'min':
                return lo
            if p == 'small':
                return -12 - (self.k % 50)
            return rng.choice([lo, lo + 1, -1, -2, -12, 0, 1, hi, hi - 1, rng.randint(lo, hi)])
        if p == 'distinct':
            return int.from_bytes(self.octets(t.size), 'little')
        if p == 'max':
            return top
        if p == 'min':
            return 1 << (bits - 1)
        if p == 'small':
            return 2 + (self.k % 100)
        v = rng.choice([0, 1, 2, 0x7F, 0x80, 0xFF, top, top - 1, 1 << (bits - 1), (1 << (bits - 1)) - 1,
                        int.from_bytes(bytes(range(0xF1, 0xF1 + t.size)), 'little'),
                        rng.getrandbits(bits), rng.getrandbits(bits)])
        return v & top

    def blob(self, n):
        p = self.profile
        if p == 'distinct' or p == 'small':
            return self.octets(n)
        if p == 'max':
            return b'\xff' * n
        if p == 'min':
            return b'\x80' * n
        return self.rng.randbytes(n)

    def length(self, cap=255):
        p = self.profile
        want = {'distinct': 3, 'max': 31, 'min': 0, 'small': 1}.get(p)
        if want is None:
            want = self.rng.choice([0, 1, 2, 7, 31, 32, self.rng.randint(0, 60), self.left])
        return self.take(min(want, cap))

    def count(self, item_min):
        p = self.profile
        want = {'distinct': 2, 'max': 1, 'min': 0, 'small': 3}.get(p)
        if want is None:
            want = self.rng.choice([0, 1, 2, 3, self.rng.randint(0, 6)])
        room = self.left // max(1, item_min)
        n = max(0, min(want, room))
        self.left -= n * item_min
        return n


def gen_values(g: Gen, toks, scope=None):
    out = {}
    masks = {t.mask for t in toks if t.kind == 'maskgroup'}
    for i, t in enumerate(toks):
        k = t.kind
        if k in ('u', 's', 'x'):
            is_type = i + 1 < len(toks) and toks[i + 1].kind == 'taddr'
            v = g.integer(t, is_type)
            if (g.profile == 'random' and not is_type and t.size == 1 and k == 'u'
                    and any(toks[j].kind == 'taddr' for j in (i + 2, i + 3) if j < len(toks))):
                # an octet next to an address type octet: keep it apart from type values
                if v in (0, 1):
                    v = g.rng.choice([2, 0x0D, 0x7F, 0xFE])
            if t.name in masks:
                v &= 7      # one item per PHY bit; only bits 0..2 are assigned (7.8.64, 7.8.66)
            out[t.name] = v
        elif k == 'addr':
            out[t.name] = (g.blob(6) if g.profile != 'max' else b'\xff\xfe\xfd\xfc\xfb\xfa', None)
        elif k == 'taddr':
            b = g.blob(6) if g.profile not in ('max', 'min') else g.octets(6)
            out[t.name] = (b, out[toks[i - 1].name])
        elif k == 'bytes':
            out[t.name] = g.blob(t.size)
        elif k == 'v':
            out[t.name] = g.blob(g.length())
        elif k == 'rest':
            out[t.name] = g.blob(g.length(40))
        elif k == 'lpv':
            cap = t.size - 1
            n = {'distinct': 3, 'max': cap, 'min': 0, 'small': 1}.get(g.profile)
            if n is None:
                n = g.rng.choice([0, 1, cap - 1, cap, g.rng.randint(0, cap)])
            b = g.blob(n)
            # data ending in a zero octet cannot be told from padding: keep the last octet non-zero
            out[t.name] = b if not b or b[-1] else b[:-1] + b'\x01'
        elif k == 'codec':
            if g.profile == 'max':
                out[t.name] = (0xFF, 0xFFFF, 0xFFFF)
            else:
                out[t.name] = (g.octet(), int.from_bytes(g.octets(2), 'little'), int.from_bytes(g.octets(2), 'little'))
        elif k == 'group':
            n = g.count(min_size(t.sub))
            out[t.name] = [gen_values(g, t.sub) for _ in range(n)]
        elif k == 'maskgroup':
            n = bin(out[t.mask]).count('1')
            out[t.name] = [gen_values(g, t.sub) for _ in range(n)]
        else:
            raise ValueError(k)
    return out


def _int_octets(v, size):
    v &= (1 << (8 * size)) - 1
    return bytes((v >> (8 * i)) & 0xFF for i in range(size))


def encode(toks, values, out=None, parts=None, prefix=''):
    """-> (octets, parts) with parts = [(path, offset, length, token)]"""
    out = bytearray() if out is None else out
    parts = [] if parts is None else parts
    for t in toks:
        k = t.kind
        start = len(out)
        if k in ('group', 'maskgroup'):
            items = values[t.name]
            if k == 'group':
                parts.append((prefix + t.name + '#count', start, 1, t))
                out.append(len(items))
            for n, item in enumerate(items):
                encode(t.sub, item, out, parts, f'{prefix}{t.name}[{n}].' if t.obj else f'{prefix}[{n}].')
            continue
        v = values[t.name]
        if k in ('u', 's', 'x'):
            out += _int_octets(v, t.size)
        elif k in ('addr', 'taddr'):
            out += v[0]
        elif k in ('bytes', 'rest'):
            out += v
        elif k == 'v':
            out.append(len(v))
            out += v
        elif k == 'lpv':
            out.append(len(v))
            out += v + bytes(t.size - 1 - len(v))
        elif k == 'codec':
            out.append(v[0])
            out += _int_octets(v[1], 2) + _int_octets(v[2], 2)
        parts.append((prefix + t.name, start, len(out) - start, t))
    return bytes(out), parts


def generate(rng, toks, profile, budget):
    g = Gen(rng, profile, budget - min_size(toks))
    # mask parameters of {..} groups: keep the number of set bits small
    values = None
    for _ in range(20):
        values = gen_values(g, toks)
        b, parts = encode(toks, values)
        if len(b) <= budget:
            return values, b, parts
        g = Gen(rng, 'small', budget - min_size(toks))
    raise ValueError('cannot fit layout into the packet')


# =======================================================================================
# LE sub-events (7.7.65.x), keyed by sub-event code
# =======================================================================================
_PAWR = 'num_subevents:1 subevent_interval:1 response_slot_delay:1 response_slot_spacing:1'
_SYNC_EST = ('status:1 sync_handle:2 advertising_sid:1 advertiser_address_type:1 advertiser_address:T '
             'advertiser_phy:1 periodic_advertising_interval:2 advertiser_clock_accuracy:1')
_PAST = ('status:1 connection_handle:2 service_data:2 sync_handle:2 advertising_sid:1 advertiser_address_type:1 '
         'advertiser_address:T advertiser_phy:1 periodic_advertising_interval:2 advertiser_clock_accuracy:1')
_ENH_CONN = ('status:1 connection_handle:2 role:1 peer_address_type:1 peer_address:T '
             'local_resolvable_private_address:A peer_resolvable_private_address:A connection_interval:2 '
             'peripheral_latency:2 supervision_timeout:2 central_clock_accuracy:1')
_CS_CAPS = ('num_config_supported:1 max_consecutive_procedures_supported:2 num_antennas_supported:1 '
            'max_antenna_paths_supported:1 roles_supported:1 modes_supported:1 rtt_capability:1 rtt_aa_only_n:1 '
            'rtt_sounding_n:1 rtt_random_sequence_n:1 nadm_sounding_capability:2 nadm_random_capability:2 '
            'cs_sync_phys_supported:1 subfeatures_supported:2 t_ip1_times_supported:2 t_ip2_times_supported:2 '
            't_fcs_times_supported:2 t_pm_times_supported:2 t_sw_time_supported:1 tx_snr_capability:1')
_CS_CONFIG = ('main_mode_type:1 sub_mode_type:1 min_main_mode_steps:1 max_main_mode_steps:1 main_mode_repetition:1 '
              'mode_0_steps:1 role:1 rtt_type:1 cs_sync_phy:1 channel_map:B10 channel_map_repetition:1 '
              'channel_selection_type:1 ch3c_shape:1 ch3c_jump:1 reserved:1')
_CS_STEPS = '[ step_mode:1 step_channel:1 step_data:V ]'

LE_SUBEVENTS = {
    0x01: 'status:1 connection_handle:2 role:1 peer_address_type:1 peer_address:T connection_interval:2 '
          'peripheral_latency:2 supervision_timeout:2 central_clock_accuracy:1',
    0x02: '[ reports( event_type:1 address_type:1 address:T data:V rssi:-1 ) ]',
    0x03: 'status:1 connection_handle:2 connection_interval:2 peripheral_latency:2 supervision_timeout:2',
    0x04: 'status:1 connection_handle:2 le_features:B8',
    0x05: 'connection_handle:2 random_number:B8 encryption_diversifier:2',
    0x06: 'connection_handle:2 interval_min:2 interval_max:2 max_latency:2 timeout:2',
    0x07: 'connection_handle:2 max_tx_octets:2 max_tx_time:2 max_rx_octets:2 max_rx_time:2',
    0x0A: _ENH_CONN,
    0x0C: 'status:1 connection_handle:2 tx_phy:1 rx_phy:1',
    0x0D: '[ reports( event_type:2 address_type:1 address:T primary_phy:1 secondary_phy:1 advertising_sid:1 '
          'tx_power:-1 rssi:-1 periodic_advertising_interval:2 direct_address_type:1 direct_address:T data:V ) ]',
    0x0E: _SYNC_EST,
    0x0F: 'sync_handle:2 tx_power:-1 rssi:-1 cte_type:1 data_status:1 data:V',
    0x10: 'sync_handle:2',
    0x12: 'status:1 advertising_handle:1 connection_handle:2 num_completed_extended_advertising_events:1',
    0x14: 'connection_handle:2 channel_selection_algorithm:1',
    0x18: _PAST,
    0x19: 'status:1 connection_handle:2 cig_sync_delay:3 cis_sync_delay:3 transport_latency_c_to_p:3 '
          'transport_latency_p_to_c:3 phy_c_to_p:1 phy_p_to_c:1 nse:1 bn_c_to_p:1 bn_p_to_c:1 ft_c_to_p:1 '
          'ft_p_to_c:1 max_pdu_c_to_p:2 max_pdu_p_to_c:2 iso_interval:2',
    0x1A: 'acl_connection_handle:2 cis_connection_handle:2 cig_id:1 cis_id:1',
    0x1B: 'status:1 big_handle:1 big_sync_delay:3 transport_latency_big:3 phy:1 nse:1 bn:1 pto:1 irc:1 max_pdu:2 '
          'iso_interval:2 [ connection_handle:2 ]',
    0x1C: 'big_handle:1 reason:1',
    0x1D: 'status:1 big_handle:1 transport_latency_big:3 nse:1 bn:1 pto:1 irc:1 max_pdu:2 iso_interval:2 '
          '[ connection_handle:2 ]',
    0x1E: 'big_handle:1 reason:1',
    0x22: 'sync_handle:2 num_bis:1 nse:1 iso_interval:2 bn:1 pto:1 irc:1 max_pdu:2 sdu_interval:3 max_sdu:2 phy:1 '
          'framing:1 encryption:1',
    0x23: 'status:1 connection_handle:2 subrate_factor:2 peripheral_latency:2 continuation_number:2 '
          'supervision_timeout:2',
    0x24: _SYNC_EST + ' ' + _PAWR,
    0x25: 'sync_handle:2 tx_power:-1 rssi:-1 cte_type:1 periodic_event_counter:2 subevent:1 data_status:1 data:V',
    0x26: _PAST + ' ' + _PAWR,
    0x29: _ENH_CONN + ' advertising_handle:1 sync_handle:2',
    0x2C: 'status:1 connection_handle:2 ' + _CS_CAPS,
    0x2D: 'status:1 connection_handle:2 remote_fae_table:B72',
    0x2E: 'status:1 connection_handle:2',
    0x2F: 'status:1 connection_handle:2 config_id:1 action:1 ' + _CS_CONFIG +
          ' t_ip1_time:1 t_ip2_time:1 t_fcs_time:1 t_pm_time:1',
    0x30: 'status:1 connection_handle:2 config_id:1 state:1 tone_antenna_config_selection:1 selected_tx_power:-1 '
          'subevent_len:3 subevents_per_event:1 subevent_interval:2 event_interval:2 procedure_interval:2 '
          'procedure_count:2 max_procedure_len:2',
    0x31: 'connection_handle:2 config_id:1 start_acl_conn_event_counter:2 procedure_counter:2 '
          'frequency_compensation:?2 reference_power_level:-1 procedure_done_status:1 subevent_done_status:1 '
          'abort_reason:1 num_antenna_paths:1 ' + _CS_STEPS,
    0x32: 'connection_handle:2 config_id:1 procedure_done_status:1 subevent_done_status:1 abort_reason:1 '
          'num_antenna_paths:1 ' + _CS_STEPS,
}

# =======================================================================================
# events (7.7.x), keyed by event code
# =======================================================================================
EVENTS = {
    0x01: 'status:1',
    0x02: '[ bd_addr:A page_scan_repetition_mode:1 reserved_0:1 reserved_1:1 class_of_device:3 clock_offset:2 ]',
    0x03: 'status:1 connection_handle:2 bd_addr:A link_type:1 encryption_enabled:1',
    0x04: 'bd_addr:A class_of_device:3 link_type:1',
    0x05: 'status:1 connection_handle:2 reason:1',
    0x06: 'status:1 connection_handle:2',
    0x07: 'status:1 bd_addr:A remote_name:B248',
    0x08: 'status:1 connection_handle:2 encryption_enabled:1',
    0x0B: 'status:1 connection_handle:2 lmp_features:B8',
    0x0C: 'status:1 connection_handle:2 version:1 manufacturer_name:2 subversion:2',
    0x0D: 'status:1 connection_handle:2 unused:1 service_type:1 token_rate:4 peak_bandwidth:4 latency:4 '
          'delay_variation:4',
    0x0F: 'status:1 num_hci_command_packets:1 command_opcode:2',
    0x12: 'status:1 bd_addr:A new_role:1',
    0x13: '[ connection_handles:2 num_completed_packets:2 ]',
    0x14: 'status:1 connection_handle:2 current_mode:1 interval:2',
    0x16: 'bd_addr:A',
    0x17: 'bd_addr:A',
    0x18: 'bd_addr:A link_key:B16 key_type:1',
    0x1B: 'connection_handle:2 lmp_max_slots:1',
    0x1C: 'status:1 connection_handle:2 clock_offset:2',
    0x1D: 'status:1 connection_handle:2 packet_type:2',
    0x20: 'bd_addr:A page_scan_repetition_mode:1',
    0x22: '[ bd_addr:A page_scan_repetition_mode:1 reserved:1 class_of_device:3 clock_offset:2 rssi:-1 ]',
    0x23: 'status:1 connection_handle:2 page_number:1 maximum_page_number:1 extended_lmp_features:B8',
    0x2C: 'status:1 connection_handle:2 bd_addr:A link_type:1 transmission_interval:1 retransmission_window:1 '
          'rx_packet_length:2 tx_packet_length:2 air_mode:1',
    0x2D: 'status:1 connection_handle:2 transmission_interval:1 retransmission_window:1 rx_packet_length:2 '
          'tx_packet_length:2',
    0x2E: 'status:1 connection_handle:2 max_tx_latency:2 max_rx_latency:2 min_remote_timeout:2 min_local_timeout:2',
    0x2F: 'num_responses:1 bd_addr:A page_scan_repetition_mode:1 reserved:1 class_of_device:3 clock_offset:2 '
          'rssi:-1 extended_inquiry_response:B240',
    0x30: 'status:1 connection_handle:2',
    0x31: 'bd_addr:A',
    0x32: 'bd_addr:A io_capability:1 oob_data_present:1 authentication_requirements:1',
    0x33: 'bd_addr:A numeric_value:4',
    0x34: 'bd_addr:A',
    0x35: 'bd_addr:A',
    0x36: 'status:1 bd_addr:A',
    0x38: 'connection_handle:2 link_supervision_timeout:2',
    0x39: 'handle:2',
    0x3B: 'bd_addr:A passkey:4',
    0x3C: 'bd_addr:A notification_type:1',
    0x3D: 'bd_addr:A host_supported_features:B8',
    0x59: 'status:1 connection_handle:2 encryption_enabled:1 encryption_key_size:1',
    0xFF: 'data:*',
}

# events / sub-events this table deliberately does not state (reason given in the evidence)
NOT_STATED = {
    ('event', 0x0E): 'Command Complete: return parameters per op code are clause F/H (vlib/ref_hci_rp.py)',
    ('le-meta', 0x33): 'LE CS Test End Complete: parameter list not written down with certainty',
    ('le-meta', 0x37): 'LE Connection Rate Change (Core 6.2): layout not written down with certainty',
    ('command', 0x20A1): 'LE Connection Rate Request (Core 6.2): layout not written down with certainty',
    ('command', 0x20A2): 'LE Set Default Rate Parameters (Core 6.2): layout not written down with certainty',
    ('vendor-event', 0x58): 'Android Bluetooth Quality Report: widths of the v4+ tail and signedness of SNR not '
                            'written down with certainty',
}

_H = 'connection_handle:2'
_A = 'bd_addr:A'
_ESCO = ('transmit_bandwidth:4 receive_bandwidth:4 transmit_coding_format:C receive_coding_format:C '
         'transmit_codec_frame_size:2 receive_codec_frame_size:2 input_bandwidth:4 output_bandwidth:4 '
         'input_coding_format:C output_coding_format:C input_coded_data_size:2 output_coded_data_size:2 '
         'input_pcm_data_format:1 output_pcm_data_format:1 input_pcm_sample_payload_msb_position:1 '
         'output_pcm_sample_payload_msb_position:1 input_data_path:1 output_data_path:1 '
         'input_transport_unit_size:1 output_transport_unit_size:1 max_latency:2 packet_type:2 '
         'retransmission_effort:1')
_CONN6 = ('connection_interval_min:2 connection_interval_max:2 max_latency:2 supervision_timeout:2 '
          'min_ce_length:2 max_ce_length:2')
_SUBRATE = 'subrate_min:2 subrate_max:2 max_latency:2 continuation_number:2 supervision_timeout:2'
_ANDROID = 'opcode:1 payload:*'

# =======================================================================================
# commands (7.1 - 7.8), keyed by op code; '' = no command parameters
# =======================================================================================
COMMANDS = {
    0x0401: 'lap:3 inquiry_length:1 num_responses:1',
    0x0402: '',
    0x0405: _A + ' packet_type:2 page_scan_repetition_mode:1 reserved:1 clock_offset:2 allow_role_switch:1',
    0x0406: _H + ' reason:1',
    0x0408: _A,
    0x0409: _A + ' role:1',
    0x040A: _A + ' reason:1',
    0x040B: _A + ' link_key:B16',
    0x040C: _A,
    0x040D: _A + ' pin_code_length:1 pin_code:B16',
    0x040E: _A,
    0x040F: _H + ' packet_type:2',
    0x0411: _H,
    0x0413: _H + ' encryption_enable:1',
    0x0419: _A + ' page_scan_repetition_mode:1 reserved:1 clock_offset:2',
    0x041B: _H,
    0x041C: _H + ' page_number:1',
    0x041D: _H,
    0x041F: _H,
    0x0429: _A + ' transmit_bandwidth:4 receive_bandwidth:4 max_latency:2 voice_setting:2 retransmission_effort:1 '
            'packet_type:2',
    0x042A: _A + ' reason:1',
    0x042B: _A + ' io_capability:1 oob_data_present:1 authentication_requirements:1',
    0x042C: _A,
    0x042D: _A,
    0x042E: _A + ' numeric_value:4',
    0x042F: _A,
    0x0430: _A + ' c:B16 r:B16',
    0x0433: _A,
    0x0434: _A + ' reason:1',
    0x043D: _H + ' ' + _ESCO,
    0x043E: _A + ' ' + _ESCO,
    0x043F: _A + ' page_scan_repetition_mode:1 clock_offset:2',
    0x0440: _A,
    0x0441: 'enable:1 lt_addr:1 lpo_allowed:1 packet_type:2 interval_min:2 interval_max:2 supervision_timeout:2',
    0x0442: 'enable:1 bd_addr:A lt_addr:1 interval:2 clock_offset:4 next_connectionless_peripheral_broadcast_clock:4 '
            'supervision_timeout:2 remote_timing_accuracy:1 skip:1 packet_type:2 afh_channel_map:B10',
    0x0443: '',
    0x0444: _A + ' sync_scan_timeout:2 sync_scan_window:2 sync_scan_interval:2',
    0x0445: _A + ' c_192:B16 r_192:B16 c_256:B16 r_256:B16',
    0x0803: _H + ' sniff_max_interval:2 sniff_min_interval:2 sniff_attempt:2 sniff_timeout:2',
    0x0804: _H,
    0x080B: _A + ' role:1',
    0x080D: _H + ' link_policy_settings:2',
    0x080F: 'default_link_policy_settings:2',
    0x0811: _H + ' maximum_latency:2 minimum_remote_timeout:2 minimum_local_timeout:2',
    0x0C01: 'event_mask:B8',
    0x0C03: '',
    0x0C05: 'filter_type:1 filter_condition:*',
    0x0C0D: _A + ' read_all_flag:1',
    0x0C12: _A + ' delete_all_flag:1',
    0x0C13: 'local_name:B248',
    0x0C14: '',
    0x0C16: 'connection_accept_timeout:2',
    0x0C18: 'page_timeout:2',
    0x0C1A: 'scan_enable:1',
    0x0C1B: '',
    0x0C1C: 'page_scan_interval:2 page_scan_window:2',
    0x0C1E: 'inquiry_scan_interval:2 inquiry_scan_window:2',
    0x0C1F: '',
    0x0C20: 'authentication_enable:1',
    0x0C23: '',
    0x0C24: 'class_of_device:3',
    0x0C25: '',
    0x0C26: 'voice_setting:2',
    0x0C2E: '',
    0x0C2F: 'synchronous_flow_control_enable:1',
    0x0C31: 'flow_control_enable:1',
    0x0C33: 'host_acl_data_packet_length:2 host_synchronous_data_packet_length:1 host_total_num_acl_data_packets:2 '
            'host_total_num_synchronous_data_packets:2',
    0x0C37: 'handle:2 link_supervision_timeout:2',
    0x0C38: '',
    0x0C39: '',
    0x0C43: 'scan_type:1',
    0x0C45: 'inquiry_mode:1',
    0x0C46: '',
    0x0C47: 'page_scan_type:1',
    0x0C52: 'fec_required:1 extended_inquiry_response:B240',
    0x0C56: 'simple_pairing_mode:1',
    0x0C57: '',
    0x0C58: '',
    0x0C5A: '',
    0x0C63: 'event_mask_page_2:B8',
    0x0C6C: '',
    0x0C6D: 'le_supported_host:1 simultaneous_le_host:1',
    0x0C7A: 'secure_connections_host_support:1',
    0x0C7C: _H + ' authenticated_payload_timeout:2',
    0x0C7D: '',
    0x0C83: 'data_path_direction:1 data_path_id:1 vendor_specific_config:V',
    0x1001: '', 0x1002: '', 0x1003: '',
    0x1004: 'page_number:1',
    0x1005: '', 0x1009: '', 0x100B: '', 0x100D: '',
    0x1405: 'handle:2',
    0x1408: _H,
    0x1801: '',
    0x1802: 'loopback_mode:1',
    # ---- LE controller commands -----------------------------------------------------------
    0x2001: 'le_event_mask:B8',
    0x2002: '', 0x2003: '',
    0x2005: 'random_address:A',
    0x2006: 'advertising_interval_min:2 advertising_interval_max:2 advertising_type:1 own_address_type:1 '
            'peer_address_type:1 peer_address:T advertising_channel_map:1 advertising_filter_policy:1',
    0x2007: '',
    0x2008: 'advertising_data:P32',
    0x2009: 'scan_response_data:P32',
    0x200A: 'advertising_enable:1',
    0x200B: 'le_scan_type:1 le_scan_interval:2 le_scan_window:2 own_address_type:1 scanning_filter_policy:1',
    0x200C: 'le_scan_enable:1 filter_duplicates:1',
    0x200D: 'le_scan_interval:2 le_scan_window:2 initiator_filter_policy:1 peer_address_type:1 peer_address:T '
            'own_address_type:1 ' + _CONN6,
    0x200E: '', 0x200F: '', 0x2010: '',
    0x2011: 'address_type:1 address:T',
    0x2012: 'address_type:1 address:T',
    0x2013: _H + ' ' + _CONN6,
    0x2016: _H,
    0x2018: '',
    0x2019: _H + ' random_number:B8 encrypted_diversifier:2 long_term_key:B16',
    0x201A: _H + ' long_term_key:B16',
    0x201B: _H,
    0x201C: '',
    0x2020: _H + ' interval_min:2 interval_max:2 max_latency:2 timeout:2 min_ce_length:2 max_ce_length:2',
    0x2021: _H + ' reason:1',
    0x2022: _H + ' tx_octets:2 tx_time:2',
    0x2023: '',
    0x2024: 'suggested_max_tx_octets:2 suggested_max_tx_time:2',
    0x2025: '',
    0x2027: 'peer_identity_address_type:1 peer_identity_address:T peer_irk:B16 local_irk:B16',
    0x2029: '', 0x202A: '',
    0x202D: 'address_resolution_enable:1',
    0x202E: 'rpa_timeout:2',
    0x202F: '',
    0x2030: _H,
    0x2031: 'all_phys:1 tx_phys:1 rx_phys:1',
    0x2032: _H + ' all_phys:1 tx_phys:1 rx_phys:1 phy_options:2',
    0x2035: 'advertising_handle:1 random_address:A',
    0x2036: 'advertising_handle:1 advertising_event_properties:2 primary_advertising_interval_min:3 '
            'primary_advertising_interval_max:3 primary_advertising_channel_map:1 own_address_type:1 '
            'peer_address_type:1 peer_address:T advertising_filter_policy:1 advertising_tx_power:-1 '
            'primary_advertising_phy:1 secondary_advertising_max_skip:1 secondary_advertising_phy:1 '
            'advertising_sid:1 scan_request_notification_enable:1',
    0x2037: 'advertising_handle:1 operation:1 fragment_preference:1 advertising_data:V',
    0x2038: 'advertising_handle:1 operation:1 fragment_preference:1 scan_response_data:V',
    0x2039: 'enable:1 [ advertising_handles:1 durations:2 max_extended_advertising_events:1 ]',
    0x203A: '', 0x203B: '',
    0x203C: 'advertising_handle:1',
    0x203D: '',
    0x203E: 'advertising_handle:1 periodic_advertising_interval_min:2 periodic_advertising_interval_max:2 '
            'periodic_advertising_properties:2',
    0x203F: 'advertising_handle:1 operation:1 advertising_data:V',
    0x2040: 'enable:1 advertising_handle:1',
    0x2041: 'own_address_type:1 scanning_filter_policy:1 scanning_phys:1 '
            '{scanning_phys scan_types:1 scan_intervals:2 scan_windows:2 }',
    0x2042: 'enable:1 filter_duplicates:1 duration:2 period:2',
    0x2043: 'initiator_filter_policy:1 own_address_type:1 peer_address_type:1 peer_address:T initiating_phys:1 '
            '{initiating_phys scan_intervals:2 scan_windows:2 connection_interval_mins:2 connection_interval_maxs:2 '
            'max_latencies:2 supervision_timeouts:2 min_ce_lengths:2 max_ce_lengths:2 }',
    0x2044: 'options:1 advertising_sid:1 advertiser_address_type:1 advertiser_address:T skip:2 sync_timeout:2 '
            'sync_cte_type:1',
    0x2045: '',
    0x2046: 'sync_handle:2',
    0x204B: '',
    0x204E: 'peer_identity_address_type:1 peer_identity_address:T privacy_mode:1',
    0x2059: 'sync_handle:2 enable:1',
    0x205A: _H + ' service_data:2 sync_handle:2',
    0x205B: _H + ' service_data:2 advertising_handle:1',
    0x205C: _H + ' mode:1 skip:2 sync_timeout:2 cte_type:1',
    0x205D: 'mode:1 skip:2 sync_timeout:2 cte_type:1',
    0x2060: '',
    0x2061: _H,
    0x2062: 'cig_id:1 sdu_interval_c_to_p:3 sdu_interval_p_to_c:3 worst_case_sca:1 packing:1 framing:1 '
            'max_transport_latency_c_to_p:2 max_transport_latency_p_to_c:2 '
            '[ cis_id:1 max_sdu_c_to_p:2 max_sdu_p_to_c:2 phy_c_to_p:1 phy_p_to_c:1 rtn_c_to_p:1 rtn_p_to_c:1 ]',
    0x2064: '[ cis_connection_handle:2 acl_connection_handle:2 ]',
    0x2065: 'cig_id:1',
    0x2066: _H,
    0x2067: _H + ' reason:1',
    0x2068: 'big_handle:1 advertising_handle:1 num_bis:1 sdu_interval:3 max_sdu:2 max_transport_latency:2 rtn:1 '
            'phy:1 packing:1 framing:1 encryption:1 broadcast_code:B16',
    0x206A: 'big_handle:1 reason:1',
    0x206B: 'big_handle:1 sync_handle:2 encryption:1 broadcast_code:B16 mse:1 big_sync_timeout:2 [ bis:1 ]',
    0x206C: 'big_handle:1',
    0x206E: _H + ' data_path_direction:1 data_path_id:1 codec_id:C controller_delay:3 codec_configuration:V',
    0x206F: _H + ' data_path_direction:1',
    0x2074: 'bit_number:1 bit_value:1',
    0x207D: _SUBRATE,
    0x207E: _H + ' ' + _SUBRATE,
    0x2087: '', 0x2089: '',
    0x208A: _H,
    0x208B: _H + ' ' + _CS_CAPS,
    0x208C: _H,
    0x208D: _H + ' role_enable:1 cs_sync_antenna_selection:1 max_tx_power:-1',
    0x208E: _H,
    0x208F: _H + ' remote_fae_table:B72',
    0x2090: _H + ' config_id:1 create_context:1 ' + _CS_CONFIG,
    0x2091: _H + ' config_id:1',
    0x2092: 'channel_classification:B10',
    0x2093: _H + ' config_id:1 max_procedure_len:2 min_procedure_interval:2 max_procedure_interval:2 '
            'max_procedure_count:2 min_subevent_len:3 max_subevent_len:3 tone_antenna_config_selection:1 phy:1 '
            'tx_power_delta:?1 preferred_peer_antenna:1 snr_control_initiator:1 snr_control_reflector:1',
    0x2094: _H + ' config_id:1 enable:1',
    0x2095: 'main_mode_type:1 sub_mode_type:1 main_mode_repetition:1 mode_0_steps:1 role:1 rtt_type:1 cs_sync_phy:1 '
            'cs_sync_antenna_selection:1 subevent_len:3 subevent_interval:2 max_num_subevents:1 '
            'transmit_power_level:?1 t_ip1_time:1 t_ip2_time:1 t_fcs_time:1 t_pm_time:1 t_sw_time:1 '
            'tone_antenna_config_selection:1 reserved:1 snr_control_initiator:1 snr_control_reflector:1 drbg_nonce:2 '
            'channel_map_repetition:1 override_config:2 override_parameters_data:V',
    0x2096: '',
    0x209D: _H + ' frame_space_min:2 frame_space_max:2 phys:1 spacing_types:2',
    0x20A3: '',
    # ---- Zephyr (hci_vs.h) and Android vendor commands ---------------------------------------
    0xFC0E: 'handle_type:1 connection_handle:2 tx_power_level:-1',
    0xFC0F: 'handle_type:1 connection_handle:2',
    0xFD53: '',
    0xFD57: _ANDROID,
    0xFD59: '',
    0xFD5D: _ANDROID,
    0xFD5F: _ANDROID,
}

VENDOR_EVENTS = {}


def layout_text(kind, code):
    table = {'command': COMMANDS, 'event': EVENTS, 'le-meta': LE_SUBEVENTS, 'vendor-event': VENDOR_EVENTS}.get(kind)
    if table is None:
        return None
    return table.get(code)
