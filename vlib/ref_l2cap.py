"""Independent L2CAP wire-level reference: signalling parser and the credit ledger
for LE / enhanced credit-based channels, evaluated over the host-boundary log of one
device (frames it sent, in the order it sent them; frames it received, in the order
they were delivered to it)."""
from __future__ import annotations

import struct

from . import rig as vrig

LE_SIG = 0x0005
BR_SIG = 0x0001

CODE_REJECT = 0x01
CODE_CONN_REQ = 0x02
CODE_CONN_RSP = 0x03
CODE_CONF_REQ = 0x04
CODE_CONF_RSP = 0x05
CODE_DISC_REQ = 0x06
CODE_DISC_RSP = 0x07
CODE_ECHO_REQ = 0x08
CODE_ECHO_RSP = 0x09
CODE_INFO_REQ = 0x0A
CODE_INFO_RSP = 0x0B
CODE_LE_COC_REQ = 0x14
CODE_LE_COC_RSP = 0x15
CODE_LE_CREDIT = 0x16
CODE_ECOC_REQ = 0x17
CODE_ECOC_RSP = 0x18


def parse_signalling(payload: bytes):
    """Yields (code, identifier, data) for each command in a signalling C-frame."""
    off = 0
    out = []
    while off + 4 <= len(payload):
        code, ident, ln = struct.unpack_from('<BBH', payload, off)
        out.append((code, ident, payload[off + 4: off + 4 + ln]))
        off += 4 + ln
    return out


def sig(code: int, ident: int, data: bytes) -> bytes:
    return struct.pack('<BBH', code, ident, len(data)) + data


class TxChannel:
    """What device D may send on a channel whose remote endpoint is `dcid`."""

    def __init__(self, handle, dcid, peer_mtu, peer_mps, credits, how):
        self.handle = handle
        self.dcid = dcid
        self.peer_mtu = peer_mtu
        self.peer_mps = peer_mps
        self.credits = credits
        self.how = how
        self.frames = 0
        self.sdu_left = 0
        self.sdus = 0
        self.min_credits_seen = credits
        self.zero_credit_moments = 0
        self.closed = False


def coc_ledger(boundary_log, dev: int, r, tag: str = ''):
    """Replays device `dev`'s boundary log. Reports through r.bad():
      coc/credit/frame-without-credit, coc/mps-exceeded, coc/mtu-exceeded,
      coc/sdu-overrun. Returns the list of TxChannel objects seen."""
    pdus = vrig.l2cap_log(boundary_log, dev=dev)
    # pending requests sent by dev: ident -> (kind, scids)
    sent_req = {}
    rcvd_req = {}
    tx: dict[tuple[int, int], TxChannel] = {}
    all_tx = []
    for _seq, _d, direction, handle, cid, payload in pdus:
        if cid == LE_SIG:
            for code, ident, data in parse_signalling(payload):
                if direction == vrig.H2C:
                    if code == CODE_LE_COC_REQ and len(data) >= 10:
                        sent_req[(handle, ident)] = ('le', [struct.unpack_from('<H', data, 2)[0]])
                    elif code == CODE_ECOC_REQ and len(data) >= 8:
                        n = (len(data) - 8) // 2
                        sent_req[(handle, ident)] = ('e', list(struct.unpack_from(f'<{n}H', data, 8)))
                    elif code == CODE_LE_COC_RSP and len(data) >= 10:
                        # dev accepted a request it received earlier: it may now send to
                        # the requester's scid with the requester's parameters
                        dcid, mtu, mps, cr, result = struct.unpack_from('<HHHHH', data, 0)
                        rq = rcvd_req.pop((handle, ident), None)
                        if result == 0 and rq:
                            _k, scids, pmtu, pmps, pcr = rq
                            ch = TxChannel(handle, scids[0], pmtu, pmps, pcr, 'acceptor/le')
                            tx[(handle, scids[0])] = ch
                            all_tx.append(ch)
                    elif code == CODE_ECOC_RSP and len(data) >= 8:
                        mtu, mps, cr, result = struct.unpack_from('<HHHH', data, 0)
                        n = (len(data) - 8) // 2
                        dcids = list(struct.unpack_from(f'<{n}H', data, 8))
                        rq = rcvd_req.pop((handle, ident), None)
                        if rq:
                            _k, scids, pmtu, pmps, pcr = rq
                            for scid, dcid in zip(scids, dcids):
                                if dcid != 0:
                                    ch = TxChannel(handle, scid, pmtu, pmps, pcr, 'acceptor/enhanced')
                                    tx[(handle, scid)] = ch
                                    all_tx.append(ch)
                    elif code == CODE_DISC_REQ and len(data) >= 4:
                        dcid, scid = struct.unpack_from('<HH', data, 0)
                        # dev asks to close: it must not send data afterwards, but frames
                        # are simply checked against the ledger as long as it exists
                    elif code == CODE_DISC_RSP and len(data) >= 4:
                        dcid, scid = struct.unpack_from('<HH', data, 0)
                        # dev confirms a close requested by the peer: dcid is dev's own
                        # endpoint, scid the peer's
                        ch = tx.get((handle, scid))
                        if ch:
                            ch.closed = True
                            del tx[(handle, scid)]
                else:  # received by dev
                    if code == CODE_LE_COC_REQ and len(data) >= 10:
                        psm, scid, mtu, mps, cr = struct.unpack_from('<HHHHH', data, 0)
                        rcvd_req[(handle, ident)] = ('le', [scid], mtu, mps, cr)
                    elif code == CODE_ECOC_REQ and len(data) >= 8:
                        psm, mtu, mps, cr = struct.unpack_from('<HHHH', data, 0)
                        n = (len(data) - 8) // 2
                        rcvd_req[(handle, ident)] = ('e', list(struct.unpack_from(f'<{n}H', data, 8)), mtu, mps, cr)
                    elif code == CODE_LE_COC_RSP and len(data) >= 10:
                        dcid, mtu, mps, cr, result = struct.unpack_from('<HHHHH', data, 0)
                        rq = sent_req.pop((handle, ident), None)
                        if result == 0 and rq:
                            ch = TxChannel(handle, dcid, mtu, mps, cr, 'requester/le')
                            tx[(handle, dcid)] = ch
                            all_tx.append(ch)
                    elif code == CODE_ECOC_RSP and len(data) >= 8:
                        mtu, mps, cr, result = struct.unpack_from('<HHHH', data, 0)
                        n = (len(data) - 8) // 2
                        dcids = list(struct.unpack_from(f'<{n}H', data, 8))
                        rq = sent_req.pop((handle, ident), None)
                        if rq:
                            for dcid in dcids:
                                if dcid != 0:
                                    ch = TxChannel(handle, dcid, mtu, mps, cr, 'requester/enhanced')
                                    tx[(handle, dcid)] = ch
                                    all_tx.append(ch)
                    elif code == CODE_LE_CREDIT and len(data) >= 4:
                        c, n = struct.unpack_from('<HH', data, 0)
                        ch = tx.get((handle, c))
                        if ch:
                            ch.credits += n
                            r.ev('ledger_credit_grants')
                            if n >= 32768:
                                r.ev('ledger_credit_grants_ge_32768')
                    elif code == CODE_DISC_RSP and len(data) >= 4:
                        dcid, scid = struct.unpack_from('<HH', data, 0)
                        ch = tx.get((handle, dcid))
                        if ch:
                            ch.closed = True
                            del tx[(handle, dcid)]
        elif cid >= 0x0040 and direction == vrig.H2C:
            ch = tx.get((handle, cid))
            if ch is None:
                continue
            r.ev('ledger_frames')
            ch.frames += 1
            r.ev('oracle_evals')
            if ch.credits <= 0:
                r.bad(f'coc/credit/frame-without-credit/{ch.how}{tag}',
                      f'dev{dev} sent K-frame #{ch.frames} on dcid {cid:#x} with ledger at {ch.credits} '
                      f'(peer mtu={ch.peer_mtu} mps={ch.peer_mps})')
            ch.credits -= 1
            if ch.credits == 0:
                ch.zero_credit_moments += 1
            ch.min_credits_seen = min(ch.min_credits_seen, ch.credits)
            r.ev('oracle_evals')
            if len(payload) >= 32768:
                r.ev('ledger_frames_ge_32768')
            if len(payload) > ch.peer_mps:
                r.bad(f'coc/mps-exceeded/{ch.how}{tag}',
                      f'dev{dev} K-frame of {len(payload)} bytes > peer MPS {ch.peer_mps} on dcid {cid:#x}')
            if ch.sdu_left == 0:
                if len(payload) < 2:
                    r.bad(f'coc/short-first-frame/{ch.how}{tag}', f'first K-frame of an SDU has {len(payload)} bytes')
                    continue
                sdu_len = struct.unpack_from('<H', payload, 0)[0]
                ch.sdus += 1
                r.ev('oracle_evals')
                if sdu_len >= 32768:
                    r.ev('ledger_sdus_ge_32768')
                if sdu_len > ch.peer_mtu:
                    r.bad(f'coc/mtu-exceeded/{ch.how}{tag}',
                          f'dev{dev} SDU of {sdu_len} bytes > peer MTU {ch.peer_mtu} on dcid {cid:#x}')
                got = len(payload) - 2
                if got > sdu_len:
                    r.bad(f'coc/sdu-overrun/{ch.how}{tag}', f'frame carries {got} bytes for an SDU of {sdu_len}')
                    got = sdu_len
                ch.sdu_left = sdu_len - got
            else:
                if len(payload) > ch.sdu_left:
                    r.bad(f'coc/sdu-overrun/{ch.how}{tag}',
                          f'continuation of {len(payload)} bytes but only {ch.sdu_left} left in SDU')
                    ch.sdu_left = 0
                else:
                    ch.sdu_left -= len(payload)
    return all_tx


# -----------------------------------------------------------------------------
REQUEST_CODES = {0x02, 0x04, 0x06, 0x08, 0x0A, 0x12, 0x14, 0x17, 0x19}
RESPONSE_CODES = {0x01, 0x03, 0x05, 0x07, 0x09, 0x0B, 0x13, 0x15, 0x18, 0x1A}
ONEWAY_CODES = {CODE_LE_CREDIT}     # consumes an identifier, never answered


class SigWatch:
    """Live watcher of the signalling commands one device sends (attach with rig.on_hci_logged): per link the
    identifier of the last command, the number of commands, the requests still unanswered, and how often the
    identifier wrapped around while requests were outstanding. Built on the independent ACL reassembler."""

    def __init__(self, rig, dev: int):
        self.dev = dev
        self.reasm = vrig.RefReassembler()
        self.last_ident: dict[int, int] = {}
        self.sequence: dict[int, list[int]] = {}
        self.commands: dict[int, int] = {}
        self.outstanding: dict[int, dict[int, int]] = {}
        self.wraps_with_outstanding = 0
        self.max_outstanding_at_wrap = 0
        self.zero_identifiers = 0
        self.duplicate_outstanding = 0
        rig.on_hci_logged.append(self.on_logged)

    def on_logged(self, rec):
        _seq, d, dr, pkt, _t = rec
        if d != self.dev or pkt[0] != 0x02:
            return
        handle, pb, _bc, data = vrig.parse_acl(pkt)
        for cid, payload in self.reasm.feed((d, dr, handle), pb, data):
            if cid not in (LE_SIG, BR_SIG):
                continue
            for code, ident, _data in parse_signalling(payload):
                out = self.outstanding.setdefault(handle, {})
                if dr == vrig.H2C and (code in REQUEST_CODES or code in ONEWAY_CODES):
                    prev = self.last_ident.get(handle, 0)
                    self.commands[handle] = self.commands.get(handle, 0) + 1
                    if ident == 0:
                        self.zero_identifiers += 1
                    if ident in out:
                        self.duplicate_outstanding += 1
                    if ident <= prev and out:
                        self.wraps_with_outstanding += 1
                        self.max_outstanding_at_wrap = max(self.max_outstanding_at_wrap, len(out))
                    elif out and any(o > ident for o in out):
                        # a request issued before the wrap is still unanswered after it
                        self.max_outstanding_at_wrap = max(self.max_outstanding_at_wrap, len(out))
                    self.last_ident[handle] = ident
                    self.sequence.setdefault(handle, []).append(ident)
                    if code in REQUEST_CODES:
                        out[ident] = code
                elif dr == vrig.C2H and code in RESPONSE_CODES:
                    if code == CODE_CONN_RSP and len(_data) >= 6 and struct.unpack_from('<H', _data, 4)[0] == 1:
                        continue        # "connection pending": the request stays outstanding
                    out.pop(ident, None)

    def forget(self, handle: int):
        for t in (self.last_ident, self.commands, self.outstanding, self.sequence):
            t.pop(handle, None)
