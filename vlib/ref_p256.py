"""Independent reference for NIST P-256 (secp256r1) on Python ints, in *affine*
coordinates with the textbook chord-and-tangent formulas, plus the published sample
data the C14 check compares bumble's two back ends with.

Nothing here imports bumble or the `cryptography` package.  The curve constants are
the ones printed in FIPS 186-4 D.1.2.3 / SEC 2 2.4.2; `selftest()` re-derives the
internal consistency of the constants and of every vector written below (b from the
generator, n*G = infinity, public = private*G, both ECDH directions), so a typo in
this file shows up as a harness error, never as a verdict on bumble.
"""
from __future__ import annotations

P = 0xFFFFFFFF00000001000000000000000000000000FFFFFFFFFFFFFFFFFFFFFFFF
A = P - 3
B = 0x5AC635D8AA3A93E7B3EBBD55769886BC651D06B0CC53B0F63BCE3C3E27D2604B
N = 0xFFFFFFFF00000000FFFFFFFFFFFFFFFFBCE6FAADA7179E84F3B9CAC2FC632551
GX = 0x6B17D1F2E12C4247F8BCE6E563A440F277037D812DEB33A0F4A13945D898C296
GY = 0x4FE342E2FE1A7F9B8EE7EB4A7C0F9E162BCE33576B315ECECBB6406837BF51F5
G = (GX, GY)
INF = None  # the point at infinity


class InvalidPoint(ValueError):
    pass


def on_curve(x: int, y: int) -> bool:
    """Full public-key validation of SP 800-56A 5.6.2.3.3 minus the order check
    (the cofactor of P-256 is 1, so every finite point has order n)."""
    if not (0 <= x < P and 0 <= y < P):
        return False
    return (y * y - (x * x * x + A * x + B)) % P == 0


def add(p1, p2):
    if p1 is INF:
        return p2
    if p2 is INF:
        return p1
    x1, y1 = p1
    x2, y2 = p2
    if x1 == x2:
        if (y1 + y2) % P == 0:
            return INF
        lam = (3 * x1 * x1 + A) * pow(2 * y1, -1, P) % P
    else:
        lam = (y2 - y1) * pow(x2 - x1, -1, P) % P
    x3 = (lam * lam - x1 - x2) % P
    y3 = (lam * (x1 - x3) - y1) % P
    return (x3, y3)


def neg(p):
    if p is INF:
        return INF
    return (p[0], (-p[1]) % P)


def mul(k: int, p):
    """Left-to-right binary method, affine (one modular inverse per step)."""
    if k < 0:
        return mul(-k, neg(p))
    acc = INF
    for bit in bin(k)[2:] if k else '':
        acc = add(acc, acc)
        if bit == '1':
            acc = add(acc, p)
    return acc


def public_key(d: int):
    if not 1 <= d < N:
        raise InvalidPoint('private scalar out of [1, n-1]')
    return mul(d, G)


def ecdh(d: int, x: int, y: int) -> bytes:
    """x coordinate of d*(x, y), 32 bytes big-endian; raises for an invalid peer key."""
    if not on_curve(x, y):
        raise InvalidPoint('peer public key is not a point on P-256')
    s = mul(d, (x, y))
    if s is INF:
        raise InvalidPoint('shared point is the point at infinity')
    return s[0].to_bytes(32, 'big')


def sqrt_mod_p(a: int):
    """p = 3 (mod 4): the square root, or None when a is a non-residue."""
    a %= P
    r = pow(a, (P + 1) // 4, P)
    return r if r * r % P == a else None


def lift_x(x: int):
    """(x, y) on the curve with the smaller y, or None when x is not an abscissa."""
    if not 0 <= x < P:
        return None
    y = sqrt_mod_p(x * x * x + A * x + B)
    if y is None:
        return None
    return (x, min(y, P - y))


def h(s: str) -> int:
    return int(s.replace(' ', ''), 16)


# -----------------------------------------------------------------------------
# Published sample data
# -----------------------------------------------------------------------------
# Bluetooth Core Specification Vol 2 Part G 7.1.2 "P-256 sample data"
# (private A, private B, public A, public B, DHKey).  Data set 1's key A is also the
# LE Secure Connections *debug key* of Vol 3 Part H 2.3.5.6.1.
BT_P256 = [
    {
        'name': 'core-v2-pG-7.1.2.1',
        'da': h('3f49f6d4 a3c55f38 74c9b3e3 d2103f50 4aff607b eb40b799 5899b8a6 cd3c1abd'),
        'db': h('55188b3d 32f6bb9a 900afcfb eed4e72a 59cb9ac2 f19d7cfb 6b4fdd49 f47fc5fd'),
        'ax': h('20b003d2 f297be2c 5e2c83a7 e9f9a5b9 eff49111 acf4fddb cc030148 0e359de6'),
        'ay': h('dc809c49 652aeb6d 63329abf 5a52155c 766345c2 8fed3024 741c8ed0 1589d28b'),
        'bx': h('1ea1f0f0 1faf1d96 09592284 f19e4c00 47b58afd 8615a69f 559077b2 2faaa190'),
        'by': h('4c55f33e 429dad37 7356703a 9ab85160 472d1130 e28e3676 5f89aff9 15b1214a'),
        'dh': h('ec0234a3 57c8ad05 341010a6 0a397d9b 99796b13 b4f866f1 868d34f3 73bfa698'),
    },
    {
        'name': 'core-v2-pG-7.1.2.2',
        'da': h('06a51669 3c9aa31a 6084545d 0c5db641 b48572b9 7203ddff b7ac73f7 d0457663'),
        'db': h('529aa067 0d72cd64 97502ed4 73502b03 7e8803b5 c60829a5 a3caa219 505530ba'),
        'ax': h('2c31a47b 5779809e f44cb5ea af5c3e43 d5f8faad 4a8794cb 987e9b03 745c78dd'),
        'ay': h('91951218 3898dfbe cd52e240 8e43871f d0211091 17bd3ed4 eaf84377 43715d4f'),
        'bx': h('f465e43f f23d3f1b 9dc7dfc0 4da87581 84dbc966 204796ec cf0d6cf5 e16500cc'),
        'by': h('0201d048 bcbbd899 eeefc424 164e33c2 01c2b010 ca6b4d43 a8a155ca d8ecb279'),
        'dh': h('ab85843a 2f6d883f 62e5684b 38e30733 5fe6e194 5ecd1960 4105c6f2 3221eb69'),
    },
    # RFC 5903 section 8.1 (256-bit random ECP group), i / r / g^ir
    {
        'name': 'rfc5903-8.1',
        'da': h('C88F01F5 10D9AC3F 70A292DA A2316DE5 44E9AAB8 AFE84049 C62A9C57 862D1433'),
        'db': h('C6EF9C5D 78AE012A 011164AC B397CE20 88685D8F 06BF9BE0 B283AB46 476BEE53'),
        'ax': h('DAD0B653 94221CF9 B051E1FE CA5787D0 98DFE637 FC90B9EF 945D0C37 72581180'),
        'ay': h('5271A046 1CDB8252 D61F1C45 6FA3E59A B1F45B33 ACCF5F58 389E0577 B8990BB3'),
        'bx': h('D12DFB52 89C8D4F8 1208B702 70398C34 2296970A 0BCCB74C 736FC755 4494BF63'),
        'by': h('56FBF3CA 366CC23E 8157854C 13C58D6A AC23F046 ADA30F83 53E74F33 039872AB'),
        'dh': h('D6840F6B 42F6EDAF D13116E0 E1256520 2FEF8E9E CE7DCE03 812464D0 4B9442DE'),
    },
]

# LE Secure Connections debug key, Core Vol 3 Part H 2.3.5.6.1
DEBUG_PRIVATE = BT_P256[0]['da']
DEBUG_PUBLIC_X = BT_P256[0]['ax']
DEBUG_PUBLIC_Y = BT_P256[0]['ay']

# Small multiples of the base point (the widely reproduced NIST "point multiplication"
# sample values for P-256): k -> (x, y)
KG = {
    1: (GX, GY),
    2: (h('7CF27B188D034F7E8A52380304B51AC3C08969E277F21B35A60B48FC47669978'),
        h('07775510DB8ED040293D9AC69F7430DBBA7DADE63CE982299E04B79D227873D1')),
    3: (h('5ECBE4D1A6330A44C8F7EF951D4BF165E6C6B721EFADA985FB41661BC6E7FD6C'),
        h('8734640C4998FF7E374B06CE1A64A2ECD82AB036384FB83D9A79B127A27D5032')),
}


_selftested = False


def selftest():
    """Raises AssertionError when this file is inconsistent with itself."""
    global _selftested
    if _selftested:
        return
    assert P == 2**256 - 2**224 + 2**192 + 2**96 - 1
    assert on_curve(GX, GY)
    assert mul(N, G) is INF and mul(N - 1, G) == neg(G)
    assert add(G, neg(G)) is INF and add(G, G) == mul(2, G)
    for k, pt in KG.items():
        assert mul(k, G) == pt, f'kG sample {k}'
    for v in BT_P256:
        assert public_key(v['da']) == (v['ax'], v['ay']), v['name']
        assert public_key(v['db']) == (v['bx'], v['by']), v['name']
        assert ecdh(v['da'], v['bx'], v['by']) == v['dh'].to_bytes(32, 'big'), v['name']
        assert ecdh(v['db'], v['ax'], v['ay']) == v['dh'].to_bytes(32, 'big'), v['name']
    # distributivity on a few scalars: (a+b)G = aG + bG, a(bG) = b(aG)
    a, b = 0x1234567 << 200 | 0xABCDEF, N - 0x31415926535
    assert mul((a + b) % N, G) == add(mul(a, G), mul(b, G))
    assert mul(a, mul(b, G)) == mul(b, mul(a, G)) == mul(a * b % N, G)
    _selftested = True
