"""Independent ledger of the connection handles a controller has announced to its host.

Written from the Core specification (Vol 4 Part E, 7.7 events), fed with the raw controller-to-host HCI packets
of the rig's tap (H4 framing: first octet 0x04 = event). It never looks at bumble's tables or parsers.

  opened by   Connection Complete (0x03, status 0)                     -> 'bredr'
              Synchronous Connection Complete (0x2C, status 0)         -> 'sco'
              LE Connection Complete (0x3E/0x01), LE Enhanced Connection Complete v1/v2 (0x3E/0x0A, 0x3E/0x29),
              status 0                                                 -> 'le'
              LE CIS Established (0x3E/0x19, status 0)                 -> 'cis'
  reserved by Command Complete of LE Set CIG Parameters (opcode 0x2062, status 0): the CIS handles of the CIG
              LE CIS Request (0x3E/0x1A): the CIS handle offered to the peripheral's host
  closed by   Disconnection Complete (0x05) with status 0
  released by Command Complete of LE Remove CIG (0x2065, status 0), a failed LE CIS Established on a handle that was
              offered with LE CIS Request

A handle names ONE link: the controller must not announce a link on a handle that still names another live link, or
that is reserved for a CIS (Vol 4 Part E 5.3.1: "Connection_Handle ... uniquely identif[ies]" a logical transport)."""
from __future__ import annotations


class HandleLedger:
    def __init__(self):
        self.live = {}          # handle -> kind
        self.reserved = {}      # handle -> ('cig', cig_id) | ('cis-request', acl_handle)
        self.collisions = []    # (new kind, handle, old kind)
        self.opens = 0
        self.closes = 0
        self.failed_disconnections = []   # (handle, status)
        self.unknown_closes = []
        self.history = []       # ('open'|'close'|'reserve'|'release', kind, handle)
        self.last_kind = {}     # handle -> kind of the last link that was closed on it
        self.reuses = []        # (new kind, kind of the closed link that had the handle before)

    def _open(self, kind, handle):
        self.opens += 1
        self.history.append(('open', kind, handle))
        if handle in self.last_kind and handle not in self.live:
            self.reuses.append((kind, self.last_kind[handle]))
        if handle in self.live:
            self.collisions.append((kind, handle, self.live[handle]))
        elif handle in self.reserved and kind != 'cis':
            self.collisions.append((kind, handle, 'reserved-cis'))
        self.live[handle] = kind

    def _reserve(self, handle, why):
        self.history.append(('reserve', 'cis', handle))
        if handle in self.live and self.live[handle] != 'cis':
            self.collisions.append(('reserved-cis', handle, self.live[handle]))
        self.reserved[handle] = why

    def feed(self, packet: bytes):
        """One controller-to-host H4 packet."""
        if len(packet) < 3 or packet[0] != 0x04:
            return
        code, p = packet[1], packet[3:]
        if code == 0x03 and len(p) >= 11:
            if p[0] == 0 and p[9] == 0x01:
                self._open('bredr', int.from_bytes(p[1:3], 'little') & 0xFFF)
        elif code == 0x2C and len(p) >= 3:
            if p[0] == 0:
                self._open('sco', int.from_bytes(p[1:3], 'little') & 0xFFF)
        elif code == 0x05 and len(p) >= 4:
            handle = int.from_bytes(p[1:3], 'little') & 0xFFF
            if p[0] != 0:
                self.failed_disconnections.append((handle, p[0]))
                return
            self.closes += 1
            kind = self.live.pop(handle, None)
            self.history.append(('close', kind, handle))
            if kind is None:
                self.unknown_closes.append(handle)
            else:
                self.last_kind[handle] = kind
            why = self.reserved.get(handle)
            if why is not None and why[0] == 'cis-request':
                del self.reserved[handle]
        elif code == 0x3E and p:
            sub, q = p[0], p[1:]
            if sub in (0x01, 0x0A, 0x29) and len(q) >= 3:
                if q[0] == 0:
                    self._open('le', int.from_bytes(q[1:3], 'little') & 0xFFF)
            elif sub == 0x19 and len(q) >= 3:
                handle = int.from_bytes(q[1:3], 'little') & 0xFFF
                if q[0] == 0:
                    self._open('cis', handle)
                else:
                    why = self.reserved.get(handle)
                    if why is not None and why[0] == 'cis-request':
                        del self.reserved[handle]
            elif sub == 0x1A and len(q) >= 4:
                self._reserve(int.from_bytes(q[2:4], 'little') & 0xFFF, ('cis-request', int.from_bytes(q[0:2], 'little')))
        elif code == 0x0E and len(p) >= 4:
            opcode = int.from_bytes(p[1:3], 'little')
            rp = p[3:]
            if opcode == 0x2062 and len(rp) >= 3 and rp[0] == 0:
                for i in range(rp[2]):
                    if len(rp) >= 5 + 2 * i:
                        self._reserve(int.from_bytes(rp[3 + 2 * i:5 + 2 * i], 'little') & 0xFFF, ('cig', rp[1]))
            elif opcode == 0x2065 and len(rp) >= 2 and rp[0] == 0:
                for h in [h for h, why in self.reserved.items() if why == ('cig', rp[1])]:
                    self.history.append(('release', 'cis', h))
                    del self.reserved[h]

    def live_by_kind(self):
        out = {'le': set(), 'bredr': set(), 'sco': set(), 'cis': set()}
        for h, k in self.live.items():
            out[k].add(h)
        return out
