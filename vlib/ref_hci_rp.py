"""Return-parameter layouts of HCI commands, per op code, written down from the
Bluetooth Core specification (Vol 4 Part E 7.x, "Return parameters" of each command;
arrays per 5.2: a Num_X octet followed by X[0], Y[0], X[1], Y[1], ...), from the
Android "HCI requirements" page (OGF 0x3F, OCF 0x153..0x15F) and from Zephyr's
include/zephyr/bluetooth/hci_vs.h (OCF 0x0E / 0x0F) for the vendor commands.

Nothing in here imports bumble or reads bumble's declarations: the table is the
independent statement of what a controller puts after Num_HCI_Command_Packets and
Command_Opcode in a successful Command Complete event (C01 clause H).

Layout language (a tuple of tokens, all integers little-endian):
    n            a fixed field of n octets (1..4: integer, 6: BD_ADDR, other: octet array)
    ('n', (a, b, ..))   one count octet N, then N items, each item the fields a, b, ..
                        octets wide, in that order
    ('rest', u)         the rest of the parameters, a multiple of u octets
"""
from __future__ import annotations

S = (1,)               # Status
SH = (1, 2)            # Status, Connection_Handle
SA = (1, 6)            # Status, BD_ADDR

RETURN_PARAMETERS = {
    # ---- Link Control (OGF 1) ---------------------------------------------------
    0x0402: S,     # Inquiry Cancel
    0x0408: SA,    # Create Connection Cancel
    0x040B: SA,    # Link Key Request Reply
    0x040C: SA,    # Link Key Request Negative Reply
    0x040D: SA,    # PIN Code Request Reply
    0x040E: SA,    # PIN Code Request Negative Reply
    0x042B: SA,    # IO Capability Request Reply
    0x042C: SA,    # User Confirmation Request Reply
    0x042D: SA,    # User Confirmation Request Negative Reply
    0x042E: SA,    # User Passkey Request Reply
    0x042F: SA,    # User Passkey Request Negative Reply
    0x0430: SA,    # Remote OOB Data Request Reply
    0x0433: SA,    # Remote OOB Data Request Negative Reply
    0x0434: SA,    # IO Capability Request Negative Reply
    0x0440: SA,    # Truncated Page Cancel
    0x0441: (1, 1, 2),      # Set Connectionless Peripheral Broadcast: Status, LT_ADDR, Interval
    0x0442: (1, 6, 1),      # Set Connectionless Peripheral Broadcast Receive: Status, BD_ADDR, LT_ADDR
    0x0445: SA,    # Remote OOB Extended Data Request Reply (7.1.53: Status, BD_ADDR)
    # ---- Link Policy (OGF 2) ----------------------------------------------------
    0x080D: SH,    # Write Link Policy Settings
    0x080F: S,     # Write Default Link Policy Settings
    0x0811: SH,    # Sniff Subrating
    # ---- Controller & Baseband (OGF 3) ------------------------------------------
    0x0C01: S,     # Set Event Mask
    0x0C03: S,     # Reset
    0x0C05: S,     # Set Event Filter
    0x0C0D: (1, 2, 2),      # Read Stored Link Key: Status, Max_Num_Keys, Num_Keys_Read
    0x0C12: (1, 2),         # Delete Stored Link Key: Status, Num_Keys_Deleted
    0x0C13: S,     # Write Local Name
    0x0C14: (1, 248),       # Read Local Name
    0x0C16: S,     # Write Connection Accept Timeout
    0x0C18: S,     # Write Page Timeout
    0x0C1A: S,     # Write Scan Enable
    0x0C1B: (1, 2, 2),      # Read Page Scan Activity
    0x0C1C: S,     # Write Page Scan Activity
    0x0C1E: S,     # Write Inquiry Scan Activity
    0x0C1F: (1, 1),         # Read Authentication Enable
    0x0C20: S,     # Write Authentication Enable
    0x0C23: (1, 3),         # Read Class Of Device
    0x0C24: S,     # Write Class Of Device
    0x0C25: (1, 2),         # Read Voice Setting
    0x0C26: S,     # Write Voice Setting
    0x0C2E: (1, 1),         # Read Synchronous Flow Control Enable
    0x0C2F: S,     # Write Synchronous Flow Control Enable
    0x0C31: S,     # Set Controller To Host Flow Control
    0x0C33: S,     # Host Buffer Size
    0x0C37: SH,    # Write Link Supervision Timeout: Status, Handle
    0x0C38: (1, 1),         # Read Number Of Supported IAC
    0x0C39: (1, ('n', (3,))),   # Read Current IAC LAP: Status, Num_Current_IAC, IAC_LAP[i]
    0x0C43: S,     # Write Inquiry Scan Type
    0x0C45: S,     # Write Inquiry Mode
    0x0C46: (1, 1),         # Read Page Scan Type
    0x0C47: S,     # Write Page Scan Type
    0x0C52: S,     # Write Extended Inquiry Response
    0x0C56: S,     # Write Simple Pairing Mode
    0x0C57: (1, 16, 16),    # Read Local OOB Data: Status, C, R
    0x0C58: (1, 1),         # Read Inquiry Response Transmit Power Level
    0x0C5A: (1, 1),         # Read Default Erroneous Data Reporting
    0x0C63: S,     # Set Event Mask Page 2
    0x0C6C: (1, 1, 1),      # Read LE Host Support: Status, LE_Supported_Host, Unused
    0x0C6D: S,     # Write LE Host Support
    0x0C7A: S,     # Write Secure Connections Host Support
    0x0C7C: SH,    # Write Authenticated Payload Timeout (7.3.94: Status, Connection_Handle)
    0x0C7D: (1, 16, 16, 16, 16),  # Read Local OOB Extended Data: Status, C_192, R_192, C_256, R_256
    0x0C83: S,     # Configure Data Path
    # ---- Informational (OGF 4) --------------------------------------------------
    0x1001: (1, 1, 2, 1, 2, 2),   # Read Local Version Information
    0x1002: (1, 64),        # Read Local Supported Commands
    0x1003: (1, 8),         # Read Local Supported Features
    0x1004: (1, 1, 1, 8),   # Read Local Extended Features
    0x1005: (1, 2, 1, 2, 2),      # Read Buffer Size
    0x1009: SA,    # Read BD_ADDR
    0x100B: (1, ('n', (1,)), ('n', (4,))),       # Read Local Supported Codecs [v1]
    0x100D: (1, ('n', (1, 1)), ('n', (4, 1))),   # Read Local Supported Codecs [v2]
    # ---- Status (OGF 5) ---------------------------------------------------------
    0x1405: (1, 2, 1),      # Read RSSI
    0x1408: (1, 2, 1),      # Read Encryption Key Size
    # ---- Testing (OGF 6) --------------------------------------------------------
    0x1801: (1, 1),         # Read Loopback Mode
    0x1802: S,     # Write Loopback Mode
    # ---- LE Controller (OGF 8) --------------------------------------------------
    0x2001: S,     # LE Set Event Mask
    0x2002: (1, 2, 1),      # LE Read Buffer Size [v1]
    0x2003: (1, 8),         # LE Read Local Supported Features
    0x2005: S,     # LE Set Random Address
    0x2006: S,     # LE Set Advertising Parameters
    0x2007: (1, 1),         # LE Read Advertising Physical Channel Tx Power
    0x2008: S,     # LE Set Advertising Data
    0x2009: S,     # LE Set Scan Response Data
    0x200A: S,     # LE Set Advertising Enable
    0x200B: S,     # LE Set Scan Parameters
    0x200C: S,     # LE Set Scan Enable
    0x200E: S,     # LE Create Connection Cancel
    0x200F: (1, 1),         # LE Read Filter Accept List Size
    0x2010: S,     # LE Clear Filter Accept List
    0x2011: S,     # LE Add Device To Filter Accept List
    0x2012: S,     # LE Remove Device From Filter Accept List
    0x2018: (1, 8),         # LE Rand
    0x201A: SH,    # LE Long Term Key Request Reply
    0x201B: SH,    # LE Long Term Key Request Negative Reply
    0x201C: (1, 8),         # LE Read Supported States
    0x2020: SH,    # LE Remote Connection Parameter Request Reply
    0x2021: SH,    # LE Remote Connection Parameter Request Negative Reply
    0x2022: SH,    # LE Set Data Length
    0x2023: (1, 2, 2),      # LE Read Suggested Default Data Length
    0x2024: S,     # LE Write Suggested Default Data Length
    0x2027: S,     # LE Add Device To Resolving List
    0x2029: S,     # LE Clear Resolving List
    0x202A: (1, 1),         # LE Read Resolving List Size
    0x202D: S,     # LE Set Address Resolution Enable
    0x202E: S,     # LE Set Resolvable Private Address Timeout
    0x202F: (1, 2, 2, 2, 2),      # LE Read Maximum Data Length
    0x2030: (1, 2, 1, 1),   # LE Read PHY
    0x2031: S,     # LE Set Default PHY
    0x2035: S,     # LE Set Advertising Set Random Address
    0x2036: (1, 1),         # LE Set Extended Advertising Parameters [v1]: Status, Selected_TX_Power
    0x2037: S,     # LE Set Extended Advertising Data
    0x2038: S,     # LE Set Extended Scan Response Data
    0x2039: S,     # LE Set Extended Advertising Enable
    0x203A: (1, 2),         # LE Read Maximum Advertising Data Length
    0x203B: (1, 1),         # LE Read Number Of Supported Advertising Sets
    0x203C: S,     # LE Remove Advertising Set
    0x203D: S,     # LE Clear Advertising Sets
    0x203E: S,     # LE Set Periodic Advertising Parameters [v1]
    0x203F: S,     # LE Set Periodic Advertising Data
    0x2040: S,     # LE Set Periodic Advertising Enable
    0x2041: S,     # LE Set Extended Scan Parameters
    0x2042: S,     # LE Set Extended Scan Enable
    0x2045: S,     # LE Periodic Advertising Create Sync Cancel
    0x2046: S,     # LE Periodic Advertising Terminate Sync
    0x204B: (1, 1, 1),      # LE Read Transmit Power: Status, Min_TX_Power, Max_TX_Power
    0x204E: S,     # LE Set Privacy Mode
    0x2059: S,     # LE Set Periodic Advertising Receive Enable
    0x205A: SH,    # LE Periodic Advertising Sync Transfer
    0x205B: SH,    # LE Periodic Advertising Set Info Transfer
    0x205C: SH,    # LE Set Periodic Advertising Sync Transfer Parameters
    0x205D: S,     # LE Set Default Periodic Advertising Sync Transfer Parameters
    0x2060: (1, 2, 1, 2, 1),      # LE Read Buffer Size [v2]
    0x2061: (1, 2, 2, 4, 3),      # LE Read ISO TX Sync: Status, Connection_Handle, Packet_Sequence_Number,
                                  # TX_Time_Stamp (4), Time_Offset (3 octets, 7.8.96)
    0x2062: (1, 1, ('n', (2,))),  # LE Set CIG Parameters: Status, CIG_ID, CIS_Count, Connection_Handle[i]
    0x2065: (1, 1),         # LE Remove CIG: Status, CIG_ID
    0x2067: SH,    # LE Reject CIS Request
    0x206C: (1, 1),         # LE BIG Terminate Sync: Status, BIG_Handle
    0x206E: SH,    # LE Setup ISO Data Path
    0x206F: SH,    # LE Remove ISO Data Path
    0x2074: S,     # LE Set Host Feature
    0x207D: S,     # LE Set Default Subrate
    0x2087: (1, 1, 248),    # LE Read All Local Supported Features: Status, Max_Page, LE_Features
    0x2089: (1, 1, 2, 1, 1, 1, 1, 1, 1, 1, 1, 2, 2, 1, 2, 2, 2, 2, 2, 1, 1),
                            # LE CS Read Local Supported Capabilities (7.8.130, 29 octets)
    0x208B: SH,    # LE CS Write Cached Remote Supported Capabilities
    0x208D: SH,    # LE CS Set Default Settings
    0x208F: SH,    # LE CS Write Cached Remote FAE Table
    0x2092: S,     # LE CS Set Channel Classification
    0x2093: SH,    # LE CS Set Procedure Parameters
    0x2095: S,     # LE CS Test
    0x20A2: S,     # LE Set Default Rate Parameters
    0x20A3: (1, 1, ('n', (2, 2, 2))),   # LE Read Minimum Supported Connection Interval: Status,
                            # Minimum_Supported_Connection_Interval, Num_Groups, Group_Min/Max/Stride[i]
    # ---- Zephyr vendor commands ---------------------------------------------------
    0xFC0E: (1, 1, 2, 1),   # Write Tx Power Level: status, handle_type, handle, selected_tx_power
    0xFC0F: (1, 1, 2, 1),   # Read Tx Power Level: status, handle_type, handle, tx_power_level
    # ---- Android vendor commands ----------------------------------------------------
    0xFD53: (1, 1, 1, 2, 1, 1, 1, 1, 2, 2, 1, 1, 1, 4, 1, 4),   # LE Get Vendor Capabilities (v1.04 layout)
    0xFD57: (1, 1, ('rest', 1)),        # LE APCF: status, APCF opcode, sub-command specific
    0xFD59: (1, 4, 4, 4, 4),            # Get Controller Activity Energy Info
    0xFD5D: (1, 1, ('rest', 1)),        # A2DP Hardware Offload: status, sub-opcode, sub-command specific
    0xFD5F: (1, 1, ('rest', 1)),        # Dynamic Audio Buffer: status, sub-opcode, sub-command specific
}


def min_length(layout):
    n = 0
    for t in layout:
        n += t if isinstance(t, int) else 1 if t[0] == 'n' else 0
    return n


def field_count(layout):
    """Number of attributes a class with one attribute per spec parameter has (the
    count octet of an array is not a parameter of its own)."""
    n = 0
    for t in layout:
        n += 1 if isinstance(t, int) else len(t[1]) if t[0] == 'n' else 1
    return n


def generate(rng, layout, gen_bytes, budget=252):
    """Spec-shaped return parameters with Status = 0.  Returns (bytes, parts) where
    parts is a list, one entry per token: ('f', offset, size) | ('n', offset_of_count,
    count, item_sizes) | ('rest', offset, size)."""
    out = bytearray()
    parts = []
    left = budget - min_length(layout)
    for i, t in enumerate(layout):
        if isinstance(t, int):
            parts.append(('f', len(out), t))
            out += b'\x00' if i == 0 else gen_bytes(rng, t)
        elif t[0] == 'n':
            item = sum(t[1])
            cap = max(0, left // item)
            n = rng.choice([0, 1, 2, 3, min(cap, 255), rng.randint(0, min(cap, 255))])
            n = min(n, cap, 255)
            left -= n * item
            parts.append(('n', len(out), n, t[1]))
            out.append(n)
            out += gen_bytes(rng, n * item)
        else:
            u = t[1]
            n = rng.choice([0, 1, 2, 7, 31, left // u, rng.randint(0, max(0, left // u))])
            n = min(n, left // u) * u
            left -= n
            parts.append(('rest', len(out), n))
            out += gen_bytes(rng, n)
    return bytes(out), parts
