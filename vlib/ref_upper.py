"""Independent reference layouts for the protocol data units above HCI (property C18).

Nothing in this file imports bumble.  Every expected byte string is produced from the
layouts written down here from the Bluetooth specifications (Core Vol 3 Part A/B/C/F/H,
CSS Part A, RFCOMM / TS 07.10, AVDTP, AVCTP, AV/C, AVRCP, RFC 3550, A2DP).  The check
(checks/c18.py) builds bumble objects from the same generated values and compares.

A *kind* knows how to generate a value (boundary biased), how to encode it, and how to
name the discriminating class of a value (used in mechanism keys).  Values are plain
Python: ints, bytes, str, lists, tuples.  UUIDs are little-endian bytes of length
2/4/16 (the order used by ATT and advertising data); SDP elements are tagged tuples.
"""
from __future__ import annotations

import random
import struct

# =============================================================================
# generators
# =============================================================================
BASE_UUID_LE = bytes.fromhex('00001000800000805F9B34FB')[::-1]  # low 12 bytes, little endian

# 16-bit values: the first are assigned numbers bumble registers at import time, the
# last ones are unassigned (never registered unless a test step does it)
UUID16_POOL = [0x0003, 0x0100, 0x1101, 0x110B, 0x180D, 0x180F, 0x2A37, 0x2902,
               0x7A31, 0x6C01, 0x7B55, 0xFEED]


def uuid128_from16(v: int) -> bytes:
    return BASE_UUID_LE + struct.pack('<I', v)


def rnd_bytes(rng: random.Random, n: int) -> bytes:
    return rng.randbytes(n) if n else b''


def gen_int(rng: random.Random, bits: int) -> int:
    top = (1 << bits) - 1
    c = rng.random()
    if c < 0.45:
        cands = [0, 1, 2, 0x7F, 0x80, 0xFF, 0x100, 0x7FFF, 0x8000, 0xFFFF, 0x10000,
                 top, top - 1, top >> 1, (top >> 1) + 1, 0x0102, 0x01020304, 0x0102030405060708]
        v = rng.choice(cands)
        return v & top
    if c < 0.6:
        return 1 << rng.randrange(bits)
    return rng.getrandbits(bits)


def gen_len(rng: random.Random, maxlen: int, extra=()) -> int:
    cands = [0, 1, 2, 3, 15, 16, 17, 22, 23, 127, 128, 255, 256, 257] + list(extra)
    cands = [c for c in cands if c <= maxlen]
    if rng.random() < 0.5:
        return rng.choice(cands)
    return rng.randint(0, min(maxlen, 64))


def gen_uuid(rng: random.Random, widths=(2, 4, 16)) -> bytes:
    w = rng.choice(widths)
    if w == 2:
        v = rng.choice(UUID16_POOL) if rng.random() < 0.7 else rng.getrandbits(16)
        return struct.pack('<H', v)
    if w == 4:
        c = rng.random()
        if c < 0.5:
            return struct.pack('<I', rng.choice(UUID16_POOL))
        return struct.pack('<I', rng.getrandbits(32))
    c = rng.random()
    if c < 0.45:
        return uuid128_from16(rng.choice(UUID16_POOL))
    if c < 0.55:
        return uuid128_from16(rng.getrandbits(32))
    return rnd_bytes(rng, 16)


# optional refinement supplied by the check: fn(le_bytes) -> suffix or ''
UUID_CLASS_HOOK = None


def uuid_class(u: bytes) -> str:
    if len(u) == 16:
        c = 'uuid128-base' if u[:12] == BASE_UUID_LE else 'uuid128'
    else:
        c = f'uuid{len(u) * 8}'
    if UUID_CLASS_HOOK is not None:
        c += UUID_CLASS_HOOK(bytes(u))
    return c


def uuid_expand(u: bytes) -> bytes:
    if len(u) == 2:
        return BASE_UUID_LE + u + b'\x00\x00'
    if len(u) == 4:
        return BASE_UUID_LE + u
    return u


_WORDS = ['', 'a', 'Bumble', 'café', '音楽', 'x' * 17, 'Track 01', '\U0001F3B5 hi', 'A' * 40]


def gen_str(rng: random.Random, max_bytes: int) -> str:
    c = rng.random()
    if c < 0.5:
        s = rng.choice(_WORDS)
    elif c < 0.65:
        s = 'z' * rng.choice([n for n in (254, 255, 256, 300) if n <= max_bytes] or [max_bytes])
    else:
        s = ''.join(rng.choice('abc éü中0123') for _ in range(rng.randint(0, 30)))
    while len(s.encode('utf-8')) > max_bytes:
        s = s[:-1]
    return s


# =============================================================================
# kinds
# =============================================================================
class Kind:
    tag = '?'

    def gen(self, rng):  # pragma: no cover
        raise NotImplementedError

    def enc(self, v) -> bytes:  # pragma: no cover
        raise NotImplementedError

    def cls_of(self, v):
        return None


class Int(Kind):
    def __init__(self, width, big=False, choices=None, maxv=None, mask=None):
        self.width, self.big, self.choices, self.maxv, self.mask = width, big, choices, maxv, mask
        self.tag = 'int'

    def gen(self, rng):
        if self.choices is not None:
            return rng.choice(self.choices)
        v = gen_int(rng, self.width * 8)
        if self.maxv is not None:
            v = v if v <= self.maxv else v % (self.maxv + 1)
        if self.mask is not None:
            v &= self.mask
        return v

    def enc(self, v):
        return int(v).to_bytes(self.width, 'big' if self.big else 'little')


u8, u16, u24, u32 = Int(1), Int(2), Int(3), Int(4)
U16, U32, U64 = Int(2, True), Int(4, True), Int(8, True)
u128 = Int(16)  # a 16-octet bit mask, octet 0 first = little-endian integer


class Bytes(Kind):
    tag = 'bytes'

    def __init__(self, n):
        self.n = n

    def gen(self, rng):
        c = rng.random()
        if c < 0.1:
            return bytes(self.n)
        if c < 0.2:
            return b'\xff' * self.n
        if c < 0.3:
            return bytes(range(1, self.n + 1))
        return rnd_bytes(rng, self.n)

    def enc(self, v):
        assert len(v) == self.n
        return bytes(v)


class Rest(Kind):
    """All remaining octets."""
    tag = 'bytes'

    def __init__(self, maxlen=300, extra=()):
        self.maxlen, self.extra = maxlen, extra

    def gen(self, rng):
        return rnd_bytes(rng, gen_len(rng, self.maxlen, self.extra))

    def enc(self, v):
        return bytes(v)


class LV(Kind):
    """length-prefixed octets"""
    tag = 'bytes'

    def __init__(self, lw, big, maxlen):
        self.lw, self.big, self.maxlen = lw, big, maxlen

    def gen(self, rng):
        return rnd_bytes(rng, gen_len(rng, self.maxlen))

    def enc(self, v):
        return len(v).to_bytes(self.lw, 'big' if self.big else 'little') + bytes(v)


class Str(Kind):
    """AVRCP string: big-endian length + UTF-8"""
    tag = 'str'

    def __init__(self, lw):
        self.lw = lw

    def gen(self, rng):
        return gen_str(rng, 255 if self.lw == 1 else 400)

    def enc(self, v):
        e = v.encode('utf-8')
        return len(e).to_bytes(self.lw, 'big') + e


STR8, STR16 = Str(1), Str(2)


class Uuid(Kind):
    """UUID in little-endian order; 'rest' = extends to the end of the PDU."""
    tag = 'uuid'

    def __init__(self, widths):
        self.widths = widths

    def gen(self, rng):
        return gen_uuid(rng, self.widths)

    def enc(self, v):
        return bytes(v)

    def cls_of(self, v):
        return uuid_class(v)


class Psm(Kind):
    """L2CAP PSM (Vol 3 Part A 4.2): >= 2 octets, little endian, every octet but the most
    significant one is odd, the most significant one is even."""
    tag = 'int'

    def gen(self, rng):
        c = rng.random()
        if c < 0.35:
            return rng.choice([0x0001, 0x0003, 0x000F, 0x0011, 0x0017, 0x0019, 0x001B, 0x001F,
                               0x0027, 0x1001, 0x1003, 0xFEFF, 0x00FF, 0xFE01])
        n = 2 if c < 0.75 else rng.choice([3, 3, 4])
        octs = [rng.getrandbits(8) | 1 for _ in range(n - 1)]
        top = rng.getrandbits(8) & 0xFE
        if n > 2 and top == 0:
            top = 2
        v = 0
        for i, o in enumerate(octs + [top]):
            v |= o << (8 * i)
        return v

    def enc(self, v):
        n = max(2, (int(v).bit_length() + 7) // 8)
        return int(v).to_bytes(n, 'little')

    def cls_of(self, v):
        return 'psm-len2' if v < 0x10000 else 'psm-len3+'


class U16ListRest(Kind):
    tag = 'intlist'

    def __init__(self, lo=0, hi=6):
        self.lo, self.hi = lo, hi

    def gen(self, rng):
        n = rng.choice([self.lo, self.lo, 1, 2, self.hi, rng.randint(self.lo, self.hi)])
        n = max(self.lo, min(self.hi, n))
        return [gen_int(rng, 16) for _ in range(n)]

    def enc(self, v):
        return b''.join(struct.pack('<H', x) for x in v)


class LenValListRest(Kind):
    """ATT Read Multiple Variable Response: (length u16 LE, value)*"""
    tag = 'lenval'

    def gen(self, rng):
        n = rng.choice([0, 1, 2, 3])
        return [(len(b), b) for b in (rnd_bytes(rng, gen_len(rng, 40)) for _ in range(n))]

    def enc(self, v):
        return b''.join(struct.pack('<H', n) + b for n, b in v)


class Addr(Kind):
    tag = 'addr'

    def gen(self, rng):
        return Bytes(6).gen(rng)

    def enc(self, v):
        return bytes(v)


class Group(Kind):
    """1-octet count followed by count x (fields...)  — value: list of tuples"""
    tag = 'group'

    def __init__(self, fields, maxn=5, count_width=1):
        self.fields, self.maxn = fields, maxn

    def gen(self, rng):
        n = rng.choice([0, 1, 2, 2, self.maxn, rng.randint(0, self.maxn)])
        return [tuple(k.gen(rng) for _, k in self.fields) for _ in range(n)]

    def enc(self, v):
        out = bytes([len(v)])
        for item in v:
            for (_, k), x in zip(self.fields, item):
                out += k.enc(x)
        return out


class Struct(Kind):
    """nested record, value: tuple"""
    tag = 'struct'

    def __init__(self, cls_path, fields):
        self.cls_path, self.fields = cls_path, fields

    def gen(self, rng):
        return tuple(k.gen(rng) for _, k in self.fields)

    def enc(self, v):
        return b''.join(k.enc(x) for (_, k), x in zip(self.fields, v))


# ---- AVDTP ------------------------------------------------------------------
class Seid(Kind):
    """ACP/INT SEID: 6 bits in bits 7..2, bits 1..0 RFA = 0"""
    tag = 'int'

    def gen(self, rng):
        return rng.choice([1, 2, 0x3E, 0x20, rng.randint(1, 0x3E)])

    def enc(self, v):
        return bytes([(v & 0x3F) << 2])


class SeidListRest(Kind):
    tag = 'intlist'

    def gen(self, rng):
        return [Seid().gen(rng) for _ in range(rng.choice([1, 1, 2, 3, 8]))]

    def enc(self, v):
        return bytes([(x & 0x3F) << 2 for x in v])


# A2DP codec information elements ------------------------------------------------
def enc_sbc(v):
    sf, cm, bl, sb, am, lo, hi = v
    return bytes([(sf << 4) | cm, (bl << 4) | (sb << 2) | am, lo, hi])


def gen_sbc(rng):
    return (rng.randint(0, 15), rng.randint(0, 15), rng.randint(0, 15), rng.randint(0, 3),
            rng.randint(0, 3), rng.choice([2, 0, 255, rng.randint(0, 255)]), rng.choice([53, 250, 2, rng.randint(0, 255)]))


def enc_aac(v):
    ot, sf, ch, vbr, br = v
    # octet0 object types; octet1 8000..44100 (bit7..bit0); octet2 48000..96000 (bit7..4),
    # channels (bit3..2), RFA; octet3 VBR (bit7) + bit rate 22..16; octets 4,5 bit rate
    return bytes([ot, (sf >> 4) & 0xFF, ((sf & 0xF) << 4) | (ch << 2), (vbr << 7) | ((br >> 16) & 0x7F),
                  (br >> 8) & 0xFF, br & 0xFF])


def gen_aac(rng):
    return (rng.choice([0x80, 0x40, 0xF0, rng.randint(0, 255)]), rng.choice([1 << rng.randrange(12), 0xFFF, rng.getrandbits(12)]),
            rng.randint(0, 3), rng.randint(0, 1), rng.choice([0, 1, 0x7FFFFF, 0x010203, rng.getrandbits(23)]))


OPUS_VENDOR_ID, OPUS_CODEC_ID = 0x000000E0, 0x0001


def enc_vendor(v):
    vid, cid, val = v
    return struct.pack('<IH', vid, cid) + val


def enc_opus(v):
    cm, fs, sf = v
    return struct.pack('<IH', OPUS_VENDOR_ID, OPUS_CODEC_ID) + bytes([cm | (fs << 3) | (sf << 7)])


MEDIA_CODEC = 0x07


class Caps(Kind):
    """AVDTP service capabilities to the end of the message.
    value: list of ('raw', category, bytes) | ('codec', media_type, codec_type, info_tag, info)
    info_tag: 'sbc' | 'aac' | 'vendor' | 'opus' | 'other'(bytes)"""
    tag = 'caps'

    def gen_one(self, rng):
        c = rng.random()
        if c < 0.4:
            cat = rng.choice([1, 2, 3, 4, 5, 6, 8, 8, 1])
            n = 0 if cat in (1, 2, 8) and rng.random() < 0.7 else rng.choice([0, 1, 2, 3, 10, 255])
            return ('raw', cat, rnd_bytes(rng, n))
        mt = rng.choice([0, 0, 0, 1, 2])
        t = rng.choice(['sbc', 'sbc', 'aac', 'vendor', 'opus', 'other'])
        if t == 'sbc':
            return ('codec', mt, 0x00, 'sbc', gen_sbc(rng))
        if t == 'aac':
            return ('codec', mt, 0x02, 'aac', gen_aac(rng))
        if t == 'vendor':
            vid = rng.choice([0x0000000F, 0x0000012D, 0x000000E0, rng.getrandbits(32)])
            cid = rng.choice([0x0002, 0x00AA, 0x8001, rng.getrandbits(16)])
            if (vid, cid) == (OPUS_VENDOR_ID, OPUS_CODEC_ID):
                cid = 2
            return ('codec', mt, 0xFF, 'vendor', (vid, cid, rnd_bytes(rng, rng.choice([0, 1, 3, 20]))))
        if t == 'opus':
            return ('codec', mt, 0xFF, 'opus', (rng.randint(0, 7), rng.randint(0, 3), rng.randint(0, 1)))
        return ('codec', mt, rng.choice([0x01, 0x03, 0x04]), 'other', rnd_bytes(rng, rng.choice([4, 6, 7])))

    def gen(self, rng):
        return [self.gen_one(rng) for _ in range(rng.choice([0, 1, 2, 3, 4]))]

    @staticmethod
    def enc_info(tag, info):
        return {'sbc': enc_sbc, 'aac': enc_aac, 'vendor': enc_vendor, 'opus': enc_opus,
                'other': bytes}[tag](info)

    def enc_one(self, c):
        if c[0] == 'raw':
            body = c[2]
            cat = c[1]
        else:
            _, mt, ct, tag, info = c
            # AVDTP 8.21.5: octet0 = Media Type (bits 7..4) | RFA, octet1 = Media Codec Type
            body = bytes([(mt << 4) & 0xF0, ct]) + self.enc_info(tag, info)
            cat = MEDIA_CODEC
        return bytes([cat, len(body)]) + body

    def enc(self, v):
        return b''.join(self.enc_one(c) for c in v)

    @staticmethod
    def cap_class(c):
        if c[0] != 'codec':
            return 'raw'
        return f'codec-{c[3]}' + ('/media-type-nonzero' if c[1] else '')

    def cls_of(self, v):
        """one tag: the class most likely to matter"""
        tags = [self.cap_class(c) for c in v if c[0] == 'codec']
        for t in tags:
            if t.startswith('codec-other'):
                return 'codec-other'
        for t in tags:
            if 'media-type-nonzero' in t:
                return 'media-type-nonzero'
        return None


class Endpoints(Kind):
    """AVDTP discover response: (seid, in_use, media_type, tsep)*"""
    tag = 'endpoints'

    def gen(self, rng):
        return [(rng.randint(1, 0x3E), rng.randint(0, 1), rng.choice([0, 1, 2]), rng.randint(0, 1))
                for _ in range(rng.choice([0, 1, 2, 5]))]

    def enc(self, v):
        return b''.join(bytes([(s << 2) | (u << 1), (m << 4) | (t << 3)]) for s, u, m, t in v)


# ---- SDP --------------------------------------------------------------------
# element: ('nil',) ('uint', size, v) ('sint', size, v) ('uuid', le_bytes) ('text', bytes)
#          ('bool', b) ('seq', [..]) ('alt', [..]) ('url', str)
_DE_TYPE = {'nil': 0, 'uint': 1, 'sint': 2, 'uuid': 3, 'text': 4, 'bool': 5, 'seq': 6, 'alt': 7, 'url': 8}
_FIXED_IDX = {1: 0, 2: 1, 4: 2, 8: 3, 16: 4}


def de_body(e) -> bytes:
    t = e[0]
    if t == 'nil':
        return b''
    if t == 'uint':
        return int(e[2]).to_bytes(e[1], 'big')
    if t == 'sint':
        return int(e[2]).to_bytes(e[1], 'big', signed=True)
    if t == 'uuid':
        return bytes(e[1])[::-1]  # big endian on the wire
    if t == 'text':
        return bytes(e[1])
    if t == 'bool':
        return b'\x01' if e[1] else b'\x00'
    if t in ('seq', 'alt'):
        return b''.join(de_enc(x) for x in e[1])
    if t == 'url':
        return e[1].encode('utf-8')
    raise ValueError(t)


def de_enc(e, size_index=None) -> bytes:
    """Core Vol 3 Part B 3.2/3.3.  size_index overrides the (minimal) variable-size form
    for text/seq/alt/url: 5 = u8, 6 = u16, 7 = u32 length."""
    body = de_body(e)
    t = _DE_TYPE[e[0]]
    if e[0] in ('nil', 'bool'):
        return bytes([t << 3]) + body
    if e[0] in ('uint', 'sint', 'uuid'):
        return bytes([(t << 3) | _FIXED_IDX[len(body)]]) + body
    n = len(body)
    idx = size_index if size_index is not None else (5 if n <= 0xFF else 6 if n <= 0xFFFF else 7)
    lw = {5: 1, 6: 2, 7: 4}[idx]
    return bytes([(t << 3) | idx]) + n.to_bytes(lw, 'big') + body


def de_gen(rng, depth=0, max_depth=4, allow16=False):
    c = rng.random()
    if depth < max_depth and c < 0.25:
        n = rng.choice([0, 1, 2, 3, 5])
        return (rng.choice(['seq', 'seq', 'alt']), [de_gen(rng, depth + 1, max_depth, allow16) for _ in range(n)])
    t = rng.choice(['nil', 'uint', 'uint', 'sint', 'uuid', 'uuid', 'text', 'bool', 'url'])
    if t == 'nil':
        return ('nil',)
    if t in ('uint', 'sint'):
        size = rng.choice([1, 2, 4, 8] + ([16] if allow16 else []))
        bits = size * 8
        if t == 'uint':
            return ('uint', size, gen_int(rng, bits))
        v = rng.choice([0, 1, -1, (1 << (bits - 1)) - 1, -(1 << (bits - 1)), rng.getrandbits(bits) - (1 << (bits - 1))])
        return ('sint', size, v)
    if t == 'uuid':
        return ('uuid', gen_uuid(rng))
    if t == 'text':
        return ('text', rnd_bytes(rng, gen_len(rng, 300)))
    if t == 'bool':
        return ('bool', rng.random() < 0.5)
    return ('url', gen_str(rng, 300))


def de_padded_seq(kind: str, total: int, rng) -> tuple:
    """a sequence/alternative whose *content* is exactly `total` octets: one text string as
    large as fits, then NIL elements (1 octet each) for the remainder"""
    def hdr(n):
        return 2 if n <= 0xFF else 3 if n <= 0xFFFF else 5
    items = []
    n = max(0, total - 2)
    while n > 0 and n + hdr(n) > total:
        n -= 1
    if total >= 2:
        items.append(('text', rnd_bytes(rng, n)))
        left = total - n - hdr(n)
    else:
        left = total
    items += [('nil',)] * left
    return (kind, items)


def de_class(e) -> str:
    t = e[0]
    if t in ('uint', 'sint'):
        return f'{t}{e[1] * 8}'
    if t == 'uuid':
        return uuid_class(e[1])
    if t in ('text', 'url', 'seq', 'alt'):
        n = len(de_body(e))
        return f'{t}/' + ('size8' if n <= 0xFF else 'size16' if n <= 0xFFFF else 'size32')
    return t


def de_walk(e):
    yield e
    if e[0] in ('seq', 'alt'):
        for x in e[1]:
            yield from de_walk(x)


class DE(Kind):
    tag = 'de'

    def __init__(self, mode='any'):
        self.mode = mode

    def gen(self, rng):
        if self.mode == 'uuid-seq':  # ServiceSearchPattern
            return ('seq', [('uuid', gen_uuid(rng)) for _ in range(rng.choice([1, 1, 2, 3, 12]))])
        if self.mode == 'attr-ids':  # AttributeIDList: u16 ids or u32 ranges
            return ('seq', [rng.choice([('uint', 2, gen_int(rng, 16)), ('uint', 4, gen_int(rng, 32))])
                            for _ in range(rng.choice([1, 2, 3]))])
        return de_gen(rng)

    def enc(self, v):
        return de_enc(v)

    def cls_of(self, v):
        cl = {de_class(x) for x in de_walk(v) if x[0] == 'uuid'}
        return '+'.join(sorted(cl)) or None


class HandleList(Kind):
    """SDP ServiceSearchResponse: CurrentServiceRecordCount U16 + handles U32*"""
    tag = 'intlist'

    def gen(self, rng):
        return [gen_int(rng, 32) for _ in range(rng.choice([0, 1, 2, 7]))]

    def enc(self, v):
        return struct.pack('>H', len(v)) + b''.join(struct.pack('>I', h) for h in v)


class Continuation(Kind):
    """SDP continuation state: InfoLength (0..16) + info, to the end of the PDU"""
    tag = 'bytes'

    def gen(self, rng):
        n = rng.choice([0, 0, 0, 1, 2, 4, 16])
        return bytes([n]) + rnd_bytes(rng, n)

    def enc(self, v):
        return bytes(v)


# =============================================================================
# L2CAP
# =============================================================================
L2CAP_SIG = {
    # class name: (code, [(field, kind)])      Core Vol 3 Part A section 4
    'L2CAP_Command_Reject': (0x01, [('reason', u16), ('data', Rest(20))]),
    'L2CAP_Connection_Request': (0x02, [('psm', Psm()), ('source_cid', u16)]),
    'L2CAP_Connection_Response': (0x03, [('destination_cid', u16), ('source_cid', u16), ('result', u16), ('status', u16)]),
    'L2CAP_Configure_Request': (0x04, [('destination_cid', u16), ('flags', u16), ('options', Rest(80))]),
    'L2CAP_Configure_Response': (0x05, [('source_cid', u16), ('flags', u16), ('result', u16), ('options', Rest(80))]),
    'L2CAP_Disconnection_Request': (0x06, [('destination_cid', u16), ('source_cid', u16)]),
    'L2CAP_Disconnection_Response': (0x07, [('destination_cid', u16), ('source_cid', u16)]),
    'L2CAP_Echo_Request': (0x08, [('data', Rest(300))]),
    'L2CAP_Echo_Response': (0x09, [('data', Rest(300))]),
    'L2CAP_Information_Request': (0x0A, [('info_type', u16)]),
    'L2CAP_Information_Response': (0x0B, [('info_type', u16), ('result', u16), ('data', Rest(20))]),
    'L2CAP_Connection_Parameter_Update_Request': (0x12, [('interval_min', u16), ('interval_max', u16), ('latency', u16), ('timeout', u16)]),
    'L2CAP_Connection_Parameter_Update_Response': (0x13, [('result', u16)]),
    'L2CAP_LE_Credit_Based_Connection_Request': (0x14, [('le_psm', u16), ('source_cid', u16), ('mtu', u16), ('mps', u16), ('initial_credits', u16)]),
    'L2CAP_LE_Credit_Based_Connection_Response': (0x15, [('destination_cid', u16), ('mtu', u16), ('mps', u16), ('initial_credits', u16), ('result', u16)]),
    'L2CAP_LE_Flow_Control_Credit': (0x16, [('cid', u16), ('credits', u16)]),
    'L2CAP_Credit_Based_Connection_Request': (0x17, [('spsm', u16), ('mtu', u16), ('mps', u16), ('initial_credits', u16), ('source_cid', U16ListRest(1, 5))]),
    'L2CAP_Credit_Based_Connection_Response': (0x18, [('mtu', u16), ('mps', u16), ('initial_credits', u16), ('result', u16), ('destination_cid', U16ListRest(1, 5))]),
    'L2CAP_Credit_Based_Reconfigure_Request': (0x19, [('mtu', u16), ('mps', u16), ('destination_cid', U16ListRest(1, 5))]),
    'L2CAP_Credit_Based_Reconfigure_Response': (0x1A, [('result', u16)]),
}


def l2cap_sig_bytes(code, identifier, payload: bytes) -> bytes:
    return bytes([code, identifier]) + struct.pack('<H', len(payload)) + payload


def crc16_l2cap(data: bytes) -> int:
    """FCS of Vol 3 Part A 3.3.5: g(D) = D^16 + D^15 + D^2 + 1, register initially 0,
    octets fed least significant bit first (bitwise, no table)"""
    reg = 0
    for b in data:
        for i in range(8):
            bit = ((b >> i) & 1) ^ (reg & 1)
            reg >>= 1
            if bit:
                reg ^= 0xA001
    return reg


def l2cap_pdu(cid, payload: bytes, with_fcs=False) -> bytes:
    """length U16 LE (information payload + FCS when present) | CID | payload | [FCS LE]"""
    body = struct.pack('<HH', len(payload) + (2 if with_fcs else 0), cid) + payload
    if with_fcs:
        body += struct.pack('<H', crc16_l2cap(body))
    return body


# L2CAP configuration parameter options (Vol 3 Part A 5): a list of (type octet, length octet, value). Bit 7 of the type
# octet is the "hint" flag; it is PART of the octet on the wire, so a list of options is a codec of its own in which
# every one of the 256 type octets is a distinct value.
CFG_OPTION_NAMES = {1: 'mtu', 2: 'flush-timeout', 3: 'qos', 4: 'retransmission-and-flow-control', 5: 'fcs',
                    6: 'extended-flow-spec', 7: 'extended-window-size'}
CFG_OPTION_LENGTHS = {1: 2, 2: 2, 3: 22, 4: 9, 5: 1, 6: 16, 7: 2}


def cfg_options(options) -> bytes:
    """[(type 0..255, value of 0..255 octets)] -> octets"""
    out = bytearray()
    for t, v in options:
        assert 0 <= t <= 0xFF and len(v) <= 0xFF
        out.append(t)
        out.append(len(v))
        out += v
    return bytes(out)


def cfg_options_parse(data: bytes):
    out, i = [], 0
    while i < len(data):
        t, n = data[i], data[i + 1]
        assert i + 2 + n <= len(data)
        out.append((t, bytes(data[i + 2:i + 2 + n])))
        i += 2 + n
    return out


def cfg_type_class(t: int) -> str:
    base = CFG_OPTION_NAMES.get(t & 0x7F, 'undefined-type')
    return ('hint-bit-set/' if t & 0x80 else 'hint-bit-clear/') + base


def l2cap_configure_request(identifier, dcid, flags, options: bytes) -> bytes:
    """code 0x04 | identifier | length U16 LE | destination CID | flags | options"""
    return struct.pack('<BBHHH', 0x04, identifier, 4 + len(options), dcid, flags) + options


def l2cap_configure_response(identifier, scid, flags, result, options: bytes) -> bytes:
    """code 0x05 | identifier | length U16 LE | source CID | flags | result | options"""
    return struct.pack('<BBHHHH', 0x05, identifier, 6 + len(options), scid, flags, result) + options


def ertm_i(tx_seq, req_seq, sar, final) -> bytes:
    """Enhanced control field, I-frame (Vol 3 Part A 3.3.2): bit0=0, TxSeq 1..6, F 7,
    ReqSeq 8..13, SAR 14..15; transmitted little endian."""
    v = (tx_seq << 1) | (final << 7) | (req_seq << 8) | (sar << 14)
    return struct.pack('<H', v)


def ertm_s(s, poll, final, req_seq) -> bytes:
    """S-frame: bit0=1, S 2..3, P 4, F 7, ReqSeq 8..13."""
    v = 1 | (s << 2) | (poll << 4) | (final << 7) | (req_seq << 8)
    return struct.pack('<H', v)


# =============================================================================
# ATT  (Core Vol 3 Part F 3.4)
# =============================================================================
_H = u16
ATT = {
    'ATT_Error_Response': (0x01, [('request_opcode_in_error', u8), ('attribute_handle_in_error', _H), ('error_code', u8)]),
    'ATT_Exchange_MTU_Request': (0x02, [('client_rx_mtu', u16)]),
    'ATT_Exchange_MTU_Response': (0x03, [('server_rx_mtu', u16)]),
    'ATT_Find_Information_Request': (0x04, [('starting_handle', _H), ('ending_handle', _H)]),
    'ATT_Find_Information_Response': (0x05, [('format', Int(1, choices=[1, 2])), ('information_data', Rest(60))]),
    'ATT_Find_By_Type_Value_Request': (0x06, [('starting_handle', _H), ('ending_handle', _H), ('attribute_type', Uuid((2,))), ('attribute_value', Rest(40))]),
    'ATT_Find_By_Type_Value_Response': (0x07, [('handles_information_list', Rest(40))]),
    'ATT_Read_By_Type_Request': (0x08, [('starting_handle', _H), ('ending_handle', _H), ('attribute_type', Uuid((2, 16)))]),
    'ATT_Read_By_Type_Response': (0x09, [('length', Int(1, choices=[2, 3, 4, 7, 18, 255])), ('attribute_data_list', Rest(60))]),
    'ATT_Read_Request': (0x0A, [('attribute_handle', _H)]),
    'ATT_Read_Response': (0x0B, [('attribute_value', Rest(520, (511, 512, 513)))]),
    'ATT_Read_Blob_Request': (0x0C, [('attribute_handle', _H), ('value_offset', u16)]),
    'ATT_Read_Blob_Response': (0x0D, [('part_attribute_value', Rest(520))]),
    'ATT_Read_Multiple_Request': (0x0E, [('set_of_handles', U16ListRest(2, 8))]),
    'ATT_Read_Multiple_Response': (0x0F, [('set_of_values', Rest(100))]),
    'ATT_Read_By_Group_Type_Request': (0x10, [('starting_handle', _H), ('ending_handle', _H), ('attribute_group_type', Uuid((2, 16)))]),
    'ATT_Read_By_Group_Type_Response': (0x11, [('length', Int(1, choices=[4, 6, 20, 255])), ('attribute_data_list', Rest(60))]),
    'ATT_Write_Request': (0x12, [('attribute_handle', _H), ('attribute_value', Rest(520))]),
    'ATT_Write_Response': (0x13, []),
    'ATT_Prepare_Write_Request': (0x16, [('attribute_handle', _H), ('value_offset', u16), ('part_attribute_value', Rest(520))]),
    'ATT_Prepare_Write_Response': (0x17, [('attribute_handle', _H), ('value_offset', u16), ('part_attribute_value', Rest(520))]),
    'ATT_Execute_Write_Request': (0x18, [('flags', u8)]),
    'ATT_Execute_Write_Response': (0x19, []),
    'ATT_Handle_Value_Notification': (0x1B, [('attribute_handle', _H), ('attribute_value', Rest(520))]),
    'ATT_Handle_Value_Indication': (0x1D, [('attribute_handle', _H), ('attribute_value', Rest(520))]),
    'ATT_Handle_Value_Confirmation': (0x1E, []),
    'ATT_Read_Multiple_Variable_Request': (0x20, [('set_of_handles', U16ListRest(2, 8))]),
    'ATT_Read_Multiple_Variable_Response': (0x21, [('length_value_tuple_list', LenValListRest())]),
    'ATT_Write_Command': (0x52, [('attribute_handle', _H), ('attribute_value', Rest(520))]),
    'ATT_Signed_Write_Command': (0xD2, [('attribute_handle', _H), ('attribute_value', Rest(60))]),
}


def att_structured(name: str, rng):
    """Well-formed list payloads for the ATT responses that carry lists, with the list the
    parsed object is expected to expose.  returns (field overrides, derived attr, expected list)"""
    if name == 'ATT_Find_Information_Response':
        fmt = rng.choice([1, 2])
        items = [(gen_int(rng, 16), gen_uuid(rng, (2,) if fmt == 1 else (16,))) for _ in range(rng.choice([1, 2, 3]))]
        data = b''.join(struct.pack('<H', h) + u for h, u in items)
        return {'format': fmt, 'information_data': data}, 'information', items
    if name == 'ATT_Find_By_Type_Value_Response':
        items = [(gen_int(rng, 16), gen_int(rng, 16)) for _ in range(rng.choice([1, 2, 5]))]
        return {'handles_information_list': b''.join(struct.pack('<HH', a, b) for a, b in items)}, 'handles_information', items
    if name == 'ATT_Read_By_Type_Response':
        vl = rng.choice([0, 1, 2, 16, 19])
        items = [(gen_int(rng, 16), rnd_bytes(rng, vl)) for _ in range(rng.choice([1, 2, 3]))]
        return ({'length': vl + 2, 'attribute_data_list': b''.join(struct.pack('<H', h) + v for h, v in items)},
                'attributes', items)
    if name == 'ATT_Read_By_Group_Type_Response':
        vl = rng.choice([2, 16])
        items = [(gen_int(rng, 16), gen_int(rng, 16), rnd_bytes(rng, vl)) for _ in range(rng.choice([1, 2, 3]))]
        return ({'length': vl + 4, 'attribute_data_list': b''.join(struct.pack('<HH', a, b) + v for a, b, v in items)},
                'attributes', items)
    return None


def att_bytes(opcode, payload):
    return bytes([opcode]) + payload


# =============================================================================
# SMP  (Core Vol 3 Part H 3.5, 3.6)
# =============================================================================
SMP = {
    'SMP_Pairing_Request_Command': (0x01, [('io_capability', u8), ('oob_data_flag', u8), ('auth_req', u8), ('maximum_encryption_key_size', u8), ('initiator_key_distribution', u8), ('responder_key_distribution', u8)]),
    'SMP_Pairing_Response_Command': (0x02, [('io_capability', u8), ('oob_data_flag', u8), ('auth_req', u8), ('maximum_encryption_key_size', u8), ('initiator_key_distribution', u8), ('responder_key_distribution', u8)]),
    'SMP_Pairing_Confirm_Command': (0x03, [('confirm_value', Bytes(16))]),
    'SMP_Pairing_Random_Command': (0x04, [('random_value', Bytes(16))]),
    'SMP_Pairing_Failed_Command': (0x05, [('reason', u8)]),
    'SMP_Encryption_Information_Command': (0x06, [('long_term_key', Bytes(16))]),
    'SMP_Master_Identification_Command': (0x07, [('ediv', u16), ('rand', Bytes(8))]),
    'SMP_Identity_Information_Command': (0x08, [('identity_resolving_key', Bytes(16))]),
    'SMP_Identity_Address_Information_Command': (0x09, [('addr_type', Int(1, choices=[0, 1])), ('bd_addr', Addr())]),
    'SMP_Signing_Information_Command': (0x0A, [('signature_key', Bytes(16))]),
    'SMP_Security_Request_Command': (0x0B, [('auth_req', u8)]),
    'SMP_Pairing_Public_Key_Command': (0x0C, [('public_key_x', Bytes(32)), ('public_key_y', Bytes(32))]),
    'SMP_Pairing_DHKey_Check_Command': (0x0D, [('dhkey_check', Bytes(16))]),
    'SMP_Pairing_Keypress_Notification_Command': (0x0E, [('notification_type', u8)]),
}

# =============================================================================
# SDP PDUs (Core Vol 3 Part B 4): everything big endian
# =============================================================================
SDP = {
    'SDP_ErrorResponse': (0x01, [('error_code', U16)]),
    'SDP_ServiceSearchRequest': (0x02, [('service_search_pattern', DE('uuid-seq')), ('maximum_service_record_count', U16), ('continuation_state', Continuation())]),
    'SDP_ServiceSearchResponse': (0x03, [('total_service_record_count', U16), ('service_record_handle_list', HandleList()), ('continuation_state', Continuation())]),
    'SDP_ServiceAttributeRequest': (0x04, [('service_record_handle', U32), ('maximum_attribute_byte_count', U16), ('attribute_id_list', DE('attr-ids')), ('continuation_state', Continuation())]),
    'SDP_ServiceAttributeResponse': (0x05, [('attribute_list', LV(2, True, 400)), ('continuation_state', Continuation())]),
    'SDP_ServiceSearchAttributeRequest': (0x06, [('service_search_pattern', DE('uuid-seq')), ('maximum_attribute_byte_count', U16), ('attribute_id_list', DE('attr-ids')), ('continuation_state', Continuation())]),
    'SDP_ServiceSearchAttributeResponse': (0x07, [('attribute_lists', LV(2, True, 400)), ('continuation_state', Continuation())]),
}


def sdp_pdu_bytes(pdu_id, tid, params: bytes) -> bytes:
    return struct.pack('>BHH', pdu_id, tid, len(params)) + params


# =============================================================================
# RFCOMM (TS 07.10 5.2, RFCOMM 5/6)
# =============================================================================
def _crc8_table():
    # reversed polynomial of x^8 + x^2 + x + 1
    t = []
    for i in range(256):
        c = i
        for _ in range(8):
            c = (c >> 1) ^ 0xE0 if c & 1 else c >> 1
        t.append(c)
    return t


_CRC8 = _crc8_table()


def rfcomm_fcs(data: bytes) -> int:
    c = 0xFF
    for b in data:
        c = _CRC8[c ^ b]
    return 0xFF - c


RFCOMM_SABM, RFCOMM_UA, RFCOMM_DM, RFCOMM_DISC, RFCOMM_UIH = 0x2F, 0x63, 0x0F, 0x43, 0xEF


def rfcomm_len(n: int) -> bytes:
    if n <= 127:
        return bytes([(n << 1) | 1])
    return bytes([(n & 0x7F) << 1, n >> 7])


def rfcomm_frame(ftype, c_r, dlci, p_f, payload=b'', credits=None) -> bytes:
    """address | control | length(1|2) | [credits] | payload | FCS.  The length counts the
    payload only (not the credit octet).  FCS over address+control for UIH, over
    address+control+length otherwise."""
    addr = 1 | (c_r << 1) | (dlci << 2)
    ctrl = ftype | (p_f << 4)
    ln = rfcomm_len(len(payload))
    head = bytes([addr, ctrl])
    fcs = rfcomm_fcs(head if ftype == RFCOMM_UIH else head + ln)
    return head + ln + (bytes([credits]) if credits is not None else b'') + payload + bytes([fcs])


def rfcomm_mcc(mcc_type, c_r, value: bytes) -> bytes:
    return bytes([1 | (c_r << 1) | (mcc_type << 2)]) + rfcomm_len(len(value)) + value


def rfcomm_pn(dlci, cl, priority, ack_timer, max_frame_size, max_retx, credits) -> bytes:
    return bytes([dlci & 0x3F, cl, priority, ack_timer]) + struct.pack('<H', max_frame_size) + bytes([max_retx, credits & 7])


def rfcomm_msc(dlci, fc, rtc, rtr, ic, dv) -> bytes:
    return bytes([1 | 2 | (dlci << 2), 1 | (fc << 1) | (rtc << 2) | (rtr << 3) | (ic << 6) | (dv << 7)])


# =============================================================================
# AVDTP (spec 8.4 .. 8.19)
# =============================================================================
_ERR = ('error_code', u8)
AVDTP = {
    # class name: (signal id, message type, fields);  message type 0 cmd, 1 general reject, 2 accept, 3 reject
    'Discover_Command': (0x01, 0, []),
    'Discover_Response': (0x01, 2, [('endpoints', Endpoints())]),
    'Get_Capabilities_Command': (0x02, 0, [('acp_seid', Seid())]),
    'Get_Capabilities_Response': (0x02, 2, [('capabilities', Caps())]),
    'Get_Capabilities_Reject': (0x02, 3, [_ERR]),
    'Set_Configuration_Command': (0x03, 0, [('acp_seid', Seid()), ('int_seid', Seid()), ('capabilities', Caps())]),
    'Set_Configuration_Response': (0x03, 2, []),
    'Set_Configuration_Reject': (0x03, 3, [('service_category', u8), _ERR]),
    'Get_Configuration_Command': (0x04, 0, [('acp_seid', Seid())]),
    'Get_Configuration_Response': (0x04, 2, [('capabilities', Caps())]),
    'Get_Configuration_Reject': (0x04, 3, [_ERR]),
    'Reconfigure_Command': (0x05, 0, [('acp_seid', Seid()), ('capabilities', Caps())]),
    'Reconfigure_Response': (0x05, 2, []),
    'Reconfigure_Reject': (0x05, 3, [('service_category', u8), _ERR]),
    'Open_Command': (0x06, 0, [('acp_seid', Seid())]),
    'Open_Response': (0x06, 2, []),
    'Open_Reject': (0x06, 3, [_ERR]),
    'Start_Command': (0x07, 0, [('acp_seids', SeidListRest())]),
    'Start_Response': (0x07, 2, []),
    'Start_Reject': (0x07, 3, [('acp_seid', Seid()), _ERR]),
    'Close_Command': (0x08, 0, [('acp_seid', Seid())]),
    'Close_Response': (0x08, 2, []),
    'Close_Reject': (0x08, 3, [_ERR]),
    'Suspend_Command': (0x09, 0, [('acp_seids', SeidListRest())]),
    'Suspend_Response': (0x09, 2, []),
    'Suspend_Reject': (0x09, 3, [('acp_seid', Seid()), _ERR]),
    'Abort_Command': (0x0A, 0, [('acp_seid', Seid())]),
    'Abort_Response': (0x0A, 2, []),
    'Security_Control_Command': (0x0B, 0, [('acp_seid', Seid()), ('data', Rest(40))]),
    'Security_Control_Response': (0x0B, 2, []),
    'Security_Control_Reject': (0x0B, 3, [_ERR]),
    'Get_All_Capabilities_Command': (0x0C, 0, [('acp_seid', Seid())]),
    'Get_All_Capabilities_Response': (0x0C, 2, [('capabilities', Caps())]),
    'Get_All_Capabilities_Reject': (0x0C, 3, [_ERR]),
    'DelayReport_Command': (0x0D, 0, [('acp_seid', Seid()), ('delay', U16)]),
    'DelayReport_Response': (0x0D, 2, []),
    'DelayReport_Reject': (0x0D, 3, [_ERR]),
    'General_Reject': (0x00, 1, []),
}


def avdtp_single(label, msg_type, signal, payload: bytes) -> bytes:
    """single packet: label(4) | packet type 00 | message type(2) ; RFA(2) | signal id(6)"""
    return bytes([(label << 4) | msg_type, signal & 0x3F]) + payload


# =============================================================================
# AVCTP / AV/C / AVRCP
# =============================================================================
def avctp_single(label, is_command, ipid, pid, payload: bytes) -> bytes:
    """label(4) | packet type 00 | C/R (0 = command) | IPID ; PID U16 ; message"""
    return bytes([(label << 4) | ((0 if is_command else 1) << 1) | (1 if ipid else 0)]) + struct.pack('>H', pid) + payload


def avc_frame(ctype_or_response, subunit_type, subunit_id, opcode, operands: bytes) -> bytes:
    """0000 | ctype/response ; subunit_type(5) | subunit_id(3) ; [extended id octets] ; opcode ; operands"""
    if subunit_id < 5 or subunit_id == 7:
        ext = b''
        sid = subunit_id
    elif subunit_id <= 5 + 254:
        ext = bytes([subunit_id - 5])
        sid = 5
    else:
        ext = bytes([0xFF, subunit_id - 5 - 254])
        sid = 5
    return bytes([ctype_or_response & 0xF, (subunit_type << 3) | sid]) + ext + bytes([opcode]) + operands


def avc_vendor_operands(company_id, data: bytes) -> bytes:
    return company_id.to_bytes(3, 'big') + data


def avc_passthrough_operands(state_flag, operation_id, data: bytes) -> bytes:
    return bytes([(state_flag << 7) | operation_id, len(data)]) + data


def avrcp_pdu(pdu_id, packet_type, params: bytes) -> bytes:
    return struct.pack('>BBH', pdu_id, packet_type & 3, len(params)) + params


_ATTR = Int(1, choices=[1, 2, 3, 4, 0x80, 0xFF])
_CHARSET = Int(2, True, choices=[0x6A, 0x6A, 0x03, 0x03E8])
_MEDIA_ATTR_ID = Int(4, True, choices=[1, 2, 3, 4, 5, 6, 7, 8, 0x100, 0x01020304])
_SCOPE = Int(1, choices=[0, 1, 2, 3])
_STATUS = Int(1, choices=[0x04, 0x00, 0x01, 0x09, 0x16, 0x7F])
_ATTR_ENTRY = [('attribute_id', _MEDIA_ATTR_ID), ('character_set_id', _CHARSET), ('attribute_value', STR16)]

AVRCP_CMD = {
    'GetCapabilitiesCommand': (0x10, [('capability_id', Int(1, choices=[2, 3]))]),
    'ListPlayerApplicationSettingAttributesCommand': (0x11, []),
    'ListPlayerApplicationSettingValuesCommand': (0x12, [('attribute', _ATTR)]),
    'GetCurrentPlayerApplicationSettingValueCommand': (0x13, [('@g', Group([('attribute', _ATTR)]))]),
    'SetPlayerApplicationSettingValueCommand': (0x14, [('@g', Group([('attribute', _ATTR), ('value', u8)]))]),
    'GetPlayerApplicationSettingAttributeTextCommand': (0x15, [('@g', Group([('attribute', _ATTR)]))]),
    'GetPlayerApplicationSettingValueTextCommand': (0x16, [('attribute', _ATTR), ('@g', Group([('value', u8)]))]),
    'InformDisplayableCharacterSetCommand': (0x17, [('@g', Group([('character_set_id', _CHARSET)]))]),
    'InformBatteryStatusOfCtCommand': (0x18, [('battery_status', Int(1, choices=[0, 1, 2, 3, 4]))]),
    'GetElementAttributesCommand': (0x20, [('identifier', U64), ('@g', Group([('attribute_ids', _MEDIA_ATTR_ID)], 8))]),
    'GetPlayStatusCommand': (0x30, []),
    'RegisterNotificationCommand': (0x31, [('event_id', Int(1, choices=list(range(1, 14)))), ('playback_interval', U32)]),
    'SetAbsoluteVolumeCommand': (0x50, [('volume', Int(1, maxv=0x7F))]),
    'SetAddressedPlayerCommand': (0x60, [('player_id', U16)]),
    'SetBrowsedPlayerCommand': (0x70, [('player_id', U16)]),
    'GetFolderItemsCommand': (0x71, [('scope', _SCOPE), ('start_item', U32), ('end_item', U32), ('@g', Group([('attributes', _MEDIA_ATTR_ID)], 8))]),
    'ChangePathCommand': (0x72, [('uid_counter', U16), ('direction', Int(1, choices=[0, 1])), ('folder_uid', U64)]),
    'GetItemAttributesCommand': (0x73, [('scope', _SCOPE), ('uid', U64), ('uid_counter', U16), ('@g', Group([('attributes', _MEDIA_ATTR_ID)], 8))]),
    'PlayItemCommand': (0x74, [('scope', _SCOPE), ('uid', U64), ('uid_counter', U16)]),
    'GetTotalNumberOfItemsCommand': (0x75, [('scope', _SCOPE)]),
    'SearchCommand': (0x80, [('character_set_id', _CHARSET), ('search_string', STR16)]),
    'AddToNowPlayingCommand': (0x90, [('scope', _SCOPE), ('uid', U64), ('uid_counter', U16)]),
}

AVRCP_RSP = {
    'ListPlayerApplicationSettingAttributesResponse': (0x11, [('@g', Group([('attribute', _ATTR)]))]),
    'ListPlayerApplicationSettingValuesResponse': (0x12, [('@g', Group([('value', u8)]))]),
    'GetCurrentPlayerApplicationSettingValueResponse': (0x13, [('@g', Group([('attribute', _ATTR), ('value', u8)]))]),
    'SetPlayerApplicationSettingValueResponse': (0x14, []),
    'GetPlayerApplicationSettingAttributeTextResponse': (0x15, [('@g', Group([('attribute', _ATTR), ('character_set_id', _CHARSET), ('attribute_string', STR8)]))]),
    'GetPlayerApplicationSettingValueTextResponse': (0x16, [('@g', Group([('value', u8), ('character_set_id', _CHARSET), ('attribute_string', STR8)]))]),
    'InformDisplayableCharacterSetResponse': (0x17, []),
    'InformBatteryStatusOfCtResponse': (0x18, []),
    'GetElementAttributesResponse': (0x20, [('@g', Group([('attributes', Struct('avrcp.MediaAttribute', _ATTR_ENTRY))], 4))]),
    'GetPlayStatusResponse': (0x30, [('song_length', U32), ('song_position', U32), ('play_status', Int(1, choices=[0, 1, 2, 3, 4, 0xFF]))]),
    'SetAbsoluteVolumeResponse': (0x50, [('volume', Int(1, maxv=0x7F))]),
    'SetAddressedPlayerResponse': (0x60, [('status', _STATUS)]),
    'SetBrowsedPlayerResponse': (0x70, [('status', _STATUS), ('uid_counter', U16), ('numbers_of_items', U32), ('character_set_id', _CHARSET), ('@g', Group([('folder_names', STR16)], 4))]),
    'ChangePathResponse': (0x72, [('status', _STATUS), ('number_of_items', U32)]),
    'GetItemAttributesResponse': (0x73, [('status', _STATUS), ('@g', Group([('attribute_value_entry_list', Struct('avrcp.AttributeValueEntry', _ATTR_ENTRY))], 4))]),
    'PlayItemResponse': (0x74, [('status', _STATUS)]),
    'GetTotalNumberOfItemsResponse': (0x75, [('status', _STATUS), ('uid_counter', U16), ('number_of_items', U32)]),
    'SearchResponse': (0x80, [('status', _STATUS), ('uid_counter', U16), ('number_of_items', U32)]),
    'AddToNowPlayingResponse': (0x90, [('status', _STATUS)]),
    # hand-made in the check: GetCapabilitiesResponse, RegisterNotificationResponse, GetFolderItemsResponse
}

AVRCP_EVT = {
    'PlaybackStatusChangedEvent': (0x01, [('play_status', Int(1, choices=[0, 1, 2, 3, 4, 0xFF]))]),
    'TrackChangedEvent': (0x02, [('uid', U64)]),
    'PlaybackPositionChangedEvent': (0x05, [('playback_position', U32)]),
    'PlayerApplicationSettingChangedEvent': (0x08, [('@g', Group([('player_application_settings', Struct(
        'avrcp.PlayerApplicationSettingChangedEvent.Setting', [('attribute_id', _ATTR), ('value_id', u8)]))], 4))]),
    'NowPlayingContentChangedEvent': (0x09, []),
    'AvailablePlayersChangedEvent': (0x0A, []),
    'AddressedPlayerChangedEvent': (0x0B, [('player', Struct('avrcp.AddressedPlayerChangedEvent.Player', [('player_id', U16), ('uid_counter', U16)]))]),
    'UidsChangedEvent': (0x0C, [('uid_counter', U16)]),
    'VolumeChangedEvent': (0x0D, [('volume', Int(1, maxv=0x7F))]),
}

AVRCP_ITEM = {
    # 6.10.2: item type u8, item length U16, then:
    'MediaPlayerItem': (0x01, [('player_id', U16), ('major_player_type', Int(1, maxv=0x0F)), ('player_sub_type', Int(4, True, choices=[0, 1, 2, 3])),
                               ('play_status', Int(1, choices=[0, 1, 2, 3, 4, 0xFF])), ('feature_bitmask', Int(16, maxv=(1 << 69) - 1)),
                               ('character_set_id', _CHARSET), ('displayable_name', STR16)]),
    'FolderItem': (0x02, [('folder_uid', U64), ('folder_type', Int(1, choices=[0, 1, 2, 3, 4, 5, 6])), ('is_playable', Int(1, choices=[0, 1])),
                          ('character_set_id', _CHARSET), ('displayable_name', STR16)]),
    'MediaElementItem': (0x03, [('media_element_uid', U64), ('media_type', Int(1, choices=[0, 1])), ('character_set_id', _CHARSET),
                                ('displayable_name', STR16), ('@g', Group([('attribute_value_entry_list', Struct('avrcp.AttributeValueEntry', _ATTR_ENTRY))], 3))]),
}


def avrcp_item_bytes(item_type, payload: bytes) -> bytes:
    return struct.pack('>BH', item_type, len(payload)) + payload


# =============================================================================
# RTP (RFC 3550 5.1)
# =============================================================================
def rtp_packet(version, padding, extension, marker, payload_type, seq, ts, ssrc, csrcs, payload: bytes) -> bytes:
    b0 = (version << 6) | (padding << 5) | (extension << 4) | len(csrcs)
    b1 = (marker << 7) | payload_type
    return bytes([b0, b1]) + struct.pack('>HII', seq, ts, ssrc) + b''.join(struct.pack('>I', c) for c in csrcs) + payload


# =============================================================================
# media payloads carried in RTP by A2DP
# =============================================================================
AAC_SAMPLING_FREQUENCIES = [96000, 88200, 64000, 48000, 44100, 32000, 24000, 22050, 16000, 12000, 11025, 8000, 7350]


class Bits:
    """MSB-first bit string"""

    def __init__(self):
        self.bits = []

    def put(self, value: int, n: int):
        assert 0 <= value < (1 << n), (value, n)
        self.bits.append(format(value, f'0{n}b') if n else '')

    def put_bytes(self, data: bytes):
        self.bits.append(''.join(format(b, '08b') for b in data))

    def done(self) -> bytes:
        s = ''.join(self.bits)
        s += '0' * (-len(s) % 8)                   # ByteAlign with zero bits
        return bytes(int(s[i:i + 8], 2) for i in range(0, len(s), 8))


def latm_payload_length_info(n: int) -> bytes:
    """ISO/IEC 14496-3 Table 1.44 PayloadLengthInfo, frameLengthType 0:
        MuxSlotLengthBytes = 0; do { tmp (8 bits); MuxSlotLengthBytes += tmp; } while (tmp == 255);
    so n is written as n // 255 octets 0xFF followed by ONE octet n % 255 (which is 0 when n is a multiple of 255)."""
    return b'\xff' * (n // 255) + bytes([n % 255])


def latm_audio_mux_element(sampling_frequency_index, channel_configuration, payload: bytes,
                           audio_object_type=2, buffer_fullness=0) -> bytes:
    """RFC 6416 payload with muxConfigPresent=1: AudioMuxElement (ISO/IEC 14496-3 Table 1.41) carrying one
    StreamMuxConfig (Table 1.42: audioMuxVersion 0, allStreamsSameTimeFraming 1, numSubFrames 0, numProgram 0,
    numLayer 0, AudioSpecificConfig of Table 1.15 with a GASpecificConfig of three zero flags, frameLengthType 0,
    latmBufferFullness, otherDataPresent 0, crcCheckPresent 0), the PayloadLengthInfo and the PayloadMux."""
    b = Bits()
    b.put(0, 1)                                # useSameStreamMux
    b.put(0, 1)                                # audioMuxVersion
    b.put(1, 1)                                # allStreamsSameTimeFraming
    b.put(0, 6)                                # numSubFrames
    b.put(0, 4)                                # numProgram
    b.put(0, 3)                                # numLayer
    b.put(audio_object_type, 5)                # AudioSpecificConfig
    b.put(sampling_frequency_index, 4)
    b.put(channel_configuration, 4)
    b.put(0, 1)                                # GASpecificConfig: frameLengthFlag
    b.put(0, 1)                                # dependsOnCoreCoder
    b.put(0, 1)                                # extensionFlag
    b.put(0, 3)                                # frameLengthType
    b.put(buffer_fullness, 8)                  # latmBufferFullness
    b.put(0, 1)                                # otherDataPresent
    b.put(0, 1)                                # crcCheckPresent
    b.put_bytes(latm_payload_length_info(len(payload)))
    b.put_bytes(payload)
    return b.done()


def adts_frame(profile, sampling_frequency_index, channel_configuration, payload: bytes, mpeg2=False,
               buffer_fullness=0x7FF) -> bytes:
    """ISO/IEC 13818-7 / 14496-3 adts_fixed_header + adts_variable_header, protection_absent=1, one raw data block"""
    b = Bits()
    b.put(0xFFF, 12)                           # syncword
    b.put(1 if mpeg2 else 0, 1)                # ID
    b.put(0, 2)                                # layer
    b.put(1, 1)                                # protection_absent
    b.put(profile, 2)                          # profile_ObjectType (audio object type - 1)
    b.put(sampling_frequency_index, 4)
    b.put(0, 1)                                # private_bit
    b.put(channel_configuration, 3)
    b.put(0, 1)                                # original_copy
    b.put(0, 1)                                # home
    b.put(0, 1)                                # copyright_identification_bit
    b.put(0, 1)                                # copyright_identification_start
    b.put(len(payload) + 7, 13)                # aac_frame_length, header included
    b.put(buffer_fullness, 11)
    b.put(0, 2)                                # number_of_raw_data_blocks_in_frame
    return b.done() + payload


SBC_SAMPLING_FREQUENCIES = [16000, 32000, 44100, 48000]
SBC_MONO, SBC_DUAL, SBC_STEREO, SBC_JOINT = 0, 1, 2, 3


def sbc_frame_length(blocks, channel_mode, subbands, bitpool) -> int:
    """A2DP 1.3 section 12.9 (the last term is rounded UP to whole octets)"""
    channels = 1 if channel_mode == SBC_MONO else 2
    n = 4 + (4 * subbands * channels) // 8
    if channel_mode in (SBC_MONO, SBC_DUAL):
        return n + -(-(blocks * channels * bitpool) // 8)
    return n + -(-((subbands if channel_mode == SBC_JOINT else 0) + blocks * bitpool) // 8)


def sbc_frame(rng, sf_index, blocks, channel_mode, allocation, subbands, bitpool) -> bytes:
    """A2DP 12.9 frame header (syncword 0x9C; sampling_frequency(2) blocks(2) channel_mode(2) allocation_method(1)
    subbands(1); bitpool; crc_check) followed by arbitrary audio octets up to the frame length"""
    n = sbc_frame_length(blocks, channel_mode, subbands, bitpool)
    h = bytes([0x9C, (sf_index << 6) | ((blocks // 4 - 1) << 4) | (channel_mode << 2) | (allocation << 1) | (1 if subbands == 8 else 0),
               bitpool, rng.getrandbits(8)])
    return h + rng.randbytes(n - 4)


def sbc_media_payload(frames, fragmented=0, start=0, last=0) -> bytes:
    """A2DP 12.8.1 media payload header (F S L RFA | number of frames (4)) + whole SBC frames"""
    return bytes([(fragmented << 7) | (start << 6) | (last << 5) | len(frames)]) + b''.join(frames)


# =============================================================================
# advertising data (Core Vol 3 Part C 11, CSS Part A)
# =============================================================================
def ad_bytes(structs) -> bytes:
    return b''.join(bytes([len(d) + 1, t]) + d for t, d in structs)


def _min_le(v: int, minimum=1) -> bytes:
    n = max(minimum, (v.bit_length() + 7) // 8)
    return v.to_bytes(n, 'little')


class UuidList(Kind):
    tag = 'uuidlist'

    def __init__(self, w):
        self.w = w

    def gen(self, rng):
        return [gen_uuid(rng, (self.w,)) for _ in range(rng.choice([0, 1, 2, 3]))]

    def enc(self, v):
        return b''.join(v)

    def cls_of(self, v):
        cl = {uuid_class(u) for u in v}
        return '+'.join(sorted(cl)) or None


class Utf8(Kind):
    tag = 'str'

    def __init__(self, maxb=29):
        self.maxb = maxb

    def gen(self, rng):
        return gen_str(rng, self.maxb)

    def enc(self, v):
        return v.encode('utf-8')


class MinLE(Kind):
    """integer carried in the smallest number of octets (>= minimum), little endian"""
    tag = 'int'

    def __init__(self, bits, minimum=1):
        self.bits, self.minimum = bits, minimum

    def gen(self, rng):
        return gen_int(rng, self.bits)

    def enc(self, v):
        return _min_le(v, self.minimum)


class SInt(Kind):
    tag = 'int'

    def __init__(self, width):
        self.width = width

    def gen(self, rng):
        b = self.width * 8
        return rng.choice([0, 1, -1, (1 << (b - 1)) - 1, -(1 << (b - 1)), rng.randint(-(1 << (b - 1)), (1 << (b - 1)) - 1)])

    def enc(self, v):
        return int(v).to_bytes(self.width, 'little', signed=True)


# typed structure: class name -> (ad type, ctor style, [(field, kind)])
#   style 'pos'  : cls(*values)           style 'one': cls(value)
#   style 'addr' : cls(Address(bytes, type))
AD_TYPES = {
    'IncompleteListOf16BitServiceUUIDs': (0x02, 'one', [('uuids', UuidList(2))]),
    'CompleteListOf16BitServiceUUIDs': (0x03, 'one', [('uuids', UuidList(2))]),
    'IncompleteListOf32BitServiceUUIDs': (0x04, 'one', [('uuids', UuidList(4))]),
    'CompleteListOf32BitServiceUUIDs': (0x05, 'one', [('uuids', UuidList(4))]),
    'IncompleteListOf128BitServiceUUIDs': (0x06, 'one', [('uuids', UuidList(16))]),
    'CompleteListOf128BitServiceUUIDs': (0x07, 'one', [('uuids', UuidList(16))]),
    'ShortenedLocalName': (0x08, 'one', [('', Utf8())]),
    'CompleteLocalName': (0x09, 'one', [('', Utf8())]),
    'Flags': (0x01, 'one', [('', MinLE(16))]),
    'ManufacturerSpecificData': (0xFF, 'pos', [('company_identifier', u16), ('data', Rest(27))]),
    'TxPowerLevel': (0x0A, 'one', [('', SInt(1))]),
    'ClassOfDevice': (0x0D, 'cod', [('', Int(3, mask=0xFFFFFC))]),  # format type (bits 1..0) = 00
    'SecureSimplePairingHashC192': (0x0E, 'one', [('', Bytes(16))]),
    'SecureSimplePairingRandomizerR192': (0x0F, 'one', [('', Bytes(16))]),
    'SecureSimplePairingHashC256': (0x1D, 'one', [('', Bytes(16))]),
    'SecureSimplePairingRandomizerR256': (0x1E, 'one', [('', Bytes(16))]),
    'LeSecureConnectionsConfirmationValue': (0x22, 'one', [('', Bytes(16))]),
    'LeSecureConnectionsRandomValue': (0x23, 'one', [('', Bytes(16))]),
    'SecurityManagerOutOfBandFlag': (0x11, 'one', [('', u8)]),
    'SecurityManagerTKValue': (0x10, 'one', [('', Bytes(16))]),
    'PeripheralConnectionIntervalRange': (0x12, 'pos', [('connection_interval_min', u16), ('connection_interval_max', u16)]),
    'ListOf16BitServiceSolicitationUUIDs': (0x14, 'one', [('uuids', UuidList(2))]),
    'ListOf32BitServiceSolicitationUUIDs': (0x1F, 'one', [('uuids', UuidList(4))]),
    'ListOf128BitServiceSolicitationUUIDs': (0x15, 'one', [('uuids', UuidList(16))]),
    'ServiceData16BitUUID': (0x16, 'pos', [('service_uuid', Uuid((2,))), ('data', Rest(27))]),
    'ServiceData32BitUUID': (0x20, 'pos', [('service_uuid', Uuid((4,))), ('data', Rest(25))]),
    'ServiceData128BitUUID': (0x21, 'pos', [('service_uuid', Uuid((16,))), ('data', Rest(13))]),
    'Appearance': (0x19, 'appearance', [('', u16)]),
    'PublicTargetAddress': (0x17, 'addr-public', [('', Addr())]),
    'RandomTargetAddress': (0x18, 'addr-random', [('', Addr())]),
    'AdvertisingInterval': (0x1A, 'one', [('', u16)]),
    'AdvertisingIntervalLong': (0x2F, 'one', [('', MinLE(32, 3))]),
    'LeBluetoothDeviceAddress': (0x1B, 'addr-typed', [('', Addr()), ('type', Int(1, choices=[0, 1]))]),
    'LeRole': (0x1C, 'one', [('', Int(1, choices=[0, 1, 2, 3]))]),
    'Uri': (0x24, 'one', [('', Utf8())]),
    'LeSupportedFeatures': (0x27, 'one', [('', MinLE(64))]),
    'ChannelMapUpdateIndication': (0x28, 'pos', [('chm', Int(5)), ('instant', u16)]),
    'BroadcastCode': (0x2D, 'one', [('', Utf8(16))]),
    'EncryptedData': (0x31, 'pos', [('randomizer', Int(5)), ('payload', Rest(20)), ('mic', Bytes(4))]),
    'PeriodicAdvertisingResponseTimingInformation': (0x32, 'pos', [('rspaa', u32), ('num_subevents', u8), ('subevent_interval', u8), ('response_slot_delay', u8), ('response_slot_spacing', u8)]),
    'BroadcastName': (0x30, 'one', [('', Utf8())]),
    'ResolvableSetIdentifier': (0x2E, 'one', [('', Bytes(6))]),
}


def ad_typed_bytes(name, values) -> bytes:
    _t, style, fields = AD_TYPES[name]
    if style == 'addr-typed':
        return bytes([values[1]]) + bytes(values[0])
    return b''.join(k.enc(v) for (_, k), v in zip(fields, values))


# =============================================================================
# addresses and UUID text forms
# =============================================================================
def address_string(le: bytes, public: bool) -> str:
    s = ':'.join(f'{b:02X}' for b in reversed(le))
    return s + '/P' if public else s


def uuid_string(le: bytes) -> str:
    """text form, most significant octet first; 128-bit with dashes 8-4-4-4-12"""
    h = bytes(reversed(le)).hex().upper()
    if len(le) == 16:
        return f'{h[0:8]}-{h[8:12]}-{h[12:16]}-{h[16:20]}-{h[20:32]}'
    return h


# =============================================================================
# helpers for the check
# =============================================================================
def gen_fields(fields, rng):
    return [k.gen(rng) for _, k in fields]


def enc_fields(fields, values) -> bytes:
    return b''.join(k.enc(v) for (_, k), v in zip(fields, values))


def segments(fields, values):
    """[(name, start, end)] offsets of every field inside enc_fields()"""
    out, off = [], 0
    for (n, k), v in zip(fields, values):
        e = k.enc(v)
        out.append((n, off, off + len(e)))
        off += len(e)
    return out


def value_classes(fields, values):
    out = []
    for (n, k), v in zip(fields, values):
        c = k.cls_of(v)
        if c:
            out.append(f'{n}:{c}' if n else c)
    return out
