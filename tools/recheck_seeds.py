#!/venv/bin/python
"""recheck_seeds.py <name-glob>... — re-applies kept seeded changes to scratch worktrees of the current /repo HEAD and
re-runs the check recorded in caught_by (quick tier): prints STILL-CAUGHT / NOW-MISSED / PATCH-FAILS per seed.
Does not modify meta.json."""
import fnmatch, json, os, re, subprocess, sys, tempfile
root = os.path.dirname(os.path.dirname(os.path.abspath(__file__)))
names = sorted(n for n in os.listdir(os.path.join(root, 'seeded')) if any(fnmatch.fnmatch(n, g) for g in sys.argv[1:]))
for name in names:
    d = os.path.join(root, 'seeded', name)
    meta = json.load(open(os.path.join(d, 'meta.json')))
    cb = meta.get('caught_by') or {}
    chk = cb.get('check')
    if not chk:
        print(f'{name}: SKIP (recorded as not caught)'); continue
    wt = tempfile.mkdtemp(prefix='wt-re-', dir='/tmp'); os.rmdir(wt)
    subprocess.run(['git', '-C', '/repo', 'worktree', 'add', '-q', '--detach', wt, 'HEAD'], check=True)
    try:
        if subprocess.run(['git', '-C', wt, 'apply', os.path.join(d, 'patch.diff')]).returncode != 0:
            print(f'{name}: PATCH-FAILS'); continue
        out = subprocess.run([os.path.join(root, 'bin/check'), chk, '--tier', 'quick', '--no-evidence'],
                             env=dict(os.environ, VERIF_REPO=wt), capture_output=True, text=True).stdout
        keys = sorted(set(re.findall(r'violated clause (\S+?):', out)))
        print(f'{name}: ' + (f'STILL-CAUGHT by {chk} ({len(keys)} keys)' if keys else f'NOW-MISSED by {chk}'), flush=True)
    finally:
        subprocess.run(['git', '-C', '/repo', 'worktree', 'remove', '--force', wt])
