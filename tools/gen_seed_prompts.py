#!/venv/bin/python
"""gen_seed_prompts.py <round-dir, e.g. /tmp/seed5> [Cnn ...] — writes <round-dir>/<Cnn>.prompt.txt for the seeding
sub-agents and creates a scratch worktree <round-dir>/<Cnn> of /repo for each. A prompt holds ONLY the property text,
the places earlier rounds already used (from seeded/*/patch.diff) and the rules; nothing else from /verif."""
import glob, json, os, re, subprocess, sys
root = os.path.dirname(os.path.dirname(os.path.abspath(__file__)))
rd = sys.argv[1]
want = sys.argv[2:]
props = {json.loads(l)['id']: json.loads(l) for l in open(os.path.join(root, 'properties.jsonl'))}
os.makedirs(rd, exist_ok=True)
EXTRA = os.environ.get('SEED_EXTRA', '')
for pid, p in props.items():
    if want and pid not in want:
        continue
    wt = os.path.join(rd, pid)
    used = []
    for d in sorted(glob.glob(os.path.join(root, 'seeded', pid + '-*'))):
        try:
            diff = open(os.path.join(d, 'patch.diff')).read()
        except OSError:
            continue
        f = None
        for line in diff.splitlines():
            if line.startswith('+++ b/'):
                f = line[6:]
            m = re.match(r'@@ [^@]+ @@ ?(.*)', line)
            if m and f:
                ctx = m.group(1).strip()
            if (line.startswith('-') and not line.startswith('---') or line.startswith('+') and not line.startswith('+++')) \
                    and f and line[1:].strip():
                used.append(f'  - {f} near `{ctx}` (e.g. line `{line[1:].strip()[:90]}`)')
                f_done = f
                f = None
    used = list(dict.fromkeys(used))
    text = f"""You are helping to test a verification effort by writing realistic *bugs*. You work ONLY inside the git worktree {wt} (a checkout of google/bumble, a pure-Python Bluetooth stack; run it with `/venv/bin/python`, always with `PYTHONPATH={wt}` so that the worktree's code is imported, e.g. `cd {wt} && PYTHONPATH={wt} /venv/bin/python -m pytest -q -p no:cacheprovider tests/<file>`). Never read, write or run anything under /verif, /repo or any other directory under /tmp; never commit; never use `git stash` (it is shared between worktrees: use `git -C {wt} diff > file`, `git -C {wt} checkout -- .` and `git -C {wt} apply file`); do NOT look at the git history (`git log`, `git show`, `git blame` are off-limits) and do not simply undo something that looks recently changed. There is no network.

Here is a semantic property that google/bumble is supposed to satisfy:

----
{p['title']}

{p['statement']}

Quantifier: {p['quantifier']['text']}

Why the existing tests cannot settle it: {p['why_tests_cant']}

Anchored in: {', '.join(p['anchors']['files'])}

----

Earlier rounds of this exercise already produced changes at these places for this property (do NOT repeat them, and do not produce the same mechanism at a neighbouring line):
{chr(10).join(used) if used else '  (none)'}

Produce THREE independent source changes to bumble (under {wt}/bumble only; each 1-15 changed lines; each on its own, starting from the clean worktree) such that, for each change:
 (a) bumble still imports and the repository's WHOLE existing test suite still passes with it (`cd {wt} && PYTHONPATH={wt} /venv/bin/python -m pytest -q -p no:cacheprovider -n 4 tests`; say the pass counts);
 (b) the property above is BROKEN by it — there is some input, schedule, fault point or history for which the stated behaviour no longer holds;
 (c) it looks like a plausible mistake a developer could make (an off-by-one, a dropped reset/flush/cleanup, a wrong comparison or mask, a swapped field, a missing check on one path, a state update moved across an await, a stale cached value), NOT an obviously malicious or absurd edit, and NOT in test code;
 (d) it is HARD to notice and DIFFERENT from the ones listed above (another function or another mechanism): it needs something specific to manifest — a particular interleaving of two tasks or two devices, a fault/disconnect at a particular point, a multi-step history (e.g. the third use after two earlier ones, a reconnect, a reopen), an unusual but legal value or size (a boundary, zero, maximum, an odd option combination), a rarely used option or role (peripheral-initiated, secondary transport, enhanced/extended variants), or two cooperating sites that each look fine alone. Changes that fail on the first ordinary use do not count. At least two of the three must be of one of these kinds: (i) two cooperating sites — a change that only matters because of how another, unmodified place relies on it; (ii) state that wrongly survives or is wrongly lost across a reconnect / re-open / re-pair / second use; (iii) behaviour under a rarely used configuration or role; (iv) an error / refusal / timeout path. Prefer three changes that break DIFFERENT clauses of the property and live in different functions (also look in the modules that the anchored files call into or are called from: bumble/device.py, bumble/host.py, bumble/controller.py, bumble/link.py, bumble/utils.py, bumble/core.py, the transports and profiles, wherever the property's behaviour is actually implemented).{EXTRA}

For each change k in 1..3 write, under {wt}/SEEDS/k/:
 - patch.diff  (output of `git -C {wt} diff` for that change alone, relative to the clean worktree)
 - demo.py     (a small self-contained program, run as `PYTHONPATH={wt} /venv/bin/python {wt}/SEEDS/k/demo.py`, that exits non-zero WITH the change applied and exits 0 WITHOUT it; verify both yourself; it must finish within 60 s)
 - notes.md    (which clause of the property it breaks, what exactly it needs in order to manifest, what you ran to confirm (a) and the demo both ways)
Leave the worktree clean (apart from the SEEDS directory) when you finish. In your final message list the three changes in one line each (file/function, what was changed, what triggers it).
"""
    open(os.path.join(rd, pid + '.prompt.txt'), 'w').write(text)
    if not os.path.isdir(wt):
        subprocess.run(['git', '-C', '/repo', 'worktree', 'add', '-q', '--detach', wt, 'HEAD'], check=True)
    print(pid, len(used), 'used places')
