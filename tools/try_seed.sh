#!/bin/sh
# usage: tools/try_seed.sh <Cnn> <seed-dir containing patch.diff and demo.py> [--tier quick|thorough] [--notests]
# Confirms a seeded change (demo fails with it / passes without it, repository tests green with it) in a
# scratch worktree of /repo and runs the check for <Cnn> against that worktree. Nothing touches /repo itself.
ID="$1"; DIR="$2"; shift 2
TIER=quick; TESTS=1
for a in "$@"; do case "$a" in --notests) TESTS=0;; quick|thorough) TIER=$a;; esac; done
WT=$(mktemp -d /tmp/wt-seed-XXXXXX); rmdir "$WT"
git -C /repo worktree add -q --detach "$WT" HEAD || exit 3
mkdir -p "$WT/SEEDS/x"; cp "$DIR/demo.py" "$WT/SEEDS/x/demo.py"
( cd "$WT" && PYTHONPATH="$WT" timeout 300 /venv/bin/python SEEDS/x/demo.py >/dev/null 2>&1 ); echo "demo without patch: rc=$?"
if ! git -C "$WT" apply "$DIR/patch.diff" 2>/dev/null; then
  if ! git -C "$WT" apply --3way "$DIR/patch.diff" 2>/dev/null; then echo "PATCH DOES NOT APPLY to current /repo HEAD"; git -C /repo worktree remove --force "$WT"; exit 4; fi
fi
( cd "$WT" && PYTHONPATH="$WT" timeout 300 /venv/bin/python SEEDS/x/demo.py >/dev/null 2>&1 ); echo "demo with patch: rc=$?"
if [ $TESTS = 1 ]; then
  ( cd "$WT" && PYTHONPATH="$WT" /venv/bin/python -m pytest -q -p no:cacheprovider --timeout=900 -n 8 tests 2>&1 | tail -1 )
fi
VERIF_REPO="$WT" /verif/bin/check "$ID" --tier $TIER --no-evidence | grep -E "VIOLATION|INCONCLUSIVE|held on|violated clause" | cut -c1-260 | head -12
git -C /repo worktree remove --force "$WT"
