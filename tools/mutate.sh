#!/bin/sh
# usage: tools/mutate.sh <Cnn> <file-in-repo> <python-expr old> <new>   (exact string replace, first occurrence)
# Applies one edit in a scratch worktree of /repo, runs the quick check against it, removes the worktree.
ID="$1"; FILE="$2"; OLD="$3"; NEW="$4"; shift 4
WT=$(mktemp -d /tmp/wt-mut-XXXXXX)
rmdir "$WT"
git -C /repo worktree add -q --detach "$WT" HEAD || exit 3
# carry uncommitted modifications of /repo too
git -C /repo diff | (cd "$WT" && git apply 2>/dev/null)
/venv/bin/python - "$WT/$FILE" "$OLD" "$NEW" <<'PY'
import sys
p, old, new = sys.argv[1:4]
s = open(p).read()
if old not in s:
    print('MUTATION NOT APPLICABLE: pattern not found'); sys.exit(4)
open(p, 'w').write(s.replace(old, new, 1))
PY
rc=$?
if [ $rc -eq 0 ]; then
  VERIF_REPO="$WT" /verif/bin/check "$ID" --no-evidence "$@" | grep -E "VIOLATION|INCONCLUSIVE|held on|violated clause" | head -8
fi
git -C /repo worktree remove --force "$WT"
