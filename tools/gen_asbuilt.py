#!/venv/bin/python
"""Rewrites the table of DESIGN.md section 8 from the check modules (MIN_EVENTS keys of the quick tier) and the quick
wall times recorded in evidence/<id>.json."""
import importlib, json, os, re, sys
root = os.path.dirname(os.path.dirname(os.path.abspath(__file__)))
sys.path.insert(0, root); sys.path.insert(0, os.environ.get('VERIF_REPO', '/repo'))
rows = ['| property | check | level | deciding monitors (MIN_EVENTS keys, quick tier) | quick wall (evidence run) |', '|---|---|---|---|---|']
for i in range(1, 21):
    pid = f'C{i:02d}'
    mod = importlib.import_module(f'checks.{pid.lower()}')
    keys = sorted(mod.MIN_EVENTS.get('quick', {}))
    wall = ''
    try:
        ev = json.load(open(os.path.join(root, 'evidence', pid + '.json')))
        w = ev.get('wall_s')
        wall = f'{w:.0f} s' if w else ''
    except Exception:
        pass
    rows.append(f'| {pid} | checks/{pid.lower()}.py | {mod.LEVEL} | {len(keys)} counters: {", ".join(keys[:14])}{", ..." if len(keys) > 14 else ""} | {wall} |')
p = os.path.join(root, 'DESIGN.md')
s = open(p).read()
m = re.search(r'(## 8\. As built: one line per property\n\n)(\|.*?\n)(\n)', s, re.S)
s = s[:m.start(2)] + '\n'.join(rows) + '\n' + s[m.end(2):]
open(p, 'w').write(s)
print('rewrote', len(rows) - 2, 'rows')
