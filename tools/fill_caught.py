#!/venv/bin/python
"""fill_caught.py <seeded-dir-name> [<check id> ...] — applies seeded/<name>/patch.diff in a scratch worktree of
/repo, runs the named checks (default: the seed's own property) in the quick tier against it and records the
violation keys in meta.json['caught_by'] (or leaves it null and prints MISSED)."""
import json, os, re, subprocess, sys, tempfile, shutil
root = os.path.dirname(os.path.dirname(os.path.abspath(__file__)))
name, checks = sys.argv[1], sys.argv[2:]
d = os.path.join(root, 'seeded', name)
meta = json.load(open(os.path.join(d, 'meta.json')))
checks = checks or [meta['property']]
wt = tempfile.mkdtemp(prefix='wt-fill-', dir='/tmp'); os.rmdir(wt)
subprocess.run(['git', '-C', '/repo', 'worktree', 'add', '-q', '--detach', wt, 'HEAD'], check=True)
try:
    subprocess.run(['git', '-C', wt, 'apply', os.path.join(d, 'patch.diff')], check=True)
    for c in checks:
        out = subprocess.run([os.path.join(root, 'bin/check'), c, '--tier', 'quick', '--no-evidence'],
                             env=dict(os.environ, VERIF_REPO=wt), capture_output=True, text=True).stdout
        keys = sorted(set(re.findall(r'violated clause (\S+?):', out)))
        known = 'KNOWN-FINDING' in out
        if keys:
            meta['caught_by'] = {'check': c, 'violation_keys': ', '.join(keys[:6]) + (f' (+{len(keys) - 6} more)' if len(keys) > 6 else ''),
                                 'history': sys.argv[0] and os.environ.get('CAUGHT_HISTORY', 'as built')}
            json.dump(meta, open(os.path.join(d, 'meta.json'), 'w'), indent=1)
            print(f'{name}: caught by {c}: {keys[:3]}')
            break
    else:
        print(f'{name}: MISSED by {checks}')
finally:
    subprocess.run(['git', '-C', '/repo', 'worktree', 'remove', '--force', wt])
