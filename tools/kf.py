#!/venv/bin/python
"""kf.py add <property> <key> <status known|fixed> <commit|-> <what...>  — maintains known_findings.json by hand (never at check run time)."""
import json, sys, os
p = os.path.join(os.path.dirname(os.path.dirname(os.path.abspath(__file__))), 'known_findings.json')
d = json.load(open(p))
_, cmd, prop, key, status, commit, *what = sys.argv
e = {'property': prop, 'key': key, 'status': status, 'what': ' '.join(what)}
if commit != '-':
    e['commit'] = commit
    e['record'] = f'fixed: property={prop} {commit} {" ".join(what)}'
d = [x for x in d if not (x['property'] == prop and x['key'] == key)] + [e]
json.dump(d, open(p, 'w'), indent=1)
