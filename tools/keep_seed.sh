#!/bin/sh
# usage: tools/keep_seed.sh <Cnn> <seed-dir> <name>
# Confirms a seeded change in a scratch worktree of /repo (demo passes without / fails with the change, whole
# repository suite green with it) and, if confirmed, keeps it as /verif/seeded/<Cnn>-<name>/.
ID="$1"; DIR="$2"; NAME="$3"
OUT=/verif/seeded/$ID-$NAME
WT=$(mktemp -d /tmp/wt-keep-XXXXXX); rmdir "$WT"
git -C /repo worktree add -q --detach "$WT" HEAD || exit 3
mkdir -p "$WT/SEEDS/x"; cp "$DIR/demo.py" "$WT/SEEDS/x/demo.py"
( cd "$WT" && PYTHONPATH="$WT" timeout 600 /venv/bin/python SEEDS/x/demo.py >/dev/null 2>&1 ); RC0=$?
if ! git -C "$WT" apply "$DIR/patch.diff" 2>/dev/null && ! git -C "$WT" apply --3way "$DIR/patch.diff" 2>/dev/null; then
  echo "$ID-$NAME: PATCH DOES NOT APPLY"; git -C /repo worktree remove --force "$WT"; exit 4; fi
git -C "$WT" diff > "$WT/_patch_now.diff"
( cd "$WT" && PYTHONPATH="$WT" timeout 600 /venv/bin/python SEEDS/x/demo.py >/dev/null 2>&1 ); RC1=$?
TESTS=$( cd "$WT" && PYTHONPATH="$WT" /venv/bin/python -m pytest -q -p no:cacheprovider --timeout=900 -n 6 tests 2>&1 | tail -1 )
HEAD=$(git -C /repo log --format=%h -1)
echo "$ID-$NAME: demo without=$RC0 with=$RC1 tests: $TESTS"
case "$TESTS" in *failed*|*error*) OKT=0;; *passed*) OKT=1;; *) OKT=0;; esac
if [ "$RC0" = 0 ] && [ "$RC1" != 0 ] && [ $OKT = 1 ]; then
  mkdir -p "$OUT"; cp "$WT/_patch_now.diff" "$OUT/patch.diff"; cp "$DIR/demo.py" "$OUT/demo.py"; [ -f "$DIR/notes.md" ] && cp "$DIR/notes.md" "$OUT/notes.md"
  /venv/bin/python - "$OUT" "$ID" "$HEAD" "$RC0" "$RC1" "$TESTS" <<'PY'
import json, sys, os
out, pid, head, rc0, rc1, tests = sys.argv[1:7]
notes = open(os.path.join(out, 'notes.md')).read() if os.path.exists(os.path.join(out, 'notes.md')) else ''
json.dump({'property': pid, 'breaks': pid, 'needs_to_manifest': notes[:1500],
           'confirmed_against_repo_head': head,
           'what_was_run': ['demo.py in a scratch worktree without the change: exit %s' % rc0,
                            'demo.py with the change: exit %s' % rc1,
                            'whole repository suite with the change: %s' % tests],
           'caught_by': None}, open(os.path.join(out, 'meta.json'), 'w'), indent=1)
PY
  echo "  kept as $OUT"
else
  echo "  NOT kept"
fi
git -C /repo worktree remove --force "$WT"
