#!/venv/bin/python
"""Regenerates MANIFEST.json from the check modules that exist under checks/."""
import importlib
import json
import os
import sys

ROOT = os.path.dirname(os.path.dirname(os.path.abspath(__file__)))
sys.path[:0] = ['/repo', ROOT]
props = [json.loads(l) for l in open(os.path.join(ROOT, 'properties.jsonl'))]
checks = []
na = []
PENDING = {}
for p in props:
    pid = p['id']
    path = os.path.join(ROOT, 'checks', f'{pid.lower()}.py')
    claimed = open(os.path.join(ROOT, 'tools', 'claimed.txt')).read().split()
    if not os.path.exists(path) or pid not in claimed:
        na.append({'property_id': pid, 'reason': PENDING.get(pid, 'check not built yet in this framework (planned; see DESIGN.md section 2)')})
        continue
    mod = importlib.import_module(f'checks.{pid.lower()}')
    if getattr(mod, 'NOT_CLAIMED', None):
        na.append({'property_id': pid, 'reason': mod.NOT_CLAIMED})
        continue
    checks.append({
        'property_id': pid,
        'quick_cmd': f'./bin/check {pid} --tier quick',
        'thorough_cmd': f'./bin/check {pid} --tier thorough',
        'evidence_file': f'evidence/{pid}.json',
        'replay_cmd_template': f'./bin/check {pid} --replay {{path}}',
        'engine': 'vlib',
        'level_claimed': {
            'category': mod.LEVEL,
            'text': mod.LEVEL_TEXT,
            'design_ref': f'DESIGN.md section 2, {pid}',
        },
        'level_note': mod.LEVEL_NOTE,
        'technique': mod.TECHNIQUE,
    })
manifest = {
    'version': 1,
    'setup_cmd': '/venv/bin/pip install --quiet --no-index --find-links /opt/veriftools/wheels --target /verif/.deps icontract deal || true',
    'hooks': {
        'guard': 'BUMBLE_VERIF',
        'enable': 'no source hooks: checks import /repo directly under /venv/bin/python and attach taps, wrappers and contracts to live objects from the harness; BUMBLE_VERIF=1 is exported for the child processes but no repository code reads it',
        'baseline_off_cmd': 'cd /repo && /venv/bin/python -m pytest -ra -q -p no:cacheprovider --timeout=900 --continue-on-collection-errors',
        'source_commits': [],
        'add_only': True,
    },
    'engines': [{
        'name': 'vlib',
        'path': 'vlib/',
        'serves_properties': [c['property_id'] for c in checks],
        'kind_free_text': 'runtime monitoring harness: sharded case runner, virtual-time asyncio loop, multi-device rig with HCI taps and order-preserving delay pipes, independent reference codecs/models, offline log checkers, known-finding classifier',
    }],
    'checks': checks,
    'not_applicable': na,
    'notes': 'Exit 0 = held on everything explored; exit 1 + VIOLATION line = a monitor saw a refuting execution not listed in known_findings.json; exit 2 + INCONCLUSIVE line = the deciding monitor saw too few events or a watchdog fired. Seeds: VERIF_SEED; tier: VERIF_TIER or --tier.',
}
with open(os.path.join(ROOT, 'MANIFEST.json'), 'w') as f:
    json.dump(manifest, f, indent=1)
print('claimed', [c['property_id'] for c in checks])
