"""C10 — the ATT server answers each request exactly once and within ATT_MTU.

Rig: device 0 = real bumble GATT server with a generated attribute database; device 1 =
raw peer speaking ATT by hand on CID 4 and on a hand-opened enhanced ATT bearer
(vlib/att_peer.py).  Oracle: vlib/ref_att.Pairing, one automaton per bearer, fed with every
PDU in wire order and evaluated at each quiescence point:

  * a defined request gets exactly one reply: its response opcode or an Error Response
    naming it (replies produced after application-level sleeps are waited for 31 virtual s);
  * commands, confirmations, response-type opcodes and command-flagged unknown opcodes get
    nothing; an unknown opcode without the command flag gets nothing or one Error Response;
  * no server PDU (response, notification, indication) is longer than the bearer's current
    ATT_MTU (tracked from the Exchange MTU PDUs on the wire; on an enhanced bearer the
    minimum of the two L2CAP MTU fields, never renegotiated);
  * at most one indication per bearer awaits confirmation;
  * every server PDU parses under the layout of its own opcode.

Workloads
  sweep   every opcode 0x00..0xFF x body shapes (empty, 1, 2, 4, 6, 22, 600 random bytes,
          every truncation of the valid form, valid form, over-long form), each in its own window
  seq     sequences of 1-20 generated requests (valid / handle 0 / 0xFFFF / start>end / empty,
          1-byte, odd, 300-handle sets / protected, missing, failing attributes inside sets and
          ranges / bad UUID lengths / values of 0..600 bytes), single or pipelined, across an
          Exchange MTU at a random position
  runs    every database also holds runs of 2+ CONSECUTIVE attributes whose UUIDs have the same width
          (16 / 32 / 128 bit, and 32 next to 128) as descriptor types after a characteristic value, as
          consecutive characteristic declarations and as consecutive (partly same-UUID) services; sweep and
          seq cases aim Find Information, Read By Type (0x2803), Read By Group Type and Find By Type Value
          at the start of such a run (label suffix /uuidNN-run, also the last segment of the MTU key)
  notify  subscriptions written by hand, then notifications and concurrent indications from the
          server API with values around ATT_MTU-3 while confirmations are withheld, with
          requests interleaved
"""
from __future__ import annotations

import asyncio
import random
import struct

from vlib import ref_att as ra
from vlib import vloop
from vlib.result import R

ID = 'C10'
LEVEL = 'exploration'
RULE = ('seeded cases over (attribute database, link security, bearer set, ACL geometry, delay schedule, MTU '
        'plan, PDU sequence). sweep cases enumerate all 256 opcodes x body shapes; seq cases draw 1-20 requests '
        'from a grammar of valid and invalid parameter forms; notify cases drive notifications/indications around '
        'ATT_MTU-3. Every database carries runs of 2+ consecutive attributes of one UUID width (16/32/128 bit; '
        'descriptor types, characteristic declarations, services) and the listing requests are aimed at them. '
        'A case is non-trivial when at least one judged client PDU falls outside what a well-behaved '
        'client sends to world-readable attributes (label other than allowed/all-allowed/valid) or a '
        'server-initiated PDU was observed; distinct = kind + bearer set + MTU plan + ordered (opcode, label) list')
ASSUMPTIONS = [
    'one window = PDUs sent back to back, judged at quiescence; in pipelined windows replies are matched by '
    'count per opcode, not by order',
    'a reply may take up to 31 virtual seconds (application callbacks that sleep); a GATT client gives up at 30 s',
    'ATT_MTU changes only through a well-formed Exchange MTU exchange with both values >= 23, and takes effect '
    'after the response; Exchange MTU is always sent in its own window',
    'an indication sent *by the peer* on the fixed channel is addressed to the device\'s client role, which may '
    'confirm it; that confirmation is not a server reply',
    'indications are always confirmed within 30 virtual seconds (behaviour after a transaction timeout is not judged)',
    'a bearer on which a request went unanswered is not used any further (for a client it has failed, Part F 3.3.3); '
    'in a pipelined window only the first unanswered request is reported, under the label "pipelined"',
    'after a window in which an exception escaped the stack, one extra Read Request probes that the bearer still answers',
    'on an enhanced bearer one SDU is one ATT PDU; what the server handed to its channel is observed only to name SDUs '
    'that are not exactly one PDU (merged / spread) and to judge the PDUs as written',
]
MIN_EVENTS = {
    # counts on the unchanged tree are lower than on a fixed one: a bearer on which a request went
    # unanswered is not used any further
    'quick': {'requests_judged': 1800, 'requests_answered_once': 1500, 'non_requests_judged': 1700,
              'unknown_opcodes_judged': 800, 'mtu_checks': 4000, 'indications_seen': 400, 'notifications_seen': 2000,
              'opcodes_swept': 256, 'eatt_requests': 1800, 'server_pdus_exactly_mtu': 1400, 'sequences': 600,
              'eatt_exchange_mtu_probes': 20, 'reconnections_after_raised_mtu': 40, 'notify_calls_after_reconnect': 600,
              'eatt_bearer_closed_during_outstanding_indication': 15, 'exchange_mtu_below_23_sent': 10,
              'uuid_run_requests': 600, 'uuid_run_find_information': 150, 'uuid32_run_find_information': 80,
              'uuid_run_read_by_type_declarations': 150, 'uuid_run_read_by_group_type': 100,
              'uuid_run_find_by_type_value': 100, 'uuid_run_wide_responses_with_2plus_entries': 150},
    'thorough': {'requests_judged': 72000, 'requests_answered_once': 60000, 'non_requests_judged': 68000,
                 'unknown_opcodes_judged': 32000, 'mtu_checks': 160000, 'indications_seen': 16000,
                 'notifications_seen': 80000, 'opcodes_swept': 10240, 'eatt_requests': 72000,
                 'server_pdus_exactly_mtu': 56000, 'sequences': 24000, 'eatt_exchange_mtu_probes': 800,
                 'reconnections_after_raised_mtu': 400, 'notify_calls_after_reconnect': 6000,
                 'eatt_bearer_closed_during_outstanding_indication': 150, 'exchange_mtu_below_23_sent': 100,
                 'uuid_run_requests': 6000, 'uuid_run_find_information': 1500, 'uuid32_run_find_information': 800,
                 'uuid_run_read_by_type_declarations': 1500, 'uuid_run_read_by_group_type': 1000,
                 'uuid_run_find_by_type_value': 1000, 'uuid_run_wide_responses_with_2plus_entries': 1500},
}
CASE_TIMEOUT = 300

VALUE_LENS = [0, 1, 20, 22, 23, 100, 251, 252, 512]
MTUS = [23, 24, 50, 185, 517]
KINDS = ['static'] * 10 + ['dyn', 'dyn-v2', 'dyn-async', 'dyn-atterr', 'dyn-raises']


def plan(tier, seed):
    cases = []
    mult = 4 if tier == 'quick' else 40
    base = seed * 1000003
    # sweep: 64 cases x 4 opcodes = all 256 opcodes, per repetition
    for rep in range(mult):
        for i in range(64):
            cases.append({'kind': 'sweep', 'seed': base + rep * 64 + i, 'opcodes': [(i * 4 + k) % 256 for k in range(4)],
                          'perm_base': (i * 4) % 256})
    for i in range(160 * mult):
        cases.append({'kind': 'seq', 'seed': base + 5000 + i, 'perm_base': (i * 16) % 256})
    for i in range(40 * mult):
        cases.append({'kind': 'notify', 'seed': base + 9000 + i, 'perm_base': (i * 8) % 256})
    for i in range(30 * mult):
        cases.append({'kind': 'reconnect', 'seed': base + 12000 + i, 'perm_base': (i * 8) % 256})
    return cases


# -----------------------------------------------------------------------------
# database generator
# -----------------------------------------------------------------------------
def gen_uuid(rng, width, n):
    if width == 16:
        return struct.pack('<H', 0xA000 + n).hex()
    if width == 32:
        return struct.pack('<I', 0xB0000000 + n).hex()
    return bytes([0x10 + (n & 0x0F), n >> 4 & 0xFF] + [rng.randrange(0x20, 0x7F) for _ in range(14)]).hex()


TUNED_GROUP_UUID = 'ffa7'       # 0xA7FF, characteristics of equal length for exact-fill ranged reads
TUNED_SERVICE_UUID = 'eea7'     # 0xA7EE, many tiny services with one UUID (Find By Type Value / group reads)


def tuned_services(rng, mtu, idx):
    """Attributes whose sizes are chosen against the case's ATT_MTU so that responses assembled from
    several values land on ATT_MTU-1, ATT_MTU and ATT_MTU+1 if the builder's arithmetic is off by one."""
    chars = []
    # Read By Type: 2 + k * (2 + L) against ATT_MTU
    cands = [(k, t // k - 2) for k in (2, 3, 4, 6) for t in (mtu - 3, mtu - 2, mtu - 1)
             if t % k == 0 and 0 <= t // k - 2 <= min(mtu - 4, 253)]
    k, ln = rng.choice(cands) if cands else (2, 8)
    for _ in range(k + 1):
        chars.append({'uuid': TUNED_GROUP_UUID, 'props': 0x0A, 'perm': 0x03, 'len': ln, 'index': idx, 'kind': 'static',
                      'descs': []})
        idx += 1
    # Read Multiple: 1 + sum(len); Read Multiple Variable: 1 + sum(2 + len); Read / Blob / Notify: 1..3 + len
    a = rng.randint(1, max(1, min(200, mtu - 6)))
    for j, ln in enumerate([a, mtu - 1 - a, mtu - 5 - a, mtu - 2 - a, mtu - a, 1, 0, mtu - 1, mtu - 3, mtu, mtu - 2]):
        ln = max(0, min(512, ln))
        chars.append({'uuid': struct.pack('<H', 0xA700 + j).hex(), 'props': 0x0A, 'perm': 0x03, 'len': ln, 'index': idx,
                      'kind': 'static', 'descs': []})
        idx += 1
    services = [{'uuid': gen_uuid(rng, 16, 0x7F0), 'primary': True, 'chars': chars, 'includes': []}]
    if mtu <= 64:
        for _ in range(mtu // 4 + 2):
            services.append({'uuid': TUNED_SERVICE_UUID, 'primary': True, 'chars': [], 'includes': []})
    return services


def width_run_services(rng, idx):
    """Runs of 2+ CONSECUTIVE attributes whose types (descriptors after a characteristic value), declared
    UUIDs (characteristic declarations, service declarations) have the same width - 16, 32 or 128 bit - and
    32-bit next to 128-bit (both travel as 16 octets): everything a response that lists types or UUID-bearing
    values has to size.  All world-readable, so that the listing responses run to the end of the run."""
    def u(width, n):
        return gen_uuid(rng, width, 0x800 + n)      # 16-bit: 0xA8xx, clear of the tuned 0xA7xx types

    order = [16, 32, 128]
    rng.shuffle(order)
    services = []
    # (a) a characteristic value followed by k descriptors of the same width (Find Information)
    chars = []
    for w in order + [32, rng.choice([32, 128])]:
        k = rng.choice([1, 2, 3, 5])
        w2 = w if rng.random() < 0.7 else rng.choice([32, 128])
        c = {'uuid': u(w, idx), 'props': 0x02, 'perm': 0x01, 'len': rng.choice([0, 1, 5, 20]), 'index': idx,
             'kind': 'static', 'descs': []}
        idx += 1
        for _ in range(k):
            c['descs'].append({'uuid': u(w2, idx), 'perm': 0x01, 'len': rng.choice([0, 1, 8]), 'index': idx})
            idx += 1
        chars.append(c)
    services.append({'uuid': u(rng.choice([16, 32, 128]), 0x7E0), 'primary': True, 'chars': chars, 'includes': []})
    # (b) 2-4 consecutive characteristic declarations per width, no descriptors (Read By Type of 0x2803:
    #     5+2 / 5+16 octet values; a 32-bit UUID is declared in its 128-bit form)
    chars = []
    for w in order:
        for _ in range(rng.choice([2, 3, 4])):
            chars.append({'uuid': u(w, idx), 'props': 0x02, 'perm': 0x01, 'len': rng.choice([0, 2]), 'index': idx,
                          'kind': 'static', 'descs': []})
            idx += 1
    services.append({'uuid': u(rng.choice([16, 32, 128]), 0x7E1), 'primary': True, 'chars': chars, 'includes': []})
    # (c) 2-4 consecutive services per width, most of a run sharing one UUID (Read By Group Type, Find By Type Value)
    for w in order:
        shared = u(w, 0x7D0 + w)
        for _ in range(rng.choice([2, 3, 4])):
            services.append({'uuid': shared if rng.random() < 0.7 else u(w, idx), 'primary': rng.random() < 0.85,
                             'chars': [], 'includes': []})
            idx += 1
    return services, idx


def gen_db_spec(rng, perm_base, n_chars=None, notify_bias=False, lens=None, target_mtu=None):
    """Every permission byte appears on some attribute across the cases: characteristic k of
    the case takes perm_base + k (mod 256); descriptors take random bytes."""
    lens = lens or VALUE_LENS
    n_services = rng.randint(1, 4)
    n_chars = n_chars or rng.randint(6, 20)
    idx = 1
    services = []
    shared_uuid = {16: gen_uuid(rng, 16, 900), 128: gen_uuid(rng, 128, 901)}
    shared_len = rng.choice([1, 20, 22, 100])
    k = 0
    for s in range(n_services):
        chars = []
        per = max(1, n_chars // n_services)
        for _ in range(per):
            width = rng.choice([16, 16, 32, 128])
            shared = rng.random() < 0.35
            if shared:
                w = rng.choice([16, 128])
                uuid, ln = shared_uuid[w], shared_len
            else:
                uuid, ln = gen_uuid(rng, width, idx), rng.choice(lens)
            perm = (perm_base + k) % 256 if rng.random() < 0.6 else rng.choice([0x01, 0x03, 0x03, 0x01, 0x05, 0x15, 0x43])
            k += 1
            props = rng.choice([0x02, 0x0A, 0x0E, 0x1A, 0x2A, 0x3A, 0x10, 0x20, 0x30])
            if notify_bias:
                props = rng.choice([0x12, 0x22, 0x32, 0x3A])
            c = {'uuid': uuid, 'props': props, 'perm': perm, 'len': ln, 'index': idx,
                 'kind': rng.choice(KINDS), 'descs': []}
            idx += 1
            for _d in range(rng.choice([0, 0, 1, 2])):
                c['descs'].append({'uuid': rng.choice(['0129', '0429', gen_uuid(rng, 128, idx), gen_uuid(rng, width, 0x800 + idx)]),
                                   'perm': rng.randrange(256) if rng.random() < 0.5 else 0x01,
                                   'len': rng.choice([0, 1, 8, 22, 23, 100]), 'index': idx})
                idx += 1
            chars.append(c)
        services.append({'uuid': gen_uuid(rng, rng.choice([16, 32, 128]), 700 + s),
                         'primary': rng.random() < 0.8, 'chars': chars,
                         'includes': [rng.randrange(s)] if s and rng.random() < 0.4 else []})
    runs, idx = width_run_services(random.Random(rng.getrandbits(32)), idx)
    services += runs
    if target_mtu:
        services += tuned_services(rng, target_mtu, idx)
    return services


# -----------------------------------------------------------------------------
# request grammar
# -----------------------------------------------------------------------------
class Gen:
    def __init__(self, rng, hs, enc, auth):
        self.rng = rng
        self.hs = hs
        self.enc, self.auth = enc, auth
        self.models = hs.models
        self.by_handle = hs.by_handle
        self.last = self.models[-1].handle
        self.types = sorted({m.type for m in self.models})
        self.types16 = [t for t in self.types if len(t) == 2]
        self.tuned_group = [m for m in self.models if m.type == bytes.fromhex(TUNED_GROUP_UUID)]
        self.tuned = [m for m in self.models if m.role == 'value' and len(m.type) == 2 and m.type[1] == 0xA7
                      and m.type != bytes.fromhex(TUNED_GROUP_UUID)]
        self.tuned_services = [m for m in self.models if m.role == 'service'
                               and m.value == bytes.fromhex(TUNED_SERVICE_UUID)]
        # runs of >= 2 neighbours whose UUID has the same on-the-wire size, by what a listing response lists:
        #   type runs   consecutive handles, attribute TYPE                    (Find Information)
        #   decl runs   consecutive characteristic declarations, UUID in value  (Read By Type 0x2803)
        #   svc runs    consecutive service declarations of one kind, UUID = value  (Read By Group Type,
        #               Find By Type Value)
        self.type_runs = self._runs(self.models, lambda m: m.type, consecutive_handles=True)
        self.decl_runs = self._runs([m for m in self.models if m.role == 'chardecl' and m.value is not None],
                                    lambda m: m.value[3:])
        self.svc_runs = {t: self._runs([m for m in self.models if m.role == 'service' and m.type == bytes.fromhex(t)
                                        and m.value is not None], lambda m: m.value) for t in ('0028', '0128')}

    @staticmethod
    def uuid_class(u: bytes) -> str:
        # (a 32-bit UUID travels in its 128-bit form: Bluetooth base UUID with the 32 bits on top)
        if len(u) == 2:
            return 'uuid16'
        return 'uuid32' if u[:12] == bytes.fromhex('FB349B5F8000008000100000') else 'uuid128'

    def _runs(self, items, uuid_of, consecutive_handles=False):
        """[(class, [models])] for every maximal run of >= 2 neighbours of one wire size; class is
        uuid16-run / uuid32-run / uuid128-run / uuid32+128-run."""
        runs, cur = [], []
        for m in items:
            if cur and len(uuid_of(m)) == len(uuid_of(cur[-1])) and \
                    (not consecutive_handles or m.handle == cur[-1].handle + 1):
                cur.append(m)
            else:
                if len(cur) >= 2:
                    runs.append(cur)
                cur = [m]
        if len(cur) >= 2:
            runs.append(cur)
        out = []
        for run in runs:
            widths = sorted({int(self.uuid_class(uuid_of(m))[4:]) for m in run})
            out.append(('uuid' + '+'.join(str(w) for w in widths) + '-run', run))
        return out

    def run_range(self, runs, want=None):
        """(start, end, class) aimed at a run: from its first (or second-to-last) member to the end of the
        database / the end of the run / one past it."""
        rng = self.rng
        cands = [x for x in runs if want is None or x[0] == want] or runs
        cls, run = rng.choice(cands)
        first = run[0].handle if rng.random() < 0.8 else run[max(0, len(run) - 2)].handle
        end = rng.choice([0xFFFF, 0xFFFF, run[-1].handle, min(0xFFFF, run[-1].handle + 1)])
        return first, max(first, end), cls

    # -- classes ----------------------------------------------------------------
    def rclass(self, m):
        if m is None:
            return 'no-such-handle'
        if not ra.allowed_read(m.perm, self.enc, self.auth):
            return 'refused'
        return {'dyn-atterr': 'callback-error', 'dyn-raises': 'callback-raises'}.get(m.kind, 'allowed')

    def wclass(self, m):
        if m is None:
            return 'no-such-handle'
        if not ra.allowed_write(m.perm, self.enc, self.auth):
            return 'refused'
        return {'dyn-atterr': 'callback-error', 'dyn-raises': 'callback-raises'}.get(m.kind, 'allowed')

    def set_label(self, handles):
        for i, hd in enumerate(handles):
            c = self.rclass(self.by_handle.get(hd))
            if c != 'allowed':
                return ('first-' if i == 0 else 'later-') + c
        return 'all-allowed'

    def range_label(self, start, end, type_le, group=False):
        if start == 0:
            return 'handle-0'
        if start > end:
            return 'start>end'
        if group and type_le not in (bytes.fromhex('0028'), bytes.fromhex('0128')):
            return 'unsupported-group-type'
        matching = [m for m in self.models if m.type == type_le and start <= m.handle <= end]
        if not matching:
            return 'none-match'
        for i, m in enumerate(matching):
            c = self.rclass(m)
            if c != 'allowed':
                return ('first-' if i == 0 else 'later-') + c
        return 'all-allowed'

    # -- parameter pickers ------------------------------------------------------
    def handle(self):
        r = self.rng.random()
        if r < 0.72:
            return self.rng.choice(self.models).handle
        return self.rng.choice([0, 0xFFFF, self.last + 1, self.last, 1])

    def hlabel(self, hd, cls):
        if hd == 0:
            return 'handle-0'
        if hd == 0xFFFF:
            return 'handle-ffff'
        return cls

    def range(self):
        rng = self.rng
        r = rng.random()
        if r < 0.35:
            return 1, 0xFFFF
        if r < 0.6:
            a = rng.choice(self.models).handle
            return a, min(0xFFFF, a + rng.choice([0, 1, 3, 10, 0xFFFF]))
        if r < 0.7:
            return 0, rng.choice([0, 1, 0xFFFF])
        if r < 0.85:
            a = rng.randint(2, self.last + 1)
            return a, a - 1
        if r < 0.93:
            return 0xFFFF, 0xFFFF
        return self.last + 1, 0xFFFF

    def a_type(self):
        rng = self.rng
        r = rng.random()
        if r < 0.55:
            return rng.choice(self.types)
        if r < 0.85:
            return bytes.fromhex(rng.choice(['0028', '0028', '0128', '0228', '0328', '0229', '002a']))
        if r < 0.93:
            return bytes.fromhex(rng.choice(['ffee', '00112233445566778899aabbccddeeff']))
        return bytes(rng.randrange(256) for _ in range(rng.choice([0, 1, 3, 4, 15, 17])))

    def handle_set(self):
        rng = self.rng
        r = rng.random()
        real = [m.handle for m in self.models]
        big = [m.handle for m in self.models if m.value is not None and len(m.value) > 251]
        if r < 0.05 and big and self.tuned:
            # a value longer than 251 bytes first: nothing but the last value may be truncated
            return [rng.choice(big), rng.choice(self.tuned).handle, rng.choice(real)], None
        if r < 0.25 and len(self.tuned) >= 3:
            # values sized against the case's ATT_MTU, in a random order
            return [m.handle for m in rng.sample(self.tuned, rng.choice([2, 2, 3]))], None
        if r < 0.45:
            return [rng.choice(real) for _ in range(rng.choice([2, 2, 3, 5]))], None
        if r < 0.55:
            hs_ = [rng.choice(real) for _ in range(rng.choice([2, 3]))]
            hs_.insert(rng.randrange(len(hs_) + 1), rng.choice([0, 0xFFFF, self.last + 1]))
            return hs_, None
        if r < 0.62:
            return [], 'empty-set'
        if r < 0.69:
            return None, 'one-byte-set'
        if r < 0.76:
            return None, 'odd-length-set'
        if r < 0.83:
            return [rng.choice(real)], 'single-handle-set'
        if r < 0.92:
            longs = [m.handle for m in self.models if m.value is not None and len(m.value) >= 100] or real
            return [rng.choice(longs) for _ in range(rng.choice([2, 3, 6]))], None
        return [rng.choice(real) for _ in range(300)], 'set-of-300'

    def value(self, mtu):
        n = self.rng.choice([0, 1, 2, 20, max(0, mtu - 3), max(0, mtu - 2), 512, 513, 600])
        return bytes(self.rng.randrange(256) for _ in range(n))

    # -- one request of opcode `op` ----------------------------------------------
    def request(self, op, mtu=23):
        rng = self.rng
        shape = rng.random()
        if op == ra.EXCHANGE_MTU_REQ:
            v = rng.choice(MTUS + [0, 22, 65535])
            pdu, label = ra.exchange_mtu(v), ('valid' if v >= 23 else 'below-23')
        elif op == ra.FIND_INFO_REQ:
            s, e = self.range()
            cls = None
            if self.type_runs and rng.random() < 0.4:
                s, e, cls = self.run_range(self.type_runs, rng.choice([None, 'uuid32-run', 'uuid32-run', 'uuid32+128-run']))
            pdu = ra.find_information(s, e)
            label = 'handle-0' if s == 0 else 'start>end' if s > e else \
                'valid' if any(s <= m.handle <= e for m in self.models) else 'none-match'
            if cls:
                label += '/' + cls
        elif op == ra.FIND_BY_TYPE_VALUE_REQ:
            s, e = self.range()
            t = rng.choice(self.types16 + [bytes.fromhex('0028')])
            cands = [m for m in self.models if m.type == t and m.value is not None]
            val = rng.choice(cands).value if cands and rng.random() < 0.7 else self.value(mtu)[:30]
            if self.tuned_services and rng.random() < 0.3:
                s, e, t, val = 1, 0xFFFF, bytes.fromhex('0028'), bytes.fromhex(TUNED_SERVICE_UUID)
            cls = None
            kind = rng.choice(['0028', '0028', '0128'])
            if self.svc_runs[kind] and rng.random() < 0.3:
                # the UUID of a run of services, in the form it travels in (16 or 128 bit)
                s, e, cls = self.run_range(self.svc_runs[kind], rng.choice([None, 'uuid32-run']))
                t = bytes.fromhex(kind)
                val = self.by_handle[s].value
                if rng.random() < 0.5:
                    s = 1
            pdu = ra.find_by_type_value(s, e, struct.unpack('<H', t)[0], val)
            # the server has to read every attribute of that type in range to compare values
            label = self.range_label(s, e, t) if s and s <= e else ('handle-0' if s == 0 else 'start>end')
            if cls:
                label += '/' + cls
        elif op in (ra.READ_BY_TYPE_REQ, ra.READ_BY_GROUP_TYPE_REQ):
            s, e = self.range()
            t = self.a_type()
            if op == ra.READ_BY_GROUP_TYPE_REQ and rng.random() < 0.6:
                t = bytes.fromhex(rng.choice(['0028', '0028', '0128']))
                if self.tuned_services and rng.random() < 0.4:
                    s, e = self.tuned_services[0].handle, 0xFFFF
            elif op == ra.READ_BY_TYPE_REQ and self.tuned_group and rng.random() < 0.25:
                s, e, t = self.tuned_group[0].handle, self.tuned_group[-1].handle, bytes.fromhex(TUNED_GROUP_UUID)
            cls = None
            if rng.random() < 0.3:
                if op == ra.READ_BY_TYPE_REQ and self.decl_runs:
                    # characteristic declarations: values of 5+2 or 5+16 octets
                    s, e, cls = self.run_range(self.decl_runs, rng.choice([None, 'uuid32-run', 'uuid32+128-run']))
                    t = bytes.fromhex('0328')
                elif op == ra.READ_BY_GROUP_TYPE_REQ:
                    kind = rng.choice(['0028', '0028', '0128'])
                    if self.svc_runs[kind]:
                        s, e, cls = self.run_range(self.svc_runs[kind], rng.choice([None, 'uuid32-run']))
                        t = bytes.fromhex(kind)
            pdu = (ra.read_by_type if op == ra.READ_BY_TYPE_REQ else ra.read_by_group_type)(s, e, t)
            label = 'bad-uuid-length' if len(t) not in (2, 16) else \
                self.range_label(s, e, t, group=op == ra.READ_BY_GROUP_TYPE_REQ)
            if cls:
                label += '/' + cls
        elif op == ra.READ_REQ:
            hd = self.handle()
            pdu, label = ra.read(hd), self.hlabel(hd, self.rclass(self.by_handle.get(hd)))
        elif op == ra.READ_BLOB_REQ:
            hd = self.handle()
            m = self.by_handle.get(hd)
            ln = len(m.value) if m is not None and m.value is not None else 4
            off = rng.choice([0, 1, max(0, ln - 1), ln, ln + 1, 0xFFFF])
            pdu, label = ra.read_blob(hd, off), self.hlabel(hd, self.rclass(m))
        elif op in (ra.READ_MULTIPLE_REQ, ra.READ_MULTIPLE_VARIABLE_REQ):
            hs_, lab = self.handle_set()
            enc = ra.read_multiple if op == ra.READ_MULTIPLE_REQ else ra.read_multiple_variable
            if lab == 'one-byte-set':
                pdu, label = bytes([op, rng.randrange(256)]), lab
            elif lab == 'odd-length-set':
                pdu, label = enc([rng.choice(self.models).handle for _ in range(2)]) + b'\x01', lab
            else:
                pdu = enc(hs_)
                label = lab if lab == 'empty-set' else (lab + '/' if lab else '') + self.set_label(hs_)
        elif op in (ra.WRITE_REQ, ra.WRITE_CMD, ra.SIGNED_WRITE_CMD):
            hd = self.handle()
            v = self.value(mtu)
            m = self.by_handle.get(hd)
            if m is not None and m.role == 'cccd':
                v = rng.choice([b'', b'\x01', b'\x00\x00', b'\x01\x00', b'\x02\x00', b'\x03\x00', b'\x01\x00\x00'])
            enc = {ra.WRITE_REQ: ra.write_request, ra.WRITE_CMD: ra.write_command,
                   ra.SIGNED_WRITE_CMD: ra.signed_write_command}[op]
            pdu = enc(hd, v)
            label = self.hlabel(hd, self.wclass(m)) + ('/value>512' if len(v) > 512 else '')
        elif op == ra.PREPARE_WRITE_REQ:
            hd = self.handle()
            pdu, label = ra.prepare_write(hd, rng.choice([0, 1, 512, 0xFFFF]), self.value(mtu)[:100]), 'valid'
        elif op == ra.EXECUTE_WRITE_REQ:
            pdu, label = ra.execute_write(rng.choice([0, 1, 2, 0xFF])), 'valid'
        else:
            raise ValueError(op)
        # malformed shapes of a defined request
        if shape < 0.10 and len(pdu) > 1:
            cut = pdu[:rng.randrange(1, len(pdu))]
            if shape_label(cut) == 'truncated':
                return cut, 'truncated'
        elif shape < 0.16 and op in (ra.EXCHANGE_MTU_REQ, ra.FIND_INFO_REQ, ra.READ_REQ, ra.READ_BLOB_REQ,
                                     ra.EXECUTE_WRITE_REQ):
            return pdu + bytes(rng.randrange(256) for _ in range(rng.choice([1, 2, 30]))), 'over-long'
        return pdu, label


FIXED_PART = {0x02: 3, 0x04: 5, 0x06: 7, 0x08: 5, 0x0A: 3, 0x0C: 5, 0x0E: 1, 0x10: 5, 0x12: 3, 0x52: 3, 0xD2: 3,
              0x16: 5, 0x18: 2, 0x20: 1}


def shape_label(pdu: bytes):
    """Label of a *malformed* defined client PDU judged from opcode and length alone
    (Part F 3.4.x layouts); None when the length is acceptable for the opcode."""
    op = pdu[0]
    if op not in FIXED_PART:
        return None
    if len(pdu) < FIXED_PART[op]:
        return 'truncated'
    if op in (0x08, 0x10) and len(pdu) - 5 not in (2, 16):
        return 'truncated' if len(pdu) - 5 < 2 else 'bad-uuid-length'
    if op in (0x0E, 0x20):
        n = len(pdu) - 1
        return 'empty-set' if n == 0 else 'one-byte-set' if n == 1 else 'odd-length-set' if n % 2 else None
    if op in (0x02, 0x04, 0x0A, 0x0C, 0x18) and len(pdu) > FIXED_PART[op]:
        return 'over-long'
    return None


REQUEST_OPS = sorted(ra.REQUESTS)
CLIENT_OPS = REQUEST_OPS + [ra.WRITE_CMD, ra.SIGNED_WRITE_CMD]
WELL_BEHAVED = {'allowed', 'all-allowed', 'valid'}


def valid_form(g: Gen, op, mtu):
    """A well-formed PDU for a defined client opcode (for the sweep)."""
    if op in ra.REQUESTS or op in ra.COMMANDS:
        for _ in range(20):
            pdu, label = g.request(op, mtu)
            if label not in ('truncated', 'over-long'):
                return pdu, label
        return pdu, label
    if op == ra.HANDLE_VALUE_CFM:
        return ra.confirmation(), 'valid'
    return None, None


# -----------------------------------------------------------------------------
# case drivers
# -----------------------------------------------------------------------------
async def make_harness(case, r, rng, notify_bias=False):
    from vlib import att_peer as ap

    want_mtu = rng.choice(MTUS)
    server_max_mtu = rng.choice([None, None, 517, 100, 23])
    eff_mtu = min(want_mtu, server_max_mtu or 517)      # what the fixed bearer will run at after the exchange
    spec = gen_db_spec(rng, case.get('perm_base', 0), notify_bias=notify_bias, target_mtu=eff_mtu)
    eatt = rng.choice(['off', 'config', 'manual', 'manual'])
    eatt_spec = dict(mtu=rng.choice([23, 64, 185, 517, 2048]), mps=rng.choice([23, 64, 251, 2048]),
                     max_credits=rng.choice([1, 2, 8, 256]))
    hs = await ap.Harness.create(
        r, case['seed'], spec, eatt=eatt, eatt_spec=eatt_spec, raw_central=rng.random() < 0.5,
        max_delay=rng.choice([0, 0, 1, 3]), le_acl_len=[rng.choice([27, 64, 251]), rng.choice([27, 64, 251])],
        server_max_mtu=server_max_mtu)
    enc, auth = rng.choice([(False, False), (True, False), (True, True)])
    hs.set_link(enc, auth)
    bearers = [hs.fixed]
    if eatt != 'off':
        n = rng.choice([1, 1, 2])
        for k in range(n):
            b = await hs.open_eatt(my_cid=rng.choice([0x40, 0x55, 0x7F]) + k,
                                   my_mtu=rng.choice([64, 100, 185, 517, 2048] + [max(64, eff_mtu)] * 3),
                                   my_mps=rng.choice([64, 251, 2048]), credits=rng.choice([1, 3, 40]))
            r.ev('oracle_evals')
            if b is None:
                r.bad('eatt/connect-refused', f'server with EATT ({eatt}, {eatt_spec}) refused an enhanced '
                      f'credit-based connection request on PSM 0x27')
            else:
                bearers.append(b)
                r.ev('eatt_bearers')
    return hs, bearers, enc, auth, {'eatt': eatt, 'eatt_spec': eatt_spec if eatt == 'manual' else None,
                                    'client_rx_mtu': want_mtu, 'server_max_mtu': server_max_mtu}


def ctx_of(bearer, pdu, label, extra=''):
    return f'{bearer.kind} mtu={bearer.pairing.mtu} sent[{label}]={pdu[:40].hex()}{"..." if len(pdu) > 40 else ""} {extra}'


async def send_one(hs, bearer, pdu, label, trail, r, wait=True):
    if bearer.dead:
        r.ev('skipped_on_dead_bearer')
        return
    if bearer.kind == 'eatt':
        r.ev('eatt_requests')
    cls = label.rsplit('/', 1)[-1] if label.endswith('-run') else ''
    bearer.pairing.key_class = cls
    try:
        got = await hs.exchange(bearer, pdu, label, ctx_of(bearer, pdu, label), wait)
    finally:
        bearer.pairing.key_class = ''
    if cls and pdu:
        what = {ra.FIND_INFO_REQ: 'find_information', ra.READ_BY_TYPE_REQ: 'read_by_type_declarations',
                ra.READ_BY_GROUP_TYPE_REQ: 'read_by_group_type', ra.FIND_BY_TYPE_VALUE_REQ: 'find_by_type_value'}.get(pdu[0])
        if what:
            r.ev('uuid_run_requests')
            r.ev(f'uuid_run_{what}')
            if '32' in cls:
                r.ev(f'uuid32_run_{what}')
            # how much room the run had: listing responses that carried two or more entries
            for rsp in got or ():
                try:
                    n = len({ra.FIND_INFO_REQ + 1: ra.parse_find_information_rsp, ra.READ_BY_TYPE_REQ + 1: ra.parse_read_by_type_rsp,
                             ra.READ_BY_GROUP_TYPE_REQ + 1: ra.parse_read_by_group_type_rsp,
                             ra.FIND_BY_TYPE_VALUE_REQ + 1: ra.parse_find_by_type_value_rsp}[rsp[0]](rsp)) if rsp and rsp[0] == pdu[0] + 1 else 0
                except ra.Malformed:
                    n = 0
                if n >= 2:
                    r.ev('uuid_run_responses_with_2plus_entries')
                    r.ev(f'uuid_run_{what}_2plus_entries')
                    if cls != 'uuid16-run':
                        r.ev('uuid_run_wide_responses_with_2plus_entries')
    trail.append((bearer.kind, pdu[0] if pdu else -1, label))


async def eatt_exchange_mtu_probe(hs, g, rng, trail, r):
    """The MTU exchange is not used on an enhanced bearer (Part G 5.3.1: its ATT_MTU is the minimum of
    the two L2CAP MTU fields): whatever the server answers, its later PDUs on that bearer must
    still fit."""
    longs = [m for m in hs.models if m.value is not None and len(m.value) >= 100 and g.rclass(m) == 'allowed'
             and m.kind == 'static']
    for b in [x for x in hs.alive if x.kind == 'eatt']:
        if longs and rng.random() < 0.7:
            await send_one(hs, b, ra.exchange_mtu(rng.choice([185, 517, 65535])), 'on-enhanced-bearer', trail, r)
            m = rng.choice(longs)
            await send_one(hs, b, ra.read(m.handle), 'allowed', trail, r)
            r.ev('eatt_exchange_mtu_probes')


async def sweep_case(case, r: R):
    rng = random.Random(case['seed'])
    hs, bearers, enc, auth, info = await make_harness(case, r, rng)
    g = Gen(rng, hs, enc, auth)
    trail = []
    # optionally raise the MTU first so that over-MTU answers of the valid forms are possible
    if rng.random() < 0.5:
        await send_one(hs, hs.fixed, ra.exchange_mtu(info['client_rx_mtu']), 'valid', trail, r)
    for op in case['opcodes']:
        r.ev('opcodes_swept')
        for bearer in bearers:
            mtu = bearer.pairing.mtu
            bodies = [b'', bytes([rng.randrange(256)])] + [
                bytes(rng.randrange(256) for _ in range(n)) for n in (2, 4, 6, 22, 600)]
            pdus = [(bytes([op]) + b, shape_label(bytes([op]) + b) or 'random-body') for b in bodies]
            if op == ra.EXCHANGE_MTU_REQ:
                # Client Rx MTU values below the minimum are still requests: one reply each
                pdus += [(ra.exchange_mtu(v_), 'below-23') for v_ in (0, 1, 22)]
                r.ev('exchange_mtu_below_23_sent', 3)
            v, vl = valid_form(g, op, mtu)
            if v is not None:
                pdus.append((v, vl))
                pdus += [(v[:k], shape_label(v[:k]) or 'shortened') for k in range(1, len(v))][:8]
                pdus.append((v + b'\x00' * 7, shape_label(v + b'\x00' * 7) or 'extended'))
            for pdu, label in pdus:
                if op == ra.EXCHANGE_MTU_REQ and bearer.kind == 'att' and len(pdu) == 3:
                    label = 'valid' if struct.unpack_from('<H', pdu, 1)[0] >= 23 else 'below-23'
                await send_one(hs, bearer, pdu, label, trail, r)
    # after the sweep the server must still answer
    for bearer in bearers:
        await send_one(hs, bearer, ra.read(1), 'allowed', trail, r)
    # an empty ATT PDU has no opcode: nothing may come back
    await send_one(hs, hs.fixed, b'', 'empty-pdu', trail, r)
    await eatt_exchange_mtu_probe(hs, g, rng, trail, r)
    await hs.finish()
    finish_case(case, r, hs, bearers, trail, info, enc, auth)


async def seq_case(case, r: R):
    rng = random.Random(case['seed'])
    hs, bearers, enc, auth, info = await make_harness(case, r, rng)
    g = Gen(rng, hs, enc, auth)
    trail = []
    # four sequences of 1-20 requests on the same connection; the MTU exchange falls into one of them
    lengths = [rng.randint(1, 20) for _ in range(4)]
    n = sum(lengths)
    r.ev('sequences', len(lengths))
    mtu_at = rng.randrange(lengths[0] + 1) if rng.random() < 0.9 else -1
    # weights: the multi-attribute builders carry most of the size arithmetic
    ops = [ra.READ_REQ] * 2 + [ra.READ_BLOB_REQ] * 2 + [ra.READ_BY_TYPE_REQ] * 3 + [ra.READ_BY_GROUP_TYPE_REQ] * 3 + \
          [ra.READ_MULTIPLE_REQ] * 3 + [ra.READ_MULTIPLE_VARIABLE_REQ] * 3 + [ra.FIND_BY_TYPE_VALUE_REQ] * 3 + \
          [ra.FIND_INFO_REQ] * 2 + [ra.WRITE_REQ] * 2 + [ra.WRITE_CMD, ra.SIGNED_WRITE_CMD, ra.PREPARE_WRITE_REQ,
                                                       ra.EXECUTE_WRITE_REQ]
    i = 0
    while i < n:
        if i == mtu_at:
            await send_one(hs, hs.fixed, ra.exchange_mtu(info['client_rx_mtu']), 'valid', trail, r)
            mtu_at = -1
            continue
        if not hs.alive:
            break
        bearer = rng.choice(hs.alive)
        style = rng.random()
        if style < 0.7:
            pdu, label = g.request(rng.choice(ops), bearer.pairing.mtu)
            await send_one(hs, bearer, pdu, label, trail, r)
            i += 1
        else:
            # pipelined window: several PDUs back to back (no Exchange MTU inside)
            k = rng.randint(2, 5)
            pdus = [g.request(rng.choice(ops), bearer.pairing.mtu) for _ in range(k)]
            if rng.random() < 0.3:
                pdus.insert(rng.randrange(len(pdus) + 1), (bytes([rng.choice([0x1E, 0x41, 0x55, 0x0B, 0x01])]) +
                                                           bytes(rng.randrange(256) for _ in range(rng.choice([0, 2, 4]))),
                                                           'random-body'))
            if bearer.kind == 'eatt':
                r.ev('eatt_requests', len(pdus))
            r.ev('pipelined_windows')
            await hs.burst(bearer, pdus, f'{bearer.kind} mtu={bearer.pairing.mtu} pipelined ' +
                           ' | '.join(f'[{l}]{p[:12].hex()}' for p, l in pdus))
            trail += [(bearer.kind, p[0] if p else -1, l) for p, l in pdus]
            i += k
    await eatt_exchange_mtu_probe(hs, g, rng, trail, r)
    await hs.finish()
    finish_case(case, r, hs, bearers, trail, info, enc, auth)


def cccd_of(hs, value_model):
    """The CCCD following a characteristic value inside its definition."""
    i = hs.models.index(value_model) + 1
    while i < len(hs.models) and hs.models[i].role in ('descriptor', 'cccd', 'builtin-descriptor'):
        if hs.models[i].role == 'cccd':
            return hs.models[i]
        i += 1
    return None


async def notify_case(case, r: R):
    rng = random.Random(case['seed'])
    hs, bearers, enc, auth, info = await make_harness(case, r, rng, notify_bias=True)
    trail = []
    if rng.random() < 0.8:
        await send_one(hs, hs.fixed, ra.exchange_mtu(info['client_rx_mtu']), 'valid', trail, r)
    chars = [m for m in hs.models if m.role == 'value' and cccd_of(hs, m) is not None
             and ra.allowed_write(cccd_of(hs, m).perm, enc, auth)]
    rng.shuffle(chars)
    server = hs.server
    closed_bearers = []
    for m in chars[:4]:
        cccd = cccd_of(hs, m)
        for cb in closed_bearers:
            if cb in bearers:
                bearers.remove(cb)
        subscribed = {}
        for b in bearers:
            bits = rng.choice([1, 2, 3, 3])
            subscribed[b] = bits
            await send_one(hs, b, ra.write_request(cccd.handle, bytes([bits, 0])), 'allowed', trail, r)
        # --- notifications with values around ATT_MTU - 3 --------------------------------
        for b in bearers:
            mtu = b.pairing.mtu
            for ln in (mtu - 4, mtu - 3, mtu - 2, mtu, 512, 0):
                val = ra.marker_value(m.index, max(0, ln))
                for bb in bearers:
                    bb.pairing.expected_server_initiated = 1 if subscribed[bb] & 1 else 0
                hs.ctx = f'notify_subscribers value of {len(val)} bytes, mtus={[x.pairing.mtu for x in bearers]}'
                try:
                    await vloop.vwait(server.notify_subscribers(m.obj, val), 60)
                except vloop.Hang:
                    r.bad('notify/api-hang', hs.ctx)
                await hs.rg.quiesce()
                r.ev('notify_calls')
        # value=None: the server reads the attribute itself (may sleep, fail, be long)
        for bb in bearers:
            bb.pairing.expected_server_initiated = 1 if subscribed[bb] & 1 else 0
        hs.ctx = f'notify_subscribers(value=None) on a {m.kind} attribute of {len(m.value)} bytes perm={m.perm:#x}'
        try:
            await vloop.vwait(server.notify_subscribers(m.obj), 60)
        except vloop.Hang:
            r.bad('notify/api-hang', hs.ctx)
        except Exception:
            r.ev('notify_api_raised')
        await hs.rg.quiesce()
        for bb in bearers:
            bb.pairing.expected_server_initiated = 0
        # --- concurrent indications, confirmations withheld ------------------------------
        for cb in closed_bearers:
            if cb in bearers:
                bearers.remove(cb)
                subscribed.pop(cb, None)
        n_ind = rng.choice([2, 3, 4])
        lens = [rng.choice([b.pairing.mtu + d for b in bearers for d in (-4, -3, -2, 0)] + [512, 1]) for _ in range(n_ind)]
        indicating = [b for b in bearers if subscribed[b] & 2]
        for bb in bearers:
            bb.pairing.expected_server_initiated = n_ind if bb in indicating else 0
        hs.ctx = f'{n_ind} concurrent indicate_subscribers, value lengths {lens}'
        api = rng.choice(['server.indicate_subscribers', 'device.indicate_subscriber'])
        if api == 'device.indicate_subscriber':
            tasks = [asyncio.ensure_future(hs.device.indicate_subscriber(hs.server_conn, m.obj, ra.marker_value(m.index, max(0, ln))))
                     for ln in lens]
        else:
            tasks = [asyncio.ensure_future(server.indicate_subscribers(m.obj, ra.marker_value(m.index, max(0, ln))))
                     for ln in lens]
        r.ev('indicate_calls', n_ind)
        for _round in range(n_ind * len(bearers) + 3):
            await hs.rg.quiesce()
            await asyncio.sleep(0.2)
            await hs.rg.quiesce()
            pending = [b for b in indicating if b.pairing.outstanding_indications > 0]
            if not pending:
                break
            # an enhanced bearer that has nothing outstanding is closed by the client while an indication is
            # outstanding on another bearer of the same link: that one's bookkeeping must not be touched
            idle_eatt = [b for b in bearers if b.kind == 'eatt' and not b.dead and b.pairing.outstanding_indications == 0
                         and b not in indicating]
            if _round == 0 and idle_eatt and hs.fixed in pending and rng.random() < 0.6:
                victim = rng.choice(idle_eatt)
                victim.pairing.close(r, hs.ctx + ' (before the client closed this enhanced bearer)')
                victim.close()
                closed_bearers.append(victim)
                r.ev('eatt_bearer_closed_during_outstanding_indication')
                await hs.rg.quiesce()
            # a request while an indication is outstanding must still be answered
            if rng.random() < 0.6:
                b = rng.choice(bearers)
                # handle 3 = Device Name value of the built-in GAP service (world-readable)
                await send_one(hs, b, ra.read(3), 'during-indication', trail, r, wait=False)
                r.ev('requests_during_outstanding_indication')
            for b in pending:
                r.ev('confirmations_sent')
                b.send(ra.confirmation(), 'valid')
                trail.append((b.kind, ra.HANDLE_VALUE_CFM, 'valid'))
        done, not_done = await asyncio.wait(tasks, timeout=100)
        r.ev('oracle_evals')
        if not_done:
            r.bad('indicate/api-hang', f'{len(not_done)} of {n_ind} indicate calls still pending 100 virtual s after every '
                  f'indication seen was confirmed; {hs.ctx}')
            for t in not_done:
                t.cancel()
        for t in done:
            if t.exception() is not None:
                r.ev('indicate_api_raised')
        await hs.settle()
        for bb in bearers:
            bb.pairing.close(r, hs.ctx)
            bb.pairing.expected_server_initiated = 0
        # --- a single indication confirmed twice in a row -----------------------------------
        # (no further indication is queued, so the surplus confirmation cannot be mistaken for
        # the confirmation of a later one: it is a confirmation and must get nothing)
        if indicating and rng.random() < 0.6:
            for bb in bearers:
                bb.pairing.expected_server_initiated = 1 if bb in indicating else 0
            hs.ctx = 'one indicate_subscribers, each indication confirmed twice back to back'
            t = asyncio.ensure_future(server.indicate_subscribers(m.obj, ra.marker_value(m.index, 5)))
            for _round in range(len(bearers) + 3):
                await hs.rg.quiesce()
                await asyncio.sleep(0.2)
                await hs.rg.quiesce()
                pending = [b for b in indicating if b.pairing.outstanding_indications > 0]
                if not pending:
                    break
                for b in pending:
                    b.send(ra.confirmation(), 'valid')
                    b.send(ra.confirmation(), 'duplicate-confirmation')
                    trail.append((b.kind, ra.HANDLE_VALUE_CFM, 'duplicate-confirmation'))
                    r.ev('confirmations_sent')
                    r.ev('duplicate_confirmations_sent')
            done, not_done = await asyncio.wait([t], timeout=100)
            if not_done:
                r.bad('indicate/api-hang', f'indicate call pending 100 virtual s after its indication was confirmed; {hs.ctx}')
                t.cancel()
            await hs.settle()
            for bb in bearers:
                bb.pairing.close(r, hs.ctx)
                bb.pairing.expected_server_initiated = 0
    await eatt_exchange_mtu_probe(hs, Gen(rng, hs, enc, auth), rng, trail, r)
    await hs.finish()
    finish_case(case, r, hs, bearers, trail, info, enc, auth)


async def reconnect_case(case, r: R):
    """A client raises its ATT_MTU and subscribes, the link goes away, a NEW connection is made (the
    controller hands out the same handle again): the new fixed bearer is at the default ATT_MTU and has
    subscribed to nothing, so the server sends it nothing it did not ask for, nothing longer than 23 bytes,
    and — once it subscribes itself — never two indications at once."""
    rng = random.Random(case['seed'])
    hs, bearers, enc, auth, info = await make_harness(case, r, rng, notify_bias=True)
    trail = []
    big = rng.choice([100, 185, 517])
    await send_one(hs, hs.fixed, ra.exchange_mtu(big), 'valid', trail, r)
    chars = [m for m in hs.models if m.role == 'value' and cccd_of(hs, m) is not None
             and ra.allowed_write(cccd_of(hs, m).perm, enc, auth)]
    rng.shuffle(chars)
    chars = chars[:3]
    if not chars:
        await hs.finish()
        finish_case(case, r, hs, bearers, trail, info, enc, auth)
        return
    for m in chars:
        for b in bearers:
            await send_one(hs, b, ra.write_request(cccd_of(hs, m).handle, bytes([rng.choice([1, 2, 3, 3]), 0])), 'allowed', trail, r)
    for b in bearers:
        b.pairing.close(r, 'before the reconnection')
    first_mtu = hs.fixed.pairing.mtu
    raw_central = rng.random() < 0.5
    hs.ctx = 'reconnecting'
    try:
        fixed = await hs.reconnect(raw_central, rng.choice(['raw', 'server']))
    except vloop.Hang:
        r.ev('reconnect_harness_hang')
        return
    hs.set_link(enc, auth)
    bearers = [fixed]
    r.ev('reconnections')
    if first_mtu > 23:
        r.ev('reconnections_after_raised_mtu')
    server = hs.server
    for round_ in range(2):
        for m in chars:
            # (round 0: the new client has subscribed to nothing; round 1: it subscribed itself)
            sub = 0
            if round_ == 1:
                sub = rng.choice([1, 2, 3])
                await send_one(hs, fixed, ra.write_request(cccd_of(hs, m).handle, bytes([sub, 0])), 'allowed', trail, r)
            for ln in (rng.choice([0, 5, 19]), 20, 21, first_mtu - 3, 512):
                val = ra.marker_value(m.index, max(0, ln))
                fixed.pairing.expected_server_initiated = 1 if sub & 1 else 0
                hs.ctx = (f'after a reconnection (previous link: ATT_MTU {first_mtu}, subscribed; this link: ATT_MTU '
                          f'{fixed.pairing.mtu}, CCCD {sub}) notify_subscribers with {len(val)} bytes')
                try:
                    await vloop.vwait(server.notify_subscribers(m.obj, val), 60)
                except vloop.Hang:
                    r.bad('notify/api-hang/after-reconnect', hs.ctx)
                await hs.rg.quiesce()
                r.ev('notify_calls_after_reconnect')
            fixed.pairing.expected_server_initiated = 1 if sub & 2 else 0
            hs.ctx = (f'after a reconnection (previous link subscribed; this link CCCD {sub}) indicate_subscribers')
            t = asyncio.ensure_future(server.indicate_subscribers(m.obj, ra.marker_value(m.index, 7)))
            for _ in range(4):
                await hs.rg.quiesce()
                await asyncio.sleep(0.2)
                await hs.rg.quiesce()
                if fixed.pairing.outstanding_indications > 0:
                    fixed.send(ra.confirmation(), 'valid')
                    trail.append((fixed.kind, ra.HANDLE_VALUE_CFM, 'valid'))
                    r.ev('confirmations_sent')
            done, not_done = await asyncio.wait([t], timeout=100)
            if not_done:
                r.bad('indicate/api-hang/after-reconnect', hs.ctx)
                t.cancel()
            r.ev('indicate_calls_after_reconnect')
            await hs.settle()
            fixed.pairing.close(r, hs.ctx)
            fixed.pairing.expected_server_initiated = 0
    # ordinary requests still work and fit the new link's ATT_MTU
    g = Gen(rng, hs, enc, auth)
    longs = [m for m in hs.models if m.value is not None and len(m.value) >= 30 and g.rclass(m) == 'allowed' and m.kind == 'static']
    for m in longs[:3]:
        await send_one(hs, fixed, ra.read(m.handle), 'allowed', trail, r)
    await hs.finish()
    finish_case(case, r, hs, bearers, trail, info, enc, auth)


def finish_case(case, r: R, hs, bearers, trail, info, enc, auth):
    nontrivial = any(l not in WELL_BEHAVED for _b, _o, l in trail) or \
        any(b.pairing.indications_seen + b.pairing.notifications_seen for b in bearers)
    mtus = tuple(b.pairing.mtu for b in bearers)
    if nontrivial:
        r.sig(case['kind'], tuple(b.kind for b in bearers), mtus, tuple(trail))
    r.sched.add(hs.rg.schedule_signature)
    r.evals(max(1, len(trail)))
    perms = sorted({m.perm for m in hs.models})
    r.extra['permission_bytes_in_databases'] = perms
    r.extra['labels_seen'] = sorted({f'{ra.opname(o)}:{l}' for _b, o, l in trail if o >= 0})[:100]
    r.sample = {'kind': case['kind'], 'bearers': [b.kind for b in bearers], 'final_mtus': list(mtus),
                'link': {'encrypted': enc, 'authenticated': auth}, **info,
                'attributes': len(hs.models),
                'value_lengths': sorted({len(m.value) for m in hs.models if m.value is not None}),
                'pdus': [(b, f'{o:#04x}', l) for b, o, l in trail[:12]], 'client_pdus': len(trail),
                'largest_server_pdu': max(b.pairing.max_server_pdu for b in bearers)}


async def run_case(case, r: R):
    import logging
    logging.disable(logging.CRITICAL)
    if case['kind'] == 'sweep':
        await sweep_case(case, r)
    elif case['kind'] == 'seq':
        await seq_case(case, r)
    elif case['kind'] == 'reconnect':
        await reconnect_case(case, r)
    else:
        await notify_case(case, r)


LEVEL_TEXT = ('Request/response pairing automaton (exactly one matching reply per defined request, none for '
              'non-requests, every server PDU <= current ATT_MTU and well-formed, <= 1 indication outstanding) evaluated '
              'at every quiescence point of 264 (quick) / 10560 (thorough) generated sessions against a real bumble GATT '
              'server: all 256 opcodes x body shapes on the fixed and on hand-driven enhanced bearers, request sequences '
              'from a grammar of valid and invalid parameter forms over generated databases (every permission byte, values '
              '0..512 bytes, 16/32/128-bit types incl. runs of consecutive attributes of one UUID width for services, '
              'characteristics and descriptors, callbacks that sleep, refuse or raise), MTUs 23..517, notifications and '
              'concurrent indications around ATT_MTU-3. Sampling of the input space, not proof.')
LEVEL_NOTE = ('Trusted: vlib/ref_att.py (hand-written ATT layouts + pairing automaton, ~450 lines), vlib/att_peer.py '
              '(raw fixed-channel and K-frame endpoints), the rig taps and virtual-time loop. Replies later than 31 virtual '
              'seconds count as missing. Behaviour after an ATT transaction timeout is not judged.')
TECHNIQUE = 'runtime monitoring: per-bearer request/response pairing automaton with MTU tracking over a hand-driven raw ATT client'
