"""C09 — L2CAP channel tables stay exact; closed identifiers are reusable; waiters end.

Monitor: a set model of open channels per (device, link), compared with the real
ChannelManager tables of all three devices after every operation at quiescence;
every awaited API call is bounded in virtual time.
Workloads
  hist     random histories of open / close-by-either-side / refuse / concurrent opens
           on two links / link drop + reconnect, LE (CoC + enhanced) or BR/EDR (basic, ERTM)
  cut      a link disconnect injected at every HCI-message index of one operation
           (indices enumerated by a dry run of the same operation), then reconnect + reopen
  wrap     one link carries > 256 signalling commands (open/close/refused-open cycles, CID reuse checked in
           every cycle), steered by the identifiers seen on the WIRE so that 2-3 simultaneous requests (LE,
           enhanced, classic, a close among them) straddle the wrap-around of the 8-bit identifier
  giveup   the caller of an open gives up (task.cancel() or asyncio.wait_for time-out) at every stage of the
           open against a hand-driven peer that is silent, says "connection pending", or stops half-way
           through the configuration; later the peer stays quiet, carries on, or refuses; then the CID of the
           abandoned attempt must be free again and a new open must get it
  rapid    histories on the 3-device rig whose operations follow each other WITHOUT quiescence (at once / after a few
           loop turns): close / close by the peer / closes by both ends at once / a refused open / a classic set-up the
           client abandons for a mode mismatch, each followed immediately by an open (either end, LE, enhanced, Basic,
           ERTM), a close and an open issued together; every open succeeds, nothing pending, tables exact at every
           quiescent point, one more open per link at the end gets the smallest free CID
  stale    a prompt hand-driven acceptor that never reuses its own CIDs repeats responses that belong to nothing any
           more (Disconnection Response of a closed channel whose local CID is free / reused by an open channel / reused
           by a channel whose request is unanswered; a Disconnection Response with the CIDs of two different channels;
           duplicate Connection / Configuration / LE / enhanced Connection Responses; responses and credits for CIDs that
           never existed): held channels stay open and in the tables, the pending open completes with the right CID
"""
from __future__ import annotations

import asyncio
import random

from vlib import vloop
from vlib.result import R

ID = 'C09'
LEVEL = 'exploration'
RULE = ('seeded operation histories (3-30 ops) on a 3-device rig; non-trivial when the history contains a '
        'close followed by a later open on the same link, or a link drop, or concurrent opens; distinct = '
        'distinct op sequence. cut cases: one per (operation, message index, cutting side), all indices of the '
        'dry run enumerated. wrap cases: seeded (transport, side, distance of the burst from identifier 255, burst '
        'composition); non-trivial when the identifier wrapped inside the burst (counted from the wire). giveup cases: '
        'seeded (channel type, stage, cancel/time-out, late behaviour of the peer) x 1-3 rounds; non-trivial always. '
        'rapid cases: seeded histories of 4-14 operations with seeded gaps (none / 1-10 loop turns / quiescence); non-trivial '
        'always (>= 1 operation without quiescence before it); distinct = distinct history. stale cases: seeded (channel type, '
        '2-5 rounds of opens, closes, moment, 1-3 injected responses); distinct = distinct history')
ASSUMPTIONS = [
    'a table entry for a dead connection handle counts only if non-empty',
    'a refused open (no server on the PSM) must raise and leave the tables unchanged',
    'a Disconnection Response whose CID pair is not that of a channel waiting for it, and any response repeated after '
    'the request it answers was completed, changes nothing (the stale-response peer never uses one of its own CIDs twice, '
    'so a stale CID pair never equals a live one)',
]
MIN_EVENTS = {
    'quick': {'table_comparisons': 12000, 'ops': 4000, 'reopen_after_close': 1000, 'cut_points': 500, 'enhanced_refusals_attempted': 50, 'crossing_closes': 100, 'opens_pending_while_other_link_dropped': 60,
              'wrap_cycles': 2500, 'wrap_bursts': 25, 'wrap_bursts_straddling_the_wrap': 15, 'wrap_links_with_256_commands': 25,
              'giveup_attempts': 250, 'giveup_stage_silent': 100, 'giveup_stage_pending': 40, 'giveup_stage_connected': 20,
              'giveup_reopens': 120,
              'rapid_ops_without_quiescence': 1200, 'rapid_opens_without_quiescence': 600, 'rapid_close-both_then_open': 80,
              'rapid_mismatch_then_open': 35, 'rapid_close_then_open': 30, 'rapid_checkpoints': 600,
              'stale_injections': 700, 'stale_when_cid-reused-pending': 250, 'stale_when_cid-reused-open': 250,
              'stale_pending_opens_completed': 150},
    'thorough': {'table_comparisons': 60000, 'ops': 30000, 'reopen_after_close': 2000, 'cut_points': 800, 'enhanced_refusals_attempted': 400, 'crossing_closes': 800, 'opens_pending_while_other_link_dropped': 500,
                 'wrap_cycles': 40000, 'wrap_bursts': 500, 'wrap_bursts_straddling_the_wrap': 300, 'wrap_links_with_256_commands': 280,
                 'giveup_attempts': 2500, 'giveup_stage_silent': 1000, 'giveup_stage_pending': 400, 'giveup_stage_connected': 200,
                 'giveup_reopens': 1200,
                 'rapid_ops_without_quiescence': 10000, 'rapid_opens_without_quiescence': 5000, 'rapid_close-both_then_open': 650,
                 'rapid_mismatch_then_open': 280, 'rapid_close_then_open': 240, 'rapid_checkpoints': 5000,
                 'stale_injections': 5500, 'stale_when_cid-reused-pending': 2000, 'stale_when_cid-reused-open': 2000,
                 'stale_pending_opens_completed': 1200},
}
CASE_TIMEOUT = 300

PSM_LE = 0x80
PSM_NONE = 0x93
PSM_BR = 0x1001
PSM_BR_ERTM = 0x1003
PSM_BR_NONE = 0x1005


def plan(tier, seed):
    cases = []
    n = 400 if tier == 'quick' else 2800
    for i in range(n):
        cases.append({'kind': 'hist', 'seed': seed * 1000003 + i, 'transport': 'le' if i % 4 else 'bredr'})
    for i in range(32 if tier == 'quick' else 320):
        cases.append({'kind': 'wrap', 'seed': seed * 1000003 + 60000 + i, 'transport': 'le' if i % 4 else 'bredr', 'tier': tier})
    for i in range(240 if tier == 'quick' else 2400):
        cases.append({'kind': 'giveup', 'seed': seed * 1000003 + 61000 + i, 'chan': ('br', 'br', 'le', 'enh')[i % 4]})
    for i in range(300 if tier == 'quick' else 3000):
        cases.append({'kind': 'rapid', 'seed': seed * 1000003 + 70000 + i, 'transport': 'bredr' if i % 2 else 'le'})
    for i in range(200 if tier == 'quick' else 2000):
        cases.append({'kind': 'stale', 'seed': seed * 1000003 + 75000 + i, 'chan': ('br', 'br', 'le', 'enh')[i % 4]})
    ops = ['le', 'enh2', 'le-close', 'le-close-peer', 'le-drain', 'le-drain1', 'le-drain1-close', 'br', 'br-close',
           'br-close-peer', 'ertm']
    for i, op in enumerate(ops):
        for side in (0, 1):
            cases.append({'kind': 'cut', 'seed': seed * 1000003 + i, 'op': op, 'side': side,
                          'stride': 1 if tier == 'thorough' else 2})
    return cases


class World:
    """3 devices: 0 is connected to 1 (link 'a') and to 2 (link 'b')."""

    def __init__(self, rng, r, transport, seed, delay):
        self.rng, self.r, self.transport, self.seed, self.delay = rng, r, transport, seed, delay
        self.links = {}          # name -> (conn0, connX, peer index)
        self.open = {'a': [], 'b': []}   # model: list of (end0 channel, endX channel, kind)
        self.accepted = {0: [], 1: [], 2: []}
        self.history = []
        self.flags = set()

    async def start(self):
        from bumble import l2cap
        from bumble.device import DeviceConfiguration
        from vlib import rig as vrig
        cfgs = None
        self.rg = vrig.Rig(3, seed=self.seed, max_delay=self.delay, classic=self.transport == 'bredr')
        for d in self.rg.devices:
            d.l2cap_channel_manager.extended_features  # touch
        await self.rg.power_on()
        for i, d in enumerate(self.rg.devices):
            if self.transport == 'le':
                d.create_l2cap_server(spec=l2cap.LeCreditBasedChannelSpec(psm=PSM_LE, max_credits=8),
                                      handler=self.accepted[i].append)
                # a stingy server: 2 credits of 23 bytes, so that one small write stays partly unsent
                d.create_l2cap_server(spec=l2cap.LeCreditBasedChannelSpec(psm=PSM_LE + 2, mps=23, max_credits=2),
                                      handler=self.accepted[i].append)
            else:
                d.create_l2cap_server(spec=l2cap.ClassicChannelSpec(psm=PSM_BR), handler=self.accepted[i].append)
                d.l2cap_channel_manager.extended_features.update({
                    l2cap.L2CAP_Information_Request.ExtendedFeatures.ENHANCED_RETRANSMISSION_MODE,
                    l2cap.L2CAP_Information_Request.ExtendedFeatures.FCS_OPTION})
                d.create_l2cap_server(
                    spec=l2cap.ClassicChannelSpec(psm=PSM_BR_ERTM, mode=l2cap.TransmissionMode.ENHANCED_RETRANSMISSION),
                    handler=self.accepted[i].append)
        await self.connect('a')
        await self.connect('b')

    async def connect(self, name):
        peer = 1 if name == 'a' else 2
        if self.transport == 'le':
            c0, cx = await self.rg.connect_le(0, peer)
        else:
            c0, cx = await self.rg.connect_classic(0, peer)
        self.links[name] = (c0, cx, peer)
        await self.rg.quiesce()

    # -- operations --------------------------------------------------------------
    def spec(self, kind):
        from bumble import l2cap
        if kind == 'le':
            return l2cap.LeCreditBasedChannelSpec(psm=PSM_LE, max_credits=8)
        if kind == 'le-stingy':
            return l2cap.LeCreditBasedChannelSpec(psm=PSM_LE + 2, max_credits=8)
        if kind == 'le-none':
            return l2cap.LeCreditBasedChannelSpec(psm=PSM_NONE)
        if kind == 'br':
            return l2cap.ClassicChannelSpec(psm=PSM_BR)
        if kind == 'ertm':
            return l2cap.ClassicChannelSpec(psm=PSM_BR_ERTM, mode=l2cap.TransmissionMode.ENHANCED_RETRANSMISSION)
        if kind == 'br-none':
            return l2cap.ClassicChannelSpec(psm=PSM_BR_NONE)

    async def op_open(self, name, kind, from_peer=False, count=1):
        """Open `count` channels of `kind` on link `name`. Returns list of (init_end, acc_end)."""
        c0, cx, peer = self.links[name]
        init_conn, init_dev, acc_dev = (cx, peer, 0) if from_peer else (c0, 0, peer)
        before = len(self.accepted[acc_dev])
        mgr = self.rg.devices[init_dev].l2cap_channel_manager
        if kind == 'enh':
            chans = await vloop.vwait(mgr.create_enhanced_credit_based_channels(init_conn, self.spec('le'), count))
        else:
            chans = [await vloop.vwait(init_conn.create_l2cap_channel(spec=self.spec(kind)))]
        await self.rg.quiesce()
        acc = self.accepted[acc_dev][before:]
        pairs = []
        for ch in chans:
            m = [a for a in acc if a.source_cid == ch.destination_cid and a.connection.handle ==
                 (c0.handle if from_peer else cx.handle)]
            self.r.ev('oracle_evals')
            if len(m) != 1:
                self.r.bad(f'tables/open/no-unique-acceptor-end/{kind}',
                           f'client channel {ch} has {len(m)} matching server ends; history={self.history}')
                continue
            pairs.append((ch, m[0]) if not from_peer else (m[0], ch))
        return pairs

    def expected_tables(self, dev):
        """model: {handle: (own cids, peer cids for LE)}"""
        out = {}
        for name, (c0, cx, peer) in self.links.items():
            if dev == 0:
                h = c0.handle
                own = [e0.source_cid for (e0, ex, k) in self.open[name]]
                peer_cids = [e0.destination_cid for (e0, ex, k) in self.open[name]]
            elif dev == peer:
                h = cx.handle
                own = [ex.source_cid for (e0, ex, k) in self.open[name]]
                peer_cids = [ex.destination_cid for (e0, ex, k) in self.open[name]]
            else:
                continue
            out[h] = (sorted(own), sorted(peer_cids))
        return out

    def compare_tables(self, after):
        for dev in range(3):
            mgr = self.rg.devices[dev].l2cap_channel_manager
            exp = self.expected_tables(dev)
            live = set(exp)
            self.r.ev('table_comparisons')
            self.r.ev('oracle_evals')
            for h in set(mgr.channels) | set(mgr.le_coc_channels) | live:
                own = sorted(mgr.channels.get(h, {}).keys())
                pc = sorted(mgr.le_coc_channels.get(h, {}).keys())
                if h not in live:
                    if own or pc:
                        self.r.bad(f'tables/stale-entries/dead-link/{self.transport}',
                                   f'dev{dev} handle {h:#x} is dead but channels={own} le_coc={pc}; after {after}; '
                                   f'history={self.history}')
                    continue
                eown, epc = exp[h]
                if own != eown:
                    k = 'stale' if set(own) - set(eown) else 'missing'
                    self.r.bad(f'tables/channels/{k}/{self.transport}',
                               f'dev{dev} handle {h:#x}: channels={own} model={eown} after {after}; history={self.history}')
                if self.transport == 'le' and pc != epc:
                    k = 'stale' if set(pc) - set(epc) else 'missing'
                    self.r.bad(f'tables/le_coc_channels/{k}',
                               f'dev{dev} handle {h:#x}: le_coc_channels={pc} model={epc} after {after}; '
                               f'history={self.history}')
                if len(set(eown)) != len(eown):
                    self.r.bad(f'tables/duplicate-cid/{self.transport}', f'dev{dev} {h:#x}: open cids {eown}')
            if mgr.le_coc_requests:
                self.r.bad('tables/le_coc_requests/stale',
                           f'dev{dev} le_coc_requests={list(mgr.le_coc_requests)} at quiescence after {after}; '
                           f'history={self.history}')
            for h, pend in mgr.pending_credit_based_connections.items():
                if pend:
                    self.r.bad('tables/pending_credit_based_connections/stale',
                               f'dev{dev} handle {h:#x}: {list(pend)} after {after}')
            for h in mgr.identifiers:
                if h not in live:
                    self.r.bad(f'tables/identifiers/dead-link/{self.transport}',
                               f'dev{dev} keeps an identifier counter for dead handle {h:#x} after {after}')

    def check_closed_states(self, pair, after):
        for end in pair[:2]:
            st = end.state.name
            self.r.ev('oracle_evals')
            if st not in ('DISCONNECTED', 'CLOSED'):
                self.r.bad(f'tables/state-after-close/{self.transport}/{st}',
                           f'channel end {end} is {st} after {after}; history={self.history}')


async def hist_case(case, r: R):
    from bumble import l2cap
    from bumble.core import ProtocolError
    rng = random.Random(case['seed'])
    from vlib import rig as vrig
    vrig.seed_entropy(case['seed'])
    tr = case['transport']
    w = World(rng, r, tr, case['seed'], rng.choice([0, 0, 1, 3]))
    await w.start()
    length = rng.randint(3, 30)
    closed_on = set()
    for step in range(length):
        name = rng.choice(['a', 'b'])
        choices = ['open', 'open', 'open-peer', 'close', 'close-peer', 'refuse', 'concurrent', 'drop']
        weights = [4, 2, 2, 3, 3, 1, 1.5, 0.7]
        if tr == 'le':
            choices += ['enh']
            weights += [2]
        if len(w.links) == 2:
            choices += ['open-while-other-link-drops']
            weights += [1]
        op = rng.choices(choices, weights)[0]
        desc = (op, name)
        w.history.append(desc)
        r.ev('ops')
        try:
            if op in ('open', 'open-peer', 'enh'):
                kind = 'enh' if op == 'enh' else ('le' if tr == 'le' else rng.choice(['br', 'ertm']))
                count = rng.randint(1, 5) if op == 'enh' else 1
                if name in closed_on:
                    r.ev('reopen_after_close')
                    w.flags.add('reopen')
                try:
                    pairs = await w.op_open(name, kind, from_peer=(op == 'open-peer'), count=count)
                except vloop.Hang:
                    r.bad(f'hang/open/{kind}', f'open pending at T_v; history={w.history}')
                    break
                except Exception as e:
                    r.bad(f'tables/open-failed/{kind}' + ('/after-close' if name in closed_on else ''),
                          f'open raised {type(e).__name__}: {e}; history={w.history}')
                    await w.rg.quiesce()
                    w.compare_tables(desc)
                    continue
                for p in pairs:
                    w.open[name].append((p[0], p[1], kind))
            elif op in ('close', 'close-peer'):
                if not w.open[name]:
                    continue
                idx = rng.randrange(len(w.open[name]))
                e0, ex, kind = w.open[name][idx]
                end = e0 if op == 'close' else ex
                other = ex if op == 'close' else e0
                both = rng.random() < 0.2
                try:
                    if both:
                        # both ends close the channel at the same time: the requests cross on the link
                        r.ev('crossing_closes')
                        t2 = asyncio.ensure_future(other.disconnect())
                        await vloop.vwait(end.disconnect())
                        try:
                            await vloop.vwait(t2)
                        except vloop.Hang:
                            raise
                        except Exception:
                            r.ev('crossing_close_second_raised')   # already closed by the peer's request: fine
                    else:
                        await vloop.vwait(end.disconnect())
                except vloop.Hang:
                    r.bad(f'hang/disconnect/{kind}' + ('/crossing' if both else ''),
                          f'disconnect() pending at T_v; history={w.history}')
                    break
                except Exception as e:
                    if not both:
                        raise
                    r.ev('crossing_close_first_raised')
                await w.rg.quiesce()
                w.open[name].pop(idx)
                closed_on.add(name)
                w.check_closed_states((e0, ex), desc)
            elif op == 'refuse':
                kind = 'le-none' if tr == 'le' else 'br-none'
                c0 = w.links[name][0]
                try:
                    if tr == 'le' and rng.random() < 0.5:
                        # the enhanced variant: 1-5 channels refused in one response, from either end
                        cx_, peer_ = w.links[name][1], w.links[name][2]
                        iconn, idev = (cx_, peer_) if rng.random() < 0.4 else (c0, 0)
                        r.ev('enhanced_refusals_attempted')
                        await vloop.vwait(w.rg.devices[idev].l2cap_channel_manager.create_enhanced_credit_based_channels(
                            iconn, w.spec(kind), rng.randint(1, 5)))
                    else:
                        await vloop.vwait(c0.create_l2cap_channel(spec=w.spec(kind)))
                    r.bad(f'tables/refuse/not-refused/{tr}', f'open on a PSM without server succeeded; history={w.history}')
                except vloop.Hang:
                    r.bad(f'hang/open-refused/{tr}', f'refused open pending at T_v; history={w.history}')
                    break
                except (ProtocolError, Exception):
                    r.ev('refusals')
                await w.rg.quiesce()
            elif op == 'concurrent':
                w.flags.add('concurrent')
                kind = 'le' if tr == 'le' else 'br'
                res = await asyncio.gather(w.op_open('a', kind), w.op_open('b', kind),
                                           w.op_open('a', kind, from_peer=True), return_exceptions=True)
                for nm, rs in zip(('a', 'b', 'a'), res):
                    if isinstance(rs, vloop.Hang):
                        r.bad(f'hang/open/concurrent/{kind}', f'concurrent open pending at T_v; history={w.history}')
                    elif isinstance(rs, Exception):
                        r.bad(f'tables/open-failed/concurrent/{kind}',
                              f'concurrent open on link {nm} raised {type(rs).__name__}: {rs}; history={w.history}')
                    else:
                        for p in rs:
                            w.open[nm].append((p[0], p[1], kind))
                await w.rg.quiesce()
            elif op == 'open-while-other-link-drops':
                # an open on link `name` whose response is held back at the peer while the OTHER link of device 0
                # goes away altogether: signalling state of one link must not be touched by the end of another
                other = 'b' if name == 'a' else 'a'
                kind = ('le' if rng.random() < 0.6 else 'enh') if tr == 'le' else rng.choice(['br', 'ertm'])
                peer = w.links[name][2]
                fifo = w.rg.h2c[peer].fifo
                fifo.paused = True
                try:
                    t = asyncio.ensure_future(w.op_open(name, kind, count=rng.randint(1, 3) if kind == 'enh' else 1))
                    for _ in range(30):
                        await asyncio.sleep(0)
                    c0o, cxo, _po = w.links[other]
                    oolds = list(w.open[other])
                    await vloop.vwait(rng.choice([c0o, cxo]).disconnect())
                    for _ in range(200):
                        await asyncio.sleep(0)
                finally:
                    fifo.paused = False
                r.ev('opens_pending_while_other_link_dropped')
                try:
                    pairs = await vloop.vwait(t)
                    for p in pairs:
                        w.open[name].append((p[0], p[1], kind))
                except vloop.Hang:
                    r.bad(f'hang/open/{kind}/other-link-dropped-meanwhile',
                          f'open on link {name} pending at T_v after link {other} was dropped while its response was '
                          f'on the way; history={w.history}')
                    break
                except Exception as e:
                    r.bad(f'tables/open-failed/{kind}/other-link-dropped-meanwhile',
                          f'open on link {name} raised {type(e).__name__}: {e} (link {other} was dropped meanwhile); '
                          f'history={w.history}')
                await w.rg.quiesce()
                w.open[other] = []
                del w.links[other]
                for p in oolds:
                    w.check_closed_states(p, desc)
                await w.connect(other)
                closed_on.add(other)
            elif op == 'drop':
                w.flags.add('drop')
                c0, cx, peer = w.links[name]
                who = rng.choice([c0, cx])
                olds = list(w.open[name])
                try:
                    await vloop.vwait(who.disconnect())
                except vloop.Hang:
                    r.bad(f'hang/link-disconnect/{tr}', f'Connection.disconnect pending at T_v; history={w.history}')
                    break
                await w.rg.quiesce()
                w.open[name] = []
                del w.links[name]
                w.compare_tables(('drop', name))
                for p in olds:
                    w.check_closed_states(p, desc)
                await w.connect(name)
                closed_on.add(name)
        except vloop.Hang as e:
            r.bad(f'hang/op/{op}', f'{e}; history={w.history}')
            break
        w.compare_tables(desc)
    for where, e in w.rg.exceptions:
        r.bad(f'tables/exception-in-stack/{tr}', f'{where}: {e}; history={w.history}')
    if w.flags:
        r.sig('hist', tr, tuple(w.history))
    r.sched.add(w.rg.schedule_signature)
    r.evals()
    r.sample = {'kind': 'hist', 'transport': tr, 'history': w.history}


# -----------------------------------------------------------------------------
# long histories on one link: the signalling identifier wraps around with requests outstanding
# -----------------------------------------------------------------------------
async def wrap_case(case, r: R):
    """One link carries more than 256 signalling commands (open/close/refused-open cycles, each cycle checked for
    CID reuse, tables compared every few cycles); the cycles are steered - by reading the identifiers on the WIRE -
    so that 2-3 requests issued at the same time straddle the wrap-around of the 8-bit identifier. All of them must
    complete, the tables must be exact afterwards, and the other link of the device is used in between."""
    from vlib import rig as vrig
    from vlib import ref_l2cap as rl
    rng = random.Random(case['seed'])
    vrig.seed_entropy(case['seed'])
    tr = case['transport']
    w = World(rng, r, tr, case['seed'], rng.choice([0, 0, 1]))
    await w.start()
    rg = w.rg
    from_peer = rng.random() < 0.3
    c0, cx, peer = w.links['a']
    dev = peer if from_peer else 0
    handle = (cx if from_peer else c0).handle
    watch = rl.SigWatch(rg, dev)
    kind = 'le' if tr == 'le' else 'br'
    none_kind = 'le-none' if tr == 'le' else 'br-none'
    # one or two resident channels, so that the tables are never trivially empty
    for _ in range(rng.randint(0, 2)):
        for pr in await w.op_open('a', kind, from_peer=rng.random() < 0.5):
            w.open['a'].append((pr[0], pr[1], kind))
    wraps = 1 if case.get('tier') != 'thorough' else 2
    first_cid = None
    cycles = 0
    for wrap_no in range(wraps):
        k = rng.choice([0, 0, 1, 1, 2])
        burst = rng.choice(['le2', 'le3', 'enh2', 'enh3', 'mix'] if tr == 'le' else ['br2', 'br3', 'brmix'])
        target = 255 - k
        guard = 0
        while True:
            cur = watch.last_ident.get(handle, 0)
            remaining = (target - cur) % 255 if cur else target     # identifiers run 1..255, 0 = nothing sent yet
            if remaining == 0 and watch.commands.get(handle, 0) >= 200 * (wrap_no + 1):
                break
            remaining = remaining or 255
            guard += 1
            if guard > 600:
                raise RuntimeError(f'cannot steer the identifier to {target}: stuck at {cur}')
            cost = 2 if tr == 'le' else 3      # open (+ configure) + close
            try:
                if remaining >= cost + (0 if tr == 'le' else 2):
                    pairs = await w.op_open('a', kind, from_peer=from_peer)
                    if not pairs:
                        return
                    e0, ex = pairs[0]
                    mine = ex if from_peer else e0
                    cycles += 1
                    r.ev('wrap_cycles')
                    r.ev('oracle_evals')
                    # the smallest free CID is the same in every cycle: a closed identifier is usable again
                    if first_cid is None:
                        first_cid = mine.source_cid
                    elif mine.source_cid != first_cid:
                        r.bad(f'tables/cid-not-reused/long-history/{tr}',
                              f'cycle {cycles}: the new channel got CID {mine.source_cid:#x}, cycle 1 got {first_cid:#x} with the '
                              f'same channels open; identifier on the wire {cur}')
                        return
                    closer = rng.choice([e0, ex])
                    await vloop.vwait(closer.disconnect())
                    await rg.quiesce()
                    w.check_closed_states((e0, ex), ('cycle', cycles))
                    if closer is not mine and cycles % 7 == 0:
                        pass
                else:
                    # a refused open costs exactly one identifier
                    conn = cx if from_peer else c0
                    try:
                        await vloop.vwait(conn.create_l2cap_channel(spec=w.spec(none_kind)))
                        r.bad(f'tables/refuse/not-refused/{tr}', 'open on a PSM without server succeeded (long history)')
                    except vloop.Hang:
                        raise
                    except Exception:
                        r.ev('refusals')
                    await rg.quiesce()
            except vloop.Hang:
                r.bad(f'hang/long-history/{tr}', f'an open/close cycle is pending at T_v after {watch.commands.get(handle, 0)} '
                                                 f'signalling commands on the link (identifier {cur})')
                return
            except Exception as e:
                r.bad(f'tables/open-failed/long-history/{tr}', f'cycle {cycles} (identifier on the wire {cur}) raised '
                                                               f'{type(e).__name__}: {e}')
                return
            if cycles % 16 == 0:
                w.compare_tables(('cycle', cycles))
            if cycles % 40 == 0 and rng.random() < 0.5:
                # the other link of device 0 lives its own life meanwhile
                for pr in await w.op_open('b', kind):
                    w.open['b'].append((pr[0], pr[1], kind))
        w.compare_tables(('before-burst', wrap_no))
        # ---- the burst: several requests at once, straddling the wrap-around
        before_cmds = watch.commands.get(handle, 0)
        ops = []
        names = []
        n = 3 if burst.endswith('3') or burst in ('mix', 'brmix') else 2
        victim = None
        for i in range(n):
            if burst in ('mix', 'brmix') and i == 1 and w.open['a']:
                # a close of a resident channel in the middle of the opens
                victim = w.open['a'][0]
                mine = victim[1] if from_peer else victim[0]
                ops.append(vloop.vwait(mine.disconnect()))
                names.append('close')
            elif burst.startswith('enh') or (burst == 'mix' and i == 2):
                ops.append(w.op_open('a', 'enh', from_peer=from_peer, count=rng.randint(1, 3)))
                names.append('enh')
            else:
                ops.append(w.op_open('a', kind, from_peer=from_peer))
                names.append(kind)
        w.history.append(('burst-across-wrap', burst, k, tuple(names)))
        res = await asyncio.gather(*ops, return_exceptions=True)
        await rg.quiesce()
        r.ev('wrap_bursts')
        r.ev('wrap_burst_requests', n)
        for nm, rs in zip(names, res):
            r.ev('oracle_evals')
            if isinstance(rs, vloop.Hang):
                r.bad(f'hang/across-identifier-wrap/{nm}',
                      f'{nm} issued with {n - 1} other request(s) around the {before_cmds + 1}th signalling command of the link is '
                      f'pending at T_v; burst={names} last identifier before the burst={target}')
            elif isinstance(rs, BaseException):
                r.bad(f'tables/open-failed/across-identifier-wrap/{nm}',
                      f'{nm} issued with {n - 1} other request(s) around the {before_cmds + 1}th signalling command raised '
                      f'{type(rs).__name__}: {rs}; burst={names} last identifier before the burst={target}')
            elif nm == 'close':
                w.open['a'].remove(victim)
                w.check_closed_states(victim, 'burst')
            else:
                for pr in rs:
                    w.open['a'].append((pr[0], pr[1], 'le' if nm == 'enh' else nm))
        seq = watch.sequence.get(handle, [])
        used = seq[before_cmds:]
        if any(b <= a for a, b in zip(seq[max(0, before_cmds - 1):], used if before_cmds == 0 else seq[before_cmds:])):
            # (observed on the wire) the identifier went back to 1 inside the burst or right at its start
            r.ev('wrap_bursts_straddling_the_wrap')
        if watch.wraps_with_outstanding:
            r.ev('wrap_with_requests_outstanding')
        w.compare_tables(('burst', burst, k))
        if r.violations:
            break
        # close about half of what is open, then go on
        for pr in list(w.open['a']):
            if rng.random() < 0.5:
                try:
                    await vloop.vwait(rng.choice(pr[:2]).disconnect())
                except vloop.Hang:
                    r.bad(f'hang/disconnect/after-identifier-wrap/{tr}', 'disconnect() pending at T_v')
                    break
                await rg.quiesce()
                w.open['a'].remove(pr)
        first_cid = None
        w.compare_tables(('after-burst', wrap_no))
        # a few more cycles with the identifiers that follow the wrap-around
        for _ in range(6):
            try:
                pairs = await w.op_open('a', kind, from_peer=from_peer)
                if not pairs:
                    return
                await vloop.vwait(rng.choice(pairs[0]).disconnect())
                await rg.quiesce()
                r.ev('wrap_cycles')
            except vloop.Hang:
                r.bad(f'hang/long-history/{tr}', 'an open/close cycle after the identifier wrap-around is pending at T_v')
                return
            except Exception as e:
                r.bad(f'tables/open-failed/long-history/{tr}', f'cycle after the identifier wrap-around raised {type(e).__name__}: {e}')
                return
        w.compare_tables(('after-wrap-cycles', wrap_no))
    r.ev('wrap_commands_on_one_link', watch.commands.get(handle, 0))
    if watch.commands.get(handle, 0) >= 256:
        r.ev('wrap_links_with_256_commands')
    # finally the link goes away: nothing may be left, nobody may wait
    try:
        await vloop.vwait(rng.choice([c0, cx]).disconnect())
    except vloop.Hang:
        r.bad(f'hang/link-disconnect/{tr}', 'Connection.disconnect pending at T_v after a long history')
        return
    await rg.quiesce()
    olds = list(w.open['a'])
    w.open['a'] = []
    del w.links['a']
    w.compare_tables(('drop-after-long-history',))
    for pr in olds:
        w.check_closed_states(pr, 'drop-after-long-history')
    for where, e in rg.exceptions:
        r.bad(f'tables/exception-in-stack/{tr}/long-history', f'{where}: {e}')
    r.sig('wrap', tr, from_peer, tuple(w.history))
    r.sched.add(rg.schedule_signature)
    r.evals()
    r.sample = {'kind': 'wrap', 'transport': tr, 'from_peer': from_peer, 'cycles': cycles,
                'commands_on_link': watch.commands.get(handle, 0), 'bursts': [h for h in w.history if h[0] == 'burst-across-wrap'],
                'max_outstanding_at_wrap': watch.max_outstanding_at_wrap}


# -----------------------------------------------------------------------------
# callers that give up: cancel / timeout at every stage of an open against a slow or "pending" peer
# -----------------------------------------------------------------------------
GIVEUP_STAGES = {
    'br': ['silent', 'pending', 'pending', 'connected', 'cfg-rsp-only', 'cfg-req-only'],
    'le': ['silent'],
    'enh': ['silent'],
}


class GaveUp(Exception):
    pass


class SlowAcceptor:
    """Hand-driven acceptor (on vlib.rig.RawPeer) that takes an open up to a chosen stage and then keeps quiet -
    legal for a peer that waits for an authorisation or is just slow - and later either stays quiet, carries on
    as if nothing had happened, or refuses. With stall=None it answers at once."""

    def __init__(self, raw, handle, rng):
        import struct
        from vlib import ref_l2cap as rl
        self.st, self.rl = struct, rl
        self.raw, self.handle, self.rng = raw, handle, rng
        self.stall = None
        self.next_cid = 0x60
        self.ident = 0x80
        self.cur = None
        self.reached = False
        self.pending_first = False
        self.trace = []
        raw.handlers.append(self.on_pdu)

    def nid(self):
        self.ident = self.ident % 255 + 1
        return self.ident

    def send(self, cid, code, ident, data, what):
        self.trace.append('raw>' + what)
        self.raw.send(self.handle, cid, self.rl.sig(code, ident, data))

    def arm(self, stall, pending_first=False):
        self.stall, self.cur, self.reached, self.pending_first = stall, None, False, pending_first

    # -- classic steps
    def conn_rsp(self, result, status=0):
        c = self.cur
        self.send(1, self.rl.CODE_CONN_RSP, c['ident'], self.st.pack('<HHHH', c['dcid'] if result == 0 else 0, c['scid'], result, status),
                  f'ConnRsp({result})')
        if result == 0:
            c['connected'] = True

    def conf_req(self):
        c = self.cur
        c['my_req'] = self.nid()
        self.send(1, self.rl.CODE_CONF_REQ, c['my_req'], self.st.pack('<HH', c['scid'], 0) + bytes([1, 2]) + self.st.pack('<H', 672), 'ConfReq')

    def conf_rsp(self):
        c = self.cur
        if c.get('peer_req') is not None:
            self.send(1, self.rl.CODE_CONF_RSP, c['peer_req'], self.st.pack('<HHH', c['scid'], 0, 0), 'ConfRsp')
            c['peer_req'] = None
            c['answered'] = True

    def carry_on(self):
        """Finish the open as if the caller were still there."""
        c = self.cur
        if c is None:
            return
        if c['kind'] == 'br':
            if not c.get('connected'):
                self.conn_rsp(0)
            if not c.get('my_req'):
                self.conf_req()
            self.conf_rsp()
        elif c['kind'] == 'le':
            self.send(5, self.rl.CODE_LE_COC_RSP, c['ident'], self.st.pack('<HHHHH', c['dcid'], 512, 64, 5, 0), 'LeCocRsp')
        else:
            self.send(5, self.rl.CODE_ECOC_RSP, c['ident'], self.st.pack('<HHHH', 512, 64, 5, 0) +
                      b''.join(self.st.pack('<H', c['dcid'] + i) for i in range(len(c['scids']))), 'EcocRsp')

    def refuse(self):
        c = self.cur
        if c is None:
            return
        if c['kind'] == 'br':
            self.conn_rsp(4)
        elif c['kind'] == 'le':
            self.send(5, self.rl.CODE_LE_COC_RSP, c['ident'], self.st.pack('<HHHHH', 0, 0, 0, 0, 4), 'LeCocRsp(refused)')
        else:
            self.send(5, self.rl.CODE_ECOC_RSP, c['ident'], self.st.pack('<HHHH', 0, 0, 0, 4), 'EcocRsp(refused)')

    def on_pdu(self, handle, cid, payload):
        rl, st = self.rl, self.st
        if handle != self.handle or cid not in (1, 5):
            return
        for code, ident, data in rl.parse_signalling(payload):
            if code == rl.CODE_CONN_REQ:
                psm, scid = st.unpack_from('<HH', data, 0)
                self.trace.append('bumble>ConnReq')
                self.cur = dict(kind='br', ident=ident, scid=scid, dcid=self.next_cid)
                self.next_cid += 1
                if self.stall == 'silent':
                    self.reached = True
                    continue
                if self.stall == 'pending' or self.pending_first:
                    self.conn_rsp(1, self.rng.choice([0, 1, 2]))
                    if self.stall == 'pending':
                        self.reached = True
                        continue
                self.conn_rsp(0)
                if self.stall in (None, 'cfg-req-only'):
                    self.conf_req()
            elif code == rl.CODE_CONF_REQ and self.cur:
                self.trace.append('bumble>ConfReq')
                self.cur['peer_req'] = ident
                if self.stall == 'connected':
                    self.reached = True
                elif self.stall == 'cfg-req-only':
                    self.reached = self.reached or bool(self.cur.get('acked'))
                else:
                    self.conf_rsp()
                    if self.stall == 'cfg-rsp-only':
                        self.reached = True
            elif code == rl.CODE_CONF_RSP and self.cur:
                self.trace.append('bumble>ConfRsp')
                self.cur['acked'] = True
                if self.stall == 'cfg-req-only' and self.cur.get('peer_req') is not None:
                    self.reached = True
            elif code == rl.CODE_LE_COC_REQ:
                psm, scid = st.unpack_from('<HH', data, 0)
                self.trace.append('bumble>LeCocReq')
                self.cur = dict(kind='le', ident=ident, scid=scid, dcid=self.next_cid)
                self.next_cid += 1
                if self.stall == 'silent':
                    self.reached = True
                else:
                    self.carry_on()
            elif code == rl.CODE_ECOC_REQ:
                n = (len(data) - 8) // 2
                self.trace.append('bumble>EcocReq')
                self.cur = dict(kind='enh', ident=ident, scids=list(st.unpack_from(f'<{n}H', data, 8)), dcid=self.next_cid)
                self.next_cid += n
                if self.stall == 'silent':
                    self.reached = True
                else:
                    self.carry_on()
            elif code == rl.CODE_DISC_REQ:
                dcid, scid = st.unpack_from('<HH', data, 0)
                self.trace.append('bumble>DiscReq')
                self.send(cid, rl.CODE_DISC_RSP, ident, st.pack('<HH', dcid, scid), 'DiscRsp')
            elif code == rl.CODE_INFO_REQ:
                self.send(cid, rl.CODE_INFO_RSP, ident, st.pack('<HH', st.unpack_from('<H', data, 0)[0], 1), 'InfoRsp')


async def giveup_case(case, r: R):
    from bumble import l2cap
    from vlib import rig as vrig
    rng = random.Random(case['seed'])
    vrig.seed_entropy(case['seed'])
    kind = case['chan']
    tr = 'bredr' if kind == 'br' else 'le'
    rg = vrig.Rig(2, seed=case['seed'], max_delay=rng.choice([0, 0, 1, 3]), classic=tr == 'bredr')
    await rg.power_on()
    if tr == 'bredr':
        c0, c1 = await rg.connect_classic(0, 1)
    elif rng.random() < 0.5:
        c0, c1 = await rg.connect_le(0, 1)
    else:
        c1, c0 = await rg.connect_le(1, 0)
    await rg.quiesce()
    raw = vrig.RawPeer(rg, 1)
    raw.take()
    acc = SlowAcceptor(raw, c1.handle, rng)
    mgr = rg.devices[0].l2cap_channel_manager
    held = []          # channels the application holds open
    hist = []

    def spec():
        if kind == 'br':
            return l2cap.ClassicChannelSpec(psm=PSM_BR)
        return l2cap.LeCreditBasedChannelSpec(psm=PSM_LE, max_credits=8)

    def create(count=1):
        if kind == 'enh':
            return mgr.create_enhanced_credit_based_channels(c0, spec(), count)
        return c0.create_l2cap_channel(spec=spec())

    def free_cid():
        used = {ch.source_cid for ch in held}
        return next(c for c in range(0x40, 0x100) if c not in used)

    def tables(after, stage):
        own = sorted(mgr.channels.get(c0.handle, {}).keys())
        states = {cid: getattr(ch.state, 'name', ch.state) for cid, ch in mgr.channels.get(c0.handle, {}).items()}
        want = sorted(ch.source_cid for ch in held)
        r.ev('table_comparisons')
        r.ev('oracle_evals')
        ok = True
        if own != want:
            what = 'stale' if set(own) - set(want) else 'missing'
            r.bad(f'tables/channels/{what}/{after}/{kind}/{stage}',
                  f'channels={states}, the application holds {[hex(c) for c in want]}; history={hist}; peer trace={acc.trace[-8:]}')
            ok = False
        if tr == 'le':
            pc = sorted(mgr.le_coc_channels.get(c0.handle, {}).keys())
            wpc = sorted(ch.destination_cid for ch in held)
            if pc != wpc:
                r.bad(f'tables/le_coc_channels/{"stale" if set(pc) - set(wpc) else "missing"}/{after}/{kind}/{stage}',
                      f'le_coc_channels={pc}, expected {wpc}; history={hist}')
                ok = False
            if mgr.le_coc_requests:
                r.bad(f'tables/le_coc_requests/stale/{after}/{kind}/{stage}', f'le_coc_requests={list(mgr.le_coc_requests)}; history={hist}')
                ok = False
            if any(mgr.pending_credit_based_connections.values()):
                r.bad(f'tables/pending_credit_based_connections/stale/{after}/{kind}/{stage}',
                      f'{ {h: list(v) for h, v in mgr.pending_credit_based_connections.items()} }; history={hist}')
                ok = False
        return ok

    async def open_prompt(why, stage, expect_cid=None):
        acc.arm(None, pending_first=kind == 'br' and rng.random() < 0.3)
        try:
            res = await vloop.vwait(create())
        except vloop.Hang:
            r.bad(f'hang/open/{why}/{kind}/{stage}', f'open against a prompt peer pending at T_v; history={hist}')
            return None
        except Exception as e:
            r.bad(f'tables/open-failed/{why}/{kind}/{stage}', f'{type(e).__name__}: {e}; history={hist}; peer trace={acc.trace[-8:]}')
            return None
        ch = res[0] if isinstance(res, list) else res
        await rg.quiesce()
        r.ev('oracle_evals')
        if expect_cid is not None and ch.source_cid != expect_cid:
            r.bad(f'tables/cid-not-reused/{why}/{kind}/{stage}',
                  f'the smallest free CID is {expect_cid:#x} but the new channel got {ch.source_cid:#x}; history={hist}')
        held.append(ch)
        return ch

    # a first, ordinary use; sometimes closed again, so that the CID at stake is one of a CLOSED channel
    if rng.random() < 0.6:
        ch = await open_prompt('first', 'none')
        if ch is None:
            return
        if rng.random() < 0.6:
            await vloop.vwait(ch.disconnect())
            held.remove(ch)
            await rg.quiesce()
        tables('first-use', 'none')
    for rnd in range(rng.randint(1, 3)):
        stage = rng.choice(GIVEUP_STAGES[kind])
        how = rng.choice(['cancel', 'timeout', 'timeout'])
        late = rng.choice(['none', 'carry-on', 'carry-on', 'refuse'])
        if late == 'refuse' and stage not in ('silent', 'pending'):
            late = 'none'
        hist.append((stage, how, late))
        cid_at_stake = free_cid()
        acc.arm(stage)
        count = rng.randint(1, 3) if kind == 'enh' else 1
        async def impatient(aw):
            # (vloop.vwait reads a TimeoutError as "pending at T_v": give the caller's own time-out another name)
            try:
                return await asyncio.wait_for(aw, 5.0)
            except asyncio.TimeoutError:
                raise GaveUp() from None

        if how == 'cancel':
            task = asyncio.ensure_future(create(count))
        else:
            task = asyncio.ensure_future(impatient(create(count)))
        try:
            for _ in range(50):
                await rg.quiesce()
                if acc.reached:
                    break
        except vloop.Hang:
            r.bad(f'hang/giveup-harness/{kind}', 'no quiescence while the open is pending')
            return
        if not acc.reached or task.done():
            # the stage was not reached: harness or stack trouble, never a silent pass
            raise RuntimeError(f'stage {stage} not reached (task done={task.done()}); trace={acc.trace}')
        r.ev('giveup_attempts')
        r.ev(f'giveup_stage_{stage}')
        r.ev(f'giveup_by_{how}')
        if how == 'cancel':
            task.cancel()
        else:
            await asyncio.sleep(6.0)
        outcome = 'returned'
        try:
            await vloop.vwait(task, 60)
        except vloop.Hang:
            r.bad(f'hang/abandoned-open/{kind}/{stage}', f'the caller gave up ({how}) but its open is still pending; history={hist}')
            return
        except (asyncio.CancelledError, GaveUp):
            outcome = 'gave-up'
        except Exception as e:
            outcome = f'raised {type(e).__name__}'
        r.ev('oracle_evals')
        if outcome == 'returned':
            raise RuntimeError(f'open returned although the peer never completed it; trace={acc.trace}')
        await rg.quiesce()
        ok = tables('after-abandoned-open', stage)
        # the peer, later
        if late == 'carry-on':
            acc.carry_on()
        elif late == 'refuse':
            acc.refuse()
        await rg.quiesce()
        await asyncio.sleep(1.0)
        await rg.quiesce()
        if ok and late != 'none':
            r.ev('giveup_late_answers')
            tables(f'after-abandoned-open/late-{late}', stage)
        for where, e in rg.exceptions:
            r.bad(f'tables/exception-in-stack/after-abandoned-open/{kind}/{stage}', f'{where}: {e}; history={hist}')
        if r.violations:
            return
        # the CID of the abandoned attempt is usable again, at once
        ch = await open_prompt('after-abandoned-open', stage, expect_cid=cid_at_stake)
        if ch is None:
            return
        r.ev('reopen_after_close')
        r.ev('giveup_reopens')
        tables('reopen-after-abandoned-open', stage)
        if rng.random() < 0.6:
            try:
                await vloop.vwait(ch.disconnect())
            except vloop.Hang:
                r.bad(f'hang/disconnect/after-abandoned-open/{kind}', 'disconnect() pending at T_v')
                return
            held.remove(ch)
            await rg.quiesce()
            tables('close-after-abandoned-open', stage)
    for where, e in rg.exceptions:
        r.bad(f'tables/exception-in-stack/after-abandoned-open/{kind}', f'{where}: {e}; history={hist}')
    r.sig('giveup', kind, tuple(hist))
    r.sched.add(rg.schedule_signature)
    r.evals()
    r.sample = {'kind': 'giveup', 'channel': kind, 'history': [list(h) for h in hist], 'peer_trace': acc.trace[:30]}


# -----------------------------------------------------------------------------
# operations issued back to back, WITHOUT waiting for quiescence in between
# -----------------------------------------------------------------------------
class _Mirror:
    """The far end of a channel as the near end describes it (for the set model only)."""

    def __init__(self, ch):
        self.source_cid, self.destination_cid = ch.destination_cid, ch.source_cid


async def rapid_case(case, r: R):
    """A history on the 3-device rig in which the next operation is issued as soon as the awaited call of the
    previous one has returned (or a few loop turns later) - close then open, closes by both ends at once then open,
    a refused / abandoned set-up (no server; classic mode mismatch, which the client abandons with a Disconnection
    Request) then a retry, a close and an open issued together - so that the tail of the previous operation
    (responses to requests of a channel whose identifier is free again) is still in flight under the rig's delays.
    Every open succeeds, nothing stays pending, and at every quiescent point the tables are exact."""
    from bumble import l2cap
    from vlib import rig as vrig
    rng = random.Random(case['seed'])
    vrig.seed_entropy(case['seed'])
    tr = case['transport']
    w = World(rng, r, tr, case['seed'], rng.choice([0, 1, 1, 3, 5]))
    await w.start()
    rg = w.rg
    held = {'a': [], 'b': []}      # (near end, from_peer, kind) of the channels the application holds
    loose = []                     # futures of the second closer of crossing closes
    closed = []
    prev = 'start'

    def sync_model():
        for nm in ('a', 'b'):
            w.open[nm] = [((ch, _Mirror(ch), k) if not fp else (_Mirror(ch), ch, k)) for ch, fp, k in held[nm]]

    def far_end(nm, ch, fp):
        c0, cx, peer = w.links[nm]
        dev, handle = (0, c0.handle) if fp else (peer, cx.handle)
        for a in w.accepted[dev]:
            if a.source_cid == ch.destination_cid and a.destination_cid == ch.source_cid and a.connection.handle == handle \
                    and a.state.name in ('OPEN', 'CONNECTED'):
                return a
        return None

    async def checkpoint(after):
        try:
            await rg.quiesce()
            await asyncio.sleep(0.5)
            await rg.quiesce()
        except vloop.Hang:
            r.bad(f'hang/no-quiescence/back-to-back/{tr}', f'history={w.history}')
            return False
        for f in loose:
            if not f.done():
                r.bad(f'hang/disconnect/back-to-back/crossing/{tr}', f'the second of two crossing disconnect() calls is pending at quiescence; history={w.history}')
                return False
            f.cancelled() or f.exception()
        loose.clear()
        sync_model()
        n = len(r.violations)
        w.compare_tables(after)
        for ch in closed:
            w.check_closed_states((ch,), after)
        for nm in ('a', 'b'):
            for ch, fp, k in held[nm]:
                r.ev('oracle_evals')
                if ch.state.name not in ('OPEN', 'CONNECTED'):
                    r.bad(f'tables/state-of-held-channel/back-to-back/{tr}/{ch.state.name}', f'{ch} after {after}; history={w.history}')
        r.ev('rapid_checkpoints')
        return len(r.violations) == n

    def spec_for(kind):
        if kind == 'br-mismatch':
            return l2cap.ClassicChannelSpec(psm=PSM_BR_ERTM)        # Basic towards the ERTM server
        if kind == 'ertm-mismatch':
            return l2cap.ClassicChannelSpec(psm=PSM_BR, mode=l2cap.TransmissionMode.ENHANCED_RETRANSMISSION)
        return w.spec(kind)

    async def do_open(nm, kind, fp, count=1):
        c0, cx, peer = w.links[nm]
        conn, dev = (cx, peer) if fp else (c0, 0)
        if kind == 'enh':
            return await vloop.vwait(rg.devices[dev].l2cap_channel_manager.create_enhanced_credit_based_channels(conn, w.spec('le'), count))
        return [await vloop.vwait(conn.create_l2cap_channel(spec=spec_for(kind)))]

    for step in range(rng.randint(4, 14)):
        nm = rng.choice(['a', 'a', 'a', 'b'])
        gap = 'start'
        if step:
            gap = rng.choice(['none', 'none', 'none', 'turns', 'turns', 'quiesce'])
            if gap == 'turns':
                for _ in range(rng.randint(1, 10)):
                    await asyncio.sleep(0)
            elif gap == 'quiesce':
                if not await checkpoint(('gap', step)):
                    return
        fast = gap in ('none', 'turns')
        ops = ['open', 'open', 'open-peer', 'refuse', 'mismatch'] if tr == 'bredr' else ['open', 'open', 'open-peer', 'enh', 'refuse']
        if held[nm]:
            ops += ['close', 'close-peer', 'close-both', 'close-both', 'close+open']
        op = rng.choice(ops)
        w.history.append((prev, gap, op, nm))
        r.ev('ops')
        r.ev('rapid_ops')
        if fast:
            r.ev('rapid_ops_without_quiescence')
        try:
            if op in ('open', 'open-peer', 'enh', 'close+open'):
                kind = 'enh' if op == 'enh' else 'le' if tr == 'le' else rng.choice(['br', 'ertm'])
                fp = op == 'open-peer' or (op != 'open' and rng.random() < 0.3)
                victim = None
                if op == 'close+open':
                    # a close and an open issued together
                    victim = held[nm].pop(rng.randrange(len(held[nm])))
                    fp = victim[1]
                    cl = asyncio.ensure_future(vloop.vwait(victim[0].disconnect()))
                if fast and prev != 'start':
                    r.ev('rapid_opens_without_quiescence')
                    r.ev(f'rapid_{prev}_then_open')
                    if prev in ('close', 'close-peer', 'close-both', 'close+open'):
                        r.ev('reopen_after_close')
                try:
                    chans = await do_open(nm, kind, fp, rng.randint(1, 3))
                except vloop.Hang:
                    r.bad(f'hang/open/back-to-back/{prev}-then-{op}/{kind}', f'open pending at T_v; history={w.history}')
                    return
                except Exception as e:
                    r.bad(f'tables/open-failed/back-to-back/{prev}-then-{op}/{kind}', f'{type(e).__name__}: {e}; history={w.history}')
                    return
                for ch in chans:
                    held[nm].append((ch, fp, 'le' if kind == 'enh' else kind))
                if victim is not None:
                    try:
                        await cl
                    except vloop.Hang:
                        r.bad(f'hang/disconnect/back-to-back/with-open/{tr}', f'disconnect() issued together with an open is pending at T_v; history={w.history}')
                        return
                    closed.append(victim[0])
            elif op in ('close', 'close-peer', 'close-both'):
                ch, fp, kind = held[nm].pop(rng.randrange(len(held[nm])))
                far = far_end(nm, ch, fp) if op != 'close' else None
                if op != 'close' and far is None:
                    op = 'close'
                try:
                    if op == 'close':
                        await vloop.vwait(ch.disconnect())
                    elif op == 'close-peer':
                        await vloop.vwait(far.disconnect())
                    else:
                        r.ev('crossing_closes')
                        loose.append(asyncio.ensure_future(far.disconnect()))
                        try:
                            await vloop.vwait(ch.disconnect())
                        except vloop.Hang:
                            raise
                        except Exception:
                            r.ev('crossing_close_first_raised')
                except vloop.Hang:
                    r.bad(f'hang/disconnect/back-to-back/{op}/{kind}', f'disconnect() pending at T_v; history={w.history}')
                    return
                closed.append(ch)
            elif op in ('refuse', 'mismatch'):
                kind = ('le-none' if tr == 'le' else 'br-none') if op == 'refuse' else rng.choice(['br-mismatch', 'br-mismatch', 'ertm-mismatch'])
                try:
                    await do_open(nm, kind, rng.random() < 0.3)
                    r.bad(f'tables/refuse/not-refused/back-to-back/{kind}', f'history={w.history}')
                    return
                except vloop.Hang:
                    r.bad(f'hang/open-refused/back-to-back/{prev}-then-{kind}', f'refused open pending at T_v; history={w.history}')
                    return
                except Exception:
                    r.ev('refusals')
                    r.ev(f'rapid_refused_{kind}')
        except vloop.Hang as e:
            r.bad(f'hang/op/back-to-back/{op}', f'{e}; history={w.history}')
            return
        prev = op
    if not await checkpoint('end'):
        return
    # at the end every identifier that was closed is usable: one more open per link gets the smallest free CID
    for nm in ('a', 'b'):
        c0 = w.links[nm][0]
        used = {ch.source_cid for ch, fp, k in held[nm] if not fp} | {ch.destination_cid for ch, fp, k in held[nm] if fp}
        want = next(c for c in range(0x40, 0x200) if c not in used)
        kind = 'le' if tr == 'le' else 'br'
        try:
            ch = (await do_open(nm, kind, False))[0]
        except vloop.Hang:
            r.bad(f'hang/open/after-back-to-back/{kind}', f'history={w.history}')
            return
        except Exception as e:
            r.bad(f'tables/open-failed/after-back-to-back/{kind}', f'{type(e).__name__}: {e}; history={w.history}')
            return
        r.ev('oracle_evals')
        r.ev('rapid_final_reopens')
        if ch.source_cid != want:
            r.bad(f'tables/cid-not-reused/after-back-to-back/{tr}', f'smallest free CID {want:#x}, the new channel got {ch.source_cid:#x}; history={w.history}')
        held[nm].append((ch, False, kind))
    await checkpoint('final-reopen')
    for where, e in rg.exceptions:
        r.bad(f'tables/exception-in-stack/{tr}/back-to-back', f'{where}: {e}; history={w.history}')
    r.sig('rapid', tr, tuple(w.history))
    r.sched.add(rg.schedule_signature)
    r.evals()
    r.sample = {'kind': 'rapid', 'transport': tr, 'history': w.history}


# -----------------------------------------------------------------------------
# stale / duplicate responses from a hand-driven peer: all of them must be ignored
# -----------------------------------------------------------------------------
async def stale_case(case, r: R):
    """bumble opens and closes channels against a prompt hand-driven acceptor that never uses one of its own CIDs
    twice. The peer then repeats responses that no longer belong to anything - the Disconnection Response of a
    channel that is closed (its local CID free, or in use again by a NEW channel that is open or whose Connection
    Request is still unanswered), a Disconnection Response whose two CIDs belong to two different channels, a second
    Connection / Configuration / credit-based Connection Response for a request that was already answered, responses
    for CIDs that never existed. Nothing may change: the channels the application holds stay open and in the tables,
    the pending open completes once the peer answers it, its CID is the smallest free one."""
    import struct
    from bumble import l2cap
    from vlib import rig as vrig
    from vlib import ref_l2cap as rl
    rng = random.Random(case['seed'])
    vrig.seed_entropy(case['seed'])
    kind = case['chan']
    tr = 'bredr' if kind == 'br' else 'le'
    rg = vrig.Rig(2, seed=case['seed'], max_delay=rng.choice([0, 0, 1, 3]), classic=tr == 'bredr')
    await rg.power_on()
    if tr == 'bredr':
        c0, c1 = await rg.connect_classic(0, 1)
    else:
        c0, c1 = await rg.connect_le(0, 1)
    await rg.quiesce()
    raw = vrig.RawPeer(rg, 1)
    raw.take()
    acc = SlowAcceptor(raw, c1.handle, rng)
    sigcid = 1 if tr == 'bredr' else 5
    mgr = rg.devices[0].l2cap_channel_manager
    held, gone, hist = [], [], []
    answered = []       # (code, ident, data) of responses the peer has sent: material for duplicates
    orig_send = acc.send

    def send(cid, code, ident, data, what):
        answered.append((code, ident, data))
        orig_send(cid, code, ident, data, what)
    acc.send = send

    def create():
        if kind == 'br':
            return c0.create_l2cap_channel(spec=l2cap.ClassicChannelSpec(psm=PSM_BR))
        if kind == 'enh':
            return mgr.create_enhanced_credit_based_channels(c0, l2cap.LeCreditBasedChannelSpec(psm=PSM_LE, max_credits=8), 1)
        return c0.create_l2cap_channel(spec=l2cap.LeCreditBasedChannelSpec(psm=PSM_LE, max_credits=8))

    def verdict(after):
        own = sorted(mgr.channels.get(c0.handle, {}).keys())
        want = sorted(ch.source_cid for ch in held)
        r.ev('table_comparisons')
        r.ev('oracle_evals', 2)
        ok = True
        if own != want:
            r.bad(f'tables/channels/{"stale" if set(own) - set(want) else "missing"}/after-stale-response/{kind}/{after}',
                  f'channels={[hex(c) for c in own]}, the application holds {[hex(c) for c in want]}; history={hist}; peer trace={acc.trace[-6:]}')
            ok = False
        if tr == 'le':
            pc = sorted(mgr.le_coc_channels.get(c0.handle, {}).keys())
            wpc = sorted(ch.destination_cid for ch in held)
            if pc != wpc:
                r.bad(f'tables/le_coc_channels/{"stale" if set(pc) - set(wpc) else "missing"}/after-stale-response/{kind}/{after}',
                      f'le_coc_channels={pc}, expected {wpc}; history={hist}')
                ok = False
        for ch in held:
            if ch.state.name not in ('OPEN', 'CONNECTED'):
                r.bad(f'tables/state-of-held-channel/after-stale-response/{kind}/{after}/{ch.state.name}', f'{ch}; history={hist}')
                ok = False
        for where, e in rg.exceptions:
            r.bad(f'tables/exception-in-stack/after-stale-response/{kind}/{after}', f'{where}: {e}; history={hist}')
            ok = False
        return ok

    async def open_one(why, stall=None):
        used = {ch.source_cid for ch in held}
        want = next(c for c in range(0x40, 0x100) if c not in used)
        acc.arm(stall)
        task = asyncio.ensure_future(create())
        if stall:
            for _ in range(50):
                await rg.quiesce()
                if acc.reached:
                    break
            if not acc.reached:
                raise RuntimeError(f'stage {stall} not reached; trace={acc.trace}')
        return task, want

    async def finish_open(task, want, why):
        try:
            res = await vloop.vwait(task)
        except vloop.Hang:
            r.bad(f'hang/open/{why}/{kind}', f'open pending at T_v although the peer answered it; history={hist}; peer trace={acc.trace[-8:]}')
            return None
        except Exception as e:
            r.bad(f'tables/open-failed/{why}/{kind}', f'{type(e).__name__}: {e}; history={hist}; peer trace={acc.trace[-8:]}')
            return None
        ch = res[0] if isinstance(res, list) else res
        await rg.quiesce()
        r.ev('oracle_evals')
        if ch.source_cid != want:
            r.bad(f'tables/cid-not-reused/{why}/{kind}', f'smallest free CID {want:#x}, got {ch.source_cid:#x}; history={hist}')
        held.append(ch)
        return ch

    def inject(what, ch_old=None):
        """Returns False when there is no material for this injection."""
        S = struct.pack
        nid = rng.choice([1, 0x33, 0xEE])
        if what == 'dup-disc-rsp':
            if not gone:
                return False
            scid, dcid, ident = rng.choice(gone)
            orig_send(sigcid, rl.CODE_DISC_RSP, rng.choice([ident, nid]), S('<HH', dcid, scid), 'stale DiscRsp')
        elif what == 'crossed-disc-rsp':
            # the peer's CID of one channel with bumble's CID of another (a closed one or a live one)
            if not held or not (gone or len(held) > 1):
                return False
            a = rng.choice(held)
            others = [d for s_, d, _i in gone] + [c.destination_cid for c in held if c is not a]
            orig_send(sigcid, rl.CODE_DISC_RSP, nid, S('<HH', rng.choice(others), a.source_cid), 'crossed DiscRsp')
        elif what == 'unknown-disc-rsp':
            orig_send(sigcid, rl.CODE_DISC_RSP, nid, S('<HH', 0x70 + rng.randrange(8), 0x90 + rng.randrange(8)), 'DiscRsp(unknown)')
        elif what == 'dup-open-rsp':
            # a response (Connection / Configuration / LE / enhanced Connection Response) sent before, once more
            cands = [x for x in answered if x[0] in (rl.CODE_CONN_RSP, rl.CODE_CONF_RSP, rl.CODE_LE_COC_RSP, rl.CODE_ECOC_RSP)]
            if not cands:
                return False
            code, ident, data = rng.choice(cands)
            if code == rl.CODE_CONN_RSP and struct.unpack_from('<H', data, 2)[0] not in {c.source_cid for c in held if c.destination_cid == struct.unpack_from('<H', data, 0)[0]}:
                return False        # (only for a channel that is open NOW with this very CID pair: anything else would be a new answer)
            orig_send(sigcid, code, ident, data, 'duplicate response')
        elif what == 'unknown-open-rsp':
            if tr == 'bredr':
                code = rng.choice([rl.CODE_CONN_RSP, rl.CODE_CONF_RSP])
                data = S('<HHHH', 0x77, 0x99, 0, 0) if code == rl.CODE_CONN_RSP else S('<HHH', 0x99, 0, 0)
            else:
                code = rng.choice([rl.CODE_LE_COC_RSP, rl.CODE_ECOC_RSP, rl.CODE_LE_CREDIT])
                data = {rl.CODE_LE_COC_RSP: S('<HHHHH', 0x77, 512, 64, 5, 0), rl.CODE_ECOC_RSP: S('<HHHH', 512, 64, 5, 0) + S('<H', 0x77),
                        rl.CODE_LE_CREDIT: S('<HH', 0x77, 3)}[code]
            orig_send(sigcid, code, rng.choice([0xC1, 0xC2]), data, 'response for nothing')
        return True

    KINDS = ['dup-disc-rsp', 'dup-disc-rsp', 'crossed-disc-rsp', 'crossed-disc-rsp', 'unknown-disc-rsp', 'dup-open-rsp', 'unknown-open-rsp']
    for rnd in range(rng.randint(2, 5)):
        # some channels, one or two of them closed again (by bumble; the raw peer confirms)
        for _ in range(rng.randint(1, 3)):
            task, want = await open_one('stale-harness')
            if await finish_open(task, want, 'before-stale-response') is None:
                return
        for _ in range(rng.randint(1, 2)):
            if not held:
                break
            ch = held.pop(rng.randrange(len(held)))
            n_before = len(answered)
            try:
                await vloop.vwait(ch.disconnect())
            except vloop.Hang:
                r.bad(f'hang/disconnect/stale-harness/{kind}', f'disconnect() pending at T_v; history={hist}')
                return
            await rg.quiesce()
            rsp = [x for x in answered[n_before:] if x[0] == rl.CODE_DISC_RSP]
            gone.append((ch.source_cid, ch.destination_cid, rsp[0][1] if rsp else 1))
        if not verdict('harness'):
            return
        when = rng.choice(['cid-free', 'cid-reused-open', 'cid-reused-open', 'cid-reused-pending', 'cid-reused-pending'])
        what = rng.choice(KINDS)
        task = None
        if when == 'cid-reused-open':
            task, want = await open_one('stale-harness')
            if await finish_open(task, want, 'before-stale-response') is None:
                return
            task = None
        elif when == 'cid-reused-pending':
            task, want = await open_one('stale-harness', stall='silent')
        n_inj = 0
        done_ = set()
        for _ in range(rng.randint(1, 3)):
            if inject(what):
                n_inj += 1
                done_.add(what)
            what = rng.choice(KINDS) if rng.random() < 0.4 else what
        what = '+'.join(sorted(done_)) or 'nothing'
        hist.append((when, what, n_inj))
        await rg.quiesce()
        await asyncio.sleep(0.2)
        await rg.quiesce()
        r.ev('stale_injections', n_inj)
        r.ev(f'stale_when_{when}', n_inj)
        if task is not None:
            r.ev('oracle_evals')
            if task.done():
                exc = None if task.cancelled() else task.exception()
                r.bad(f'tables/pending-open-ended-by-stale-response/{kind}/{what}', f'the open whose request the peer has not answered ended '
                                                                                  f'({exc!r}); history={hist}; peer trace={acc.trace[-6:]}')
                return
            # bumble holds the pending channel in its table: the model has to as well
            pend_cids = sorted(set(mgr.channels.get(c0.handle, {}).keys()) - {c.source_cid for c in held})
            if pend_cids != [want]:
                r.bad(f'tables/channels/pending-open-lost/after-stale-response/{kind}/{what}',
                      f'pending channel CIDs {pend_cids}, expected [{want:#x}]; history={hist}')
                return
            acc.carry_on()
            if await finish_open(task, want, f'after-stale-response/{what}') is None:
                return
            r.ev('stale_pending_opens_completed')
        if not verdict(what):
            return
        r.ev('stale_rounds')
    r.sig('stale', kind, tuple(hist))
    r.sched.add(rg.schedule_signature)
    r.evals()
    r.sample = {'kind': 'stale', 'channel': kind, 'history': [list(h) for h in hist], 'peer_trace': acc.trace[-30:]}


# -----------------------------------------------------------------------------
async def cut_scenario(case, r: R, cut_at, dry):
    """Runs: setup, (prepare), operation with a link drop at HCI message index cut_at.
    Returns number of HCI messages the operation took (dry run)."""
    from vlib import rig as vrig
    rng = random.Random(case['seed'])
    vrig.seed_entropy(case['seed'])
    op = case['op']
    tr = 'le' if op.startswith(('le', 'enh')) else 'bredr'
    w = World(rng, r if not dry else R({}), tr, case['seed'], 0)
    await w.start()
    rg = w.rg
    pre = None
    if op in ('le-close', 'le-close-peer', 'le-drain'):
        pre = (await w.op_open('a', 'le'))[0]
    elif op in ('le-drain1', 'le-drain1-close'):
        pre = (await w.op_open('a', 'le-stingy'))[0]
    elif op in ('br-close', 'br-close-peer'):
        pre = (await w.op_open('a', 'br'))[0]
    if pre:
        w.open['a'].append((pre[0], pre[1], 'x'))
    await rg.quiesce()
    c0, cx, peer = w.links['a']
    start = len(rg.hci_log)
    fired = []

    def on_log(rec):
        if cut_at is not None and not fired and len(rg.hci_log) - start == cut_at:
            fired.append(rec[0])
            who = c0 if case['side'] == 0 else cx
            asyncio.ensure_future(_safe(who.disconnect()))

    async def _safe(aw):
        try:
            await aw
        except Exception:
            pass

    rg.on_hci_logged.append(on_log)
    key = f'{op}/cut-by-{"initiator" if case["side"] == 0 else "responder"}'
    outcome = None
    try:
        if op == 'le':
            aw = c0.create_l2cap_channel(spec=w.spec('le'))
        elif op == 'enh2':
            aw = rg.devices[0].l2cap_channel_manager.create_enhanced_credit_based_channels(c0, w.spec('le'), 2)
        elif op == 'br':
            aw = c0.create_l2cap_channel(spec=w.spec('br'))
        elif op == 'ertm':
            aw = c0.create_l2cap_channel(spec=w.spec('ertm'))
        elif op in ('le-close', 'br-close'):
            aw = pre[0].disconnect()
        elif op in ('le-close-peer', 'br-close-peer'):
            aw = pre[1].disconnect()
        elif op in ('le-drain1', 'le-drain1-close'):
            # exactly ONE buffer that fits one SDU but not the peer's credits: part of the SDU is
            # sent, nothing is queued behind it
            pre[0].write(bytes(500))
            if op == 'le-drain1-close':
                # the *peer* closes the channel (no link drop needed)
                asyncio.ensure_future(_safe(pre[1].disconnect()))
            aw = pre[0].drain()
        elif op == 'le-drain':
            # queue more data than the peer granted credits for, then wait for drain
            pre[0].write(bytes(60000))
            aw = pre[0].drain()
        outcome = 'ok'
        await vloop.vwait(aw)
    except vloop.Hang:
        outcome = 'hang'
        r.bad(f'hang/{key}', f'awaited {op} still pending at T_v after the link was cut at message {cut_at}')
    except BaseException as e:
        if isinstance(e, (KeyboardInterrupt, SystemExit)) or type(e).__name__ == 'CaseTimeout':
            raise
        outcome = f'raised {type(e).__name__}'
    await rg.quiesce()
    n_msgs = len(rg.hci_log) - start
    if dry:
        return n_msgs
    r.ev('cut_points')
    r.ev(f'cut_outcome_{outcome.split()[0]}')
    link_dead = rg.devices[0].find_connection_by_bd_addr(cx.self_address) is None and c0.handle not in rg.hosts[0].connections
    if link_dead:
        w.open['a'] = []
        del w.links['a']
        w.history.append(('cut', op, cut_at))
        w.compare_tables(('cut', op, cut_at))
        # reconnect and open again: must succeed
        try:
            await w.connect('a')
            kind = 'le' if tr == 'le' else 'br'
            pairs = await w.op_open('a', kind)
            r.ev('reopen_after_close')
            for p in pairs:
                w.open['a'].append((p[0], p[1], kind))
            w.compare_tables(('reopen-after-cut', op, cut_at))
        except vloop.Hang:
            r.bad(f'hang/reopen-after-cut/{key}', f'reconnect/open pending at T_v after cut at message {cut_at}')
        except Exception as e:
            r.bad(f'tables/open-failed/after-cut/{key}', f'open after reconnect raised {type(e).__name__}: {e} (cut at {cut_at})')
    else:
        r.ev('cut_link_survived')
    for where, e in rg.exceptions:
        r.bad(f'tables/exception-in-stack/{tr}/cut', f'{where}: {e}; op={op} cut_at={cut_at}')
    r.sig('cut', op, case['side'], cut_at)
    r.sched.add(rg.schedule_signature)
    return n_msgs


def run_case(case, r: R):
    if case['kind'] == 'hist':
        return hist_case(case, r)
    if case['kind'] == 'wrap':
        return wrap_case(case, r)
    if case['kind'] == 'giveup':
        return giveup_case(case, r)
    if case['kind'] == 'rapid':
        return rapid_case(case, r)
    if case['kind'] == 'stale':
        return stale_case(case, r)
    # cut: dry run, then one fresh loop per cut index
    dry_r = R({})
    n, _ = vloop.run(cut_scenario(case, dry_r, None, True))
    pts = 0
    for k in range(1, n + 1, case.get('stride', 1)):
        try:
            vloop.run(cut_scenario(case, r, k, False))
        except vloop.Hang as e:
            r.bad(f'hang/cut-harness/{case["op"]}', f'{e} at cut index {k}')
        pts += 1
        r.evals()
    r.sample = {'kind': 'cut', 'op': case['op'], 'side': case['side'], 'messages_in_operation': n, 'cut_points_run': pts}


LEVEL_TEXT = ('Set model of open channels compared with the ChannelManager tables of all three devices after every '
              'operation of ~140 (quick) / ~2800 (thorough) random multi-link histories on LE and BR/EDR, plus a link '
              'drop injected at every HCI-message index of each channel operation followed by reconnect and reopen; '
              'plus links that carry more than 256 signalling commands with simultaneous requests across the identifier '
              'wrap-around, plus opens abandoned by their caller (cancel / time-out) at every stage against a slow, '
              '"pending" or half-configuring hand-driven peer, followed by a reopen that must get the same CID; '
              'plus ~300 / ~3000 histories whose operations are issued back to back without quiescence and ~200 / ~2000 '
              'histories against a hand-driven peer that repeats stale / duplicate / crossed responses; '
              'every awaited call bounded by 300 virtual seconds. Exploration of histories, enumeration of cut points '
              'of the sampled operations; not a proof.')
LEVEL_NOTE = ('Trusted: the set model in checks/c09.py, rig taps/delay pipes, virtual-time loop. Channel identity is '
              'read from the channel objects the public API returns.')
TECHNIQUE = 'runtime monitoring: reference set-model compared with live tables at quiescent points + fault injection at message boundaries'
