"""C09 — L2CAP channel tables stay exact; closed identifiers are reusable; waiters end.

Monitor: a set model of open channels per (device, link), compared with the real
ChannelManager tables of all three devices after every operation at quiescence;
every awaited API call is bounded in virtual time.
Workloads
  hist     random histories of open / close-by-either-side / refuse / concurrent opens
           on two links / link drop + reconnect, LE (CoC + enhanced) or BR/EDR (basic, ERTM)
  cut      a link disconnect injected at every HCI-message index of one operation
           (indices enumerated by a dry run of the same operation), then reconnect + reopen
"""
from __future__ import annotations

import asyncio
import random

from vlib import vloop
from vlib.result import R

ID = 'C09'
LEVEL = 'exploration'
RULE = ('seeded operation histories (3-30 ops) on a 3-device rig; non-trivial when the history contains a '
        'close followed by a later open on the same link, or a link drop, or concurrent opens; distinct = '
        'distinct op sequence. cut cases: one per (operation, message index, cutting side), all indices of the '
        'dry run enumerated')
ASSUMPTIONS = [
    'a table entry for a dead connection handle counts only if non-empty',
    'a refused open (no server on the PSM) must raise and leave the tables unchanged',
]
MIN_EVENTS = {
    'quick': {'table_comparisons': 12000, 'ops': 4000, 'reopen_after_close': 1000, 'cut_points': 500, 'enhanced_refusals_attempted': 50, 'crossing_closes': 100},
    'thorough': {'table_comparisons': 60000, 'ops': 30000, 'reopen_after_close': 2000, 'cut_points': 800, 'enhanced_refusals_attempted': 400, 'crossing_closes': 800},
}
CASE_TIMEOUT = 300

PSM_LE = 0x80
PSM_NONE = 0x93
PSM_BR = 0x1001
PSM_BR_ERTM = 0x1003
PSM_BR_NONE = 0x1005


def plan(tier, seed):
    cases = []
    n = 400 if tier == 'quick' else 2800
    for i in range(n):
        cases.append({'kind': 'hist', 'seed': seed * 1000003 + i, 'transport': 'le' if i % 4 else 'bredr'})
    ops = ['le', 'enh2', 'le-close', 'le-close-peer', 'le-drain', 'le-drain1', 'le-drain1-close', 'br', 'br-close',
           'br-close-peer', 'ertm']
    for i, op in enumerate(ops):
        for side in (0, 1):
            cases.append({'kind': 'cut', 'seed': seed * 1000003 + i, 'op': op, 'side': side,
                          'stride': 1 if tier == 'thorough' else 2})
    return cases


class World:
    """3 devices: 0 is connected to 1 (link 'a') and to 2 (link 'b')."""

    def __init__(self, rng, r, transport, seed, delay):
        self.rng, self.r, self.transport, self.seed, self.delay = rng, r, transport, seed, delay
        self.links = {}          # name -> (conn0, connX, peer index)
        self.open = {'a': [], 'b': []}   # model: list of (end0 channel, endX channel, kind)
        self.accepted = {0: [], 1: [], 2: []}
        self.history = []
        self.flags = set()

    async def start(self):
        from bumble import l2cap
        from bumble.device import DeviceConfiguration
        from vlib import rig as vrig
        cfgs = None
        self.rg = vrig.Rig(3, seed=self.seed, max_delay=self.delay, classic=self.transport == 'bredr')
        for d in self.rg.devices:
            d.l2cap_channel_manager.extended_features  # touch
        await self.rg.power_on()
        for i, d in enumerate(self.rg.devices):
            if self.transport == 'le':
                d.create_l2cap_server(spec=l2cap.LeCreditBasedChannelSpec(psm=PSM_LE, max_credits=8),
                                      handler=self.accepted[i].append)
                # a stingy server: 2 credits of 23 bytes, so that one small write stays partly unsent
                d.create_l2cap_server(spec=l2cap.LeCreditBasedChannelSpec(psm=PSM_LE + 2, mps=23, max_credits=2),
                                      handler=self.accepted[i].append)
            else:
                d.create_l2cap_server(spec=l2cap.ClassicChannelSpec(psm=PSM_BR), handler=self.accepted[i].append)
                d.l2cap_channel_manager.extended_features.update({
                    l2cap.L2CAP_Information_Request.ExtendedFeatures.ENHANCED_RETRANSMISSION_MODE,
                    l2cap.L2CAP_Information_Request.ExtendedFeatures.FCS_OPTION})
                d.create_l2cap_server(
                    spec=l2cap.ClassicChannelSpec(psm=PSM_BR_ERTM, mode=l2cap.TransmissionMode.ENHANCED_RETRANSMISSION),
                    handler=self.accepted[i].append)
        await self.connect('a')
        await self.connect('b')

    async def connect(self, name):
        peer = 1 if name == 'a' else 2
        if self.transport == 'le':
            c0, cx = await self.rg.connect_le(0, peer)
        else:
            c0, cx = await self.rg.connect_classic(0, peer)
        self.links[name] = (c0, cx, peer)
        await self.rg.quiesce()

    # -- operations --------------------------------------------------------------
    def spec(self, kind):
        from bumble import l2cap
        if kind == 'le':
            return l2cap.LeCreditBasedChannelSpec(psm=PSM_LE, max_credits=8)
        if kind == 'le-stingy':
            return l2cap.LeCreditBasedChannelSpec(psm=PSM_LE + 2, max_credits=8)
        if kind == 'le-none':
            return l2cap.LeCreditBasedChannelSpec(psm=PSM_NONE)
        if kind == 'br':
            return l2cap.ClassicChannelSpec(psm=PSM_BR)
        if kind == 'ertm':
            return l2cap.ClassicChannelSpec(psm=PSM_BR_ERTM, mode=l2cap.TransmissionMode.ENHANCED_RETRANSMISSION)
        if kind == 'br-none':
            return l2cap.ClassicChannelSpec(psm=PSM_BR_NONE)

    async def op_open(self, name, kind, from_peer=False, count=1):
        """Open `count` channels of `kind` on link `name`. Returns list of (init_end, acc_end)."""
        c0, cx, peer = self.links[name]
        init_conn, init_dev, acc_dev = (cx, peer, 0) if from_peer else (c0, 0, peer)
        before = len(self.accepted[acc_dev])
        mgr = self.rg.devices[init_dev].l2cap_channel_manager
        if kind == 'enh':
            chans = await vloop.vwait(mgr.create_enhanced_credit_based_channels(init_conn, self.spec('le'), count))
        else:
            chans = [await vloop.vwait(init_conn.create_l2cap_channel(spec=self.spec(kind)))]
        await self.rg.quiesce()
        acc = self.accepted[acc_dev][before:]
        pairs = []
        for ch in chans:
            m = [a for a in acc if a.source_cid == ch.destination_cid and a.connection.handle ==
                 (c0.handle if from_peer else cx.handle)]
            self.r.ev('oracle_evals')
            if len(m) != 1:
                self.r.bad(f'tables/open/no-unique-acceptor-end/{kind}',
                           f'client channel {ch} has {len(m)} matching server ends; history={self.history}')
                continue
            pairs.append((ch, m[0]) if not from_peer else (m[0], ch))
        return pairs

    def expected_tables(self, dev):
        """model: {handle: (own cids, peer cids for LE)}"""
        out = {}
        for name, (c0, cx, peer) in self.links.items():
            if dev == 0:
                h = c0.handle
                own = [e0.source_cid for (e0, ex, k) in self.open[name]]
                peer_cids = [e0.destination_cid for (e0, ex, k) in self.open[name]]
            elif dev == peer:
                h = cx.handle
                own = [ex.source_cid for (e0, ex, k) in self.open[name]]
                peer_cids = [ex.destination_cid for (e0, ex, k) in self.open[name]]
            else:
                continue
            out[h] = (sorted(own), sorted(peer_cids))
        return out

    def compare_tables(self, after):
        for dev in range(3):
            mgr = self.rg.devices[dev].l2cap_channel_manager
            exp = self.expected_tables(dev)
            live = set(exp)
            self.r.ev('table_comparisons')
            self.r.ev('oracle_evals')
            for h in set(mgr.channels) | set(mgr.le_coc_channels) | live:
                own = sorted(mgr.channels.get(h, {}).keys())
                pc = sorted(mgr.le_coc_channels.get(h, {}).keys())
                if h not in live:
                    if own or pc:
                        self.r.bad(f'tables/stale-entries/dead-link/{self.transport}',
                                   f'dev{dev} handle {h:#x} is dead but channels={own} le_coc={pc}; after {after}; '
                                   f'history={self.history}')
                    continue
                eown, epc = exp[h]
                if own != eown:
                    k = 'stale' if set(own) - set(eown) else 'missing'
                    self.r.bad(f'tables/channels/{k}/{self.transport}',
                               f'dev{dev} handle {h:#x}: channels={own} model={eown} after {after}; history={self.history}')
                if self.transport == 'le' and pc != epc:
                    k = 'stale' if set(pc) - set(epc) else 'missing'
                    self.r.bad(f'tables/le_coc_channels/{k}',
                               f'dev{dev} handle {h:#x}: le_coc_channels={pc} model={epc} after {after}; '
                               f'history={self.history}')
                if len(set(eown)) != len(eown):
                    self.r.bad(f'tables/duplicate-cid/{self.transport}', f'dev{dev} {h:#x}: open cids {eown}')
            if mgr.le_coc_requests:
                self.r.bad('tables/le_coc_requests/stale',
                           f'dev{dev} le_coc_requests={list(mgr.le_coc_requests)} at quiescence after {after}; '
                           f'history={self.history}')
            for h, pend in mgr.pending_credit_based_connections.items():
                if pend:
                    self.r.bad('tables/pending_credit_based_connections/stale',
                               f'dev{dev} handle {h:#x}: {list(pend)} after {after}')
            for h in mgr.identifiers:
                if h not in live:
                    self.r.bad(f'tables/identifiers/dead-link/{self.transport}',
                               f'dev{dev} keeps an identifier counter for dead handle {h:#x} after {after}')

    def check_closed_states(self, pair, after):
        for end in pair[:2]:
            st = end.state.name
            self.r.ev('oracle_evals')
            if st not in ('DISCONNECTED', 'CLOSED'):
                self.r.bad(f'tables/state-after-close/{self.transport}/{st}',
                           f'channel end {end} is {st} after {after}; history={self.history}')


async def hist_case(case, r: R):
    from bumble import l2cap
    from bumble.core import ProtocolError
    rng = random.Random(case['seed'])
    from vlib import rig as vrig
    vrig.seed_entropy(case['seed'])
    tr = case['transport']
    w = World(rng, r, tr, case['seed'], rng.choice([0, 0, 1, 3]))
    await w.start()
    length = rng.randint(3, 30)
    closed_on = set()
    for step in range(length):
        name = rng.choice(['a', 'b'])
        choices = ['open', 'open', 'open-peer', 'close', 'close-peer', 'refuse', 'concurrent', 'drop']
        weights = [4, 2, 2, 3, 3, 1, 1.5, 0.7]
        if tr == 'le':
            choices += ['enh']
            weights += [2]
        op = rng.choices(choices, weights)[0]
        desc = (op, name)
        w.history.append(desc)
        r.ev('ops')
        try:
            if op in ('open', 'open-peer', 'enh'):
                kind = 'enh' if op == 'enh' else ('le' if tr == 'le' else rng.choice(['br', 'ertm']))
                count = rng.randint(1, 5) if op == 'enh' else 1
                if name in closed_on:
                    r.ev('reopen_after_close')
                    w.flags.add('reopen')
                try:
                    pairs = await w.op_open(name, kind, from_peer=(op == 'open-peer'), count=count)
                except vloop.Hang:
                    r.bad(f'hang/open/{kind}', f'open pending at T_v; history={w.history}')
                    break
                except Exception as e:
                    r.bad(f'tables/open-failed/{kind}' + ('/after-close' if name in closed_on else ''),
                          f'open raised {type(e).__name__}: {e}; history={w.history}')
                    await w.rg.quiesce()
                    w.compare_tables(desc)
                    continue
                for p in pairs:
                    w.open[name].append((p[0], p[1], kind))
            elif op in ('close', 'close-peer'):
                if not w.open[name]:
                    continue
                idx = rng.randrange(len(w.open[name]))
                e0, ex, kind = w.open[name][idx]
                end = e0 if op == 'close' else ex
                other = ex if op == 'close' else e0
                both = rng.random() < 0.2
                try:
                    if both:
                        # both ends close the channel at the same time: the requests cross on the link
                        r.ev('crossing_closes')
                        t2 = asyncio.ensure_future(other.disconnect())
                        await vloop.vwait(end.disconnect())
                        try:
                            await vloop.vwait(t2)
                        except vloop.Hang:
                            raise
                        except Exception:
                            r.ev('crossing_close_second_raised')   # already closed by the peer's request: fine
                    else:
                        await vloop.vwait(end.disconnect())
                except vloop.Hang:
                    r.bad(f'hang/disconnect/{kind}' + ('/crossing' if both else ''),
                          f'disconnect() pending at T_v; history={w.history}')
                    break
                except Exception as e:
                    if not both:
                        raise
                    r.ev('crossing_close_first_raised')
                await w.rg.quiesce()
                w.open[name].pop(idx)
                closed_on.add(name)
                w.check_closed_states((e0, ex), desc)
            elif op == 'refuse':
                kind = 'le-none' if tr == 'le' else 'br-none'
                c0 = w.links[name][0]
                try:
                    if tr == 'le' and rng.random() < 0.5:
                        # the enhanced variant: 1-5 channels refused in one response, from either end
                        cx_, peer_ = w.links[name][1], w.links[name][2]
                        iconn, idev = (cx_, peer_) if rng.random() < 0.4 else (c0, 0)
                        r.ev('enhanced_refusals_attempted')
                        await vloop.vwait(w.rg.devices[idev].l2cap_channel_manager.create_enhanced_credit_based_channels(
                            iconn, w.spec(kind), rng.randint(1, 5)))
                    else:
                        await vloop.vwait(c0.create_l2cap_channel(spec=w.spec(kind)))
                    r.bad(f'tables/refuse/not-refused/{tr}', f'open on a PSM without server succeeded; history={w.history}')
                except vloop.Hang:
                    r.bad(f'hang/open-refused/{tr}', f'refused open pending at T_v; history={w.history}')
                    break
                except (ProtocolError, Exception):
                    r.ev('refusals')
                await w.rg.quiesce()
            elif op == 'concurrent':
                w.flags.add('concurrent')
                kind = 'le' if tr == 'le' else 'br'
                res = await asyncio.gather(w.op_open('a', kind), w.op_open('b', kind),
                                           w.op_open('a', kind, from_peer=True), return_exceptions=True)
                for nm, rs in zip(('a', 'b', 'a'), res):
                    if isinstance(rs, vloop.Hang):
                        r.bad(f'hang/open/concurrent/{kind}', f'concurrent open pending at T_v; history={w.history}')
                    elif isinstance(rs, Exception):
                        r.bad(f'tables/open-failed/concurrent/{kind}',
                              f'concurrent open on link {nm} raised {type(rs).__name__}: {rs}; history={w.history}')
                    else:
                        for p in rs:
                            w.open[nm].append((p[0], p[1], kind))
                await w.rg.quiesce()
            elif op == 'drop':
                w.flags.add('drop')
                c0, cx, peer = w.links[name]
                who = rng.choice([c0, cx])
                olds = list(w.open[name])
                try:
                    await vloop.vwait(who.disconnect())
                except vloop.Hang:
                    r.bad(f'hang/link-disconnect/{tr}', f'Connection.disconnect pending at T_v; history={w.history}')
                    break
                await w.rg.quiesce()
                w.open[name] = []
                del w.links[name]
                w.compare_tables(('drop', name))
                for p in olds:
                    w.check_closed_states(p, desc)
                await w.connect(name)
                closed_on.add(name)
        except vloop.Hang as e:
            r.bad(f'hang/op/{op}', f'{e}; history={w.history}')
            break
        w.compare_tables(desc)
    for where, e in w.rg.exceptions:
        r.bad(f'tables/exception-in-stack/{tr}', f'{where}: {e}; history={w.history}')
    if w.flags:
        r.sig('hist', tr, tuple(w.history))
    r.sched.add(w.rg.schedule_signature)
    r.evals()
    r.sample = {'kind': 'hist', 'transport': tr, 'history': w.history}


# -----------------------------------------------------------------------------
async def cut_scenario(case, r: R, cut_at, dry):
    """Runs: setup, (prepare), operation with a link drop at HCI message index cut_at.
    Returns number of HCI messages the operation took (dry run)."""
    from vlib import rig as vrig
    rng = random.Random(case['seed'])
    vrig.seed_entropy(case['seed'])
    op = case['op']
    tr = 'le' if op.startswith(('le', 'enh')) else 'bredr'
    w = World(rng, r if not dry else R({}), tr, case['seed'], 0)
    await w.start()
    rg = w.rg
    pre = None
    if op in ('le-close', 'le-close-peer', 'le-drain'):
        pre = (await w.op_open('a', 'le'))[0]
    elif op in ('le-drain1', 'le-drain1-close'):
        pre = (await w.op_open('a', 'le-stingy'))[0]
    elif op in ('br-close', 'br-close-peer'):
        pre = (await w.op_open('a', 'br'))[0]
    if pre:
        w.open['a'].append((pre[0], pre[1], 'x'))
    await rg.quiesce()
    c0, cx, peer = w.links['a']
    start = len(rg.hci_log)
    fired = []

    def on_log(rec):
        if cut_at is not None and not fired and len(rg.hci_log) - start == cut_at:
            fired.append(rec[0])
            who = c0 if case['side'] == 0 else cx
            asyncio.ensure_future(_safe(who.disconnect()))

    async def _safe(aw):
        try:
            await aw
        except Exception:
            pass

    rg.on_hci_logged.append(on_log)
    key = f'{op}/cut-by-{"initiator" if case["side"] == 0 else "responder"}'
    outcome = None
    try:
        if op == 'le':
            aw = c0.create_l2cap_channel(spec=w.spec('le'))
        elif op == 'enh2':
            aw = rg.devices[0].l2cap_channel_manager.create_enhanced_credit_based_channels(c0, w.spec('le'), 2)
        elif op == 'br':
            aw = c0.create_l2cap_channel(spec=w.spec('br'))
        elif op == 'ertm':
            aw = c0.create_l2cap_channel(spec=w.spec('ertm'))
        elif op in ('le-close', 'br-close'):
            aw = pre[0].disconnect()
        elif op in ('le-close-peer', 'br-close-peer'):
            aw = pre[1].disconnect()
        elif op in ('le-drain1', 'le-drain1-close'):
            # exactly ONE buffer that fits one SDU but not the peer's credits: part of the SDU is
            # sent, nothing is queued behind it
            pre[0].write(bytes(500))
            if op == 'le-drain1-close':
                # the *peer* closes the channel (no link drop needed)
                asyncio.ensure_future(_safe(pre[1].disconnect()))
            aw = pre[0].drain()
        elif op == 'le-drain':
            # queue more data than the peer granted credits for, then wait for drain
            pre[0].write(bytes(60000))
            aw = pre[0].drain()
        outcome = 'ok'
        await vloop.vwait(aw)
    except vloop.Hang:
        outcome = 'hang'
        r.bad(f'hang/{key}', f'awaited {op} still pending at T_v after the link was cut at message {cut_at}')
    except BaseException as e:
        if isinstance(e, (KeyboardInterrupt, SystemExit)) or type(e).__name__ == 'CaseTimeout':
            raise
        outcome = f'raised {type(e).__name__}'
    await rg.quiesce()
    n_msgs = len(rg.hci_log) - start
    if dry:
        return n_msgs
    r.ev('cut_points')
    r.ev(f'cut_outcome_{outcome.split()[0]}')
    link_dead = rg.devices[0].find_connection_by_bd_addr(cx.self_address) is None and c0.handle not in rg.hosts[0].connections
    if link_dead:
        w.open['a'] = []
        del w.links['a']
        w.history.append(('cut', op, cut_at))
        w.compare_tables(('cut', op, cut_at))
        # reconnect and open again: must succeed
        try:
            await w.connect('a')
            kind = 'le' if tr == 'le' else 'br'
            pairs = await w.op_open('a', kind)
            r.ev('reopen_after_close')
            for p in pairs:
                w.open['a'].append((p[0], p[1], kind))
            w.compare_tables(('reopen-after-cut', op, cut_at))
        except vloop.Hang:
            r.bad(f'hang/reopen-after-cut/{key}', f'reconnect/open pending at T_v after cut at message {cut_at}')
        except Exception as e:
            r.bad(f'tables/open-failed/after-cut/{key}', f'open after reconnect raised {type(e).__name__}: {e} (cut at {cut_at})')
    else:
        r.ev('cut_link_survived')
    for where, e in rg.exceptions:
        r.bad(f'tables/exception-in-stack/{tr}/cut', f'{where}: {e}; op={op} cut_at={cut_at}')
    r.sig('cut', op, case['side'], cut_at)
    r.sched.add(rg.schedule_signature)
    return n_msgs


def run_case(case, r: R):
    if case['kind'] == 'hist':
        return hist_case(case, r)
    # cut: dry run, then one fresh loop per cut index
    dry_r = R({})
    n, _ = vloop.run(cut_scenario(case, dry_r, None, True))
    pts = 0
    for k in range(1, n + 1, case.get('stride', 1)):
        try:
            vloop.run(cut_scenario(case, r, k, False))
        except vloop.Hang as e:
            r.bad(f'hang/cut-harness/{case["op"]}', f'{e} at cut index {k}')
        pts += 1
        r.evals()
    r.sample = {'kind': 'cut', 'op': case['op'], 'side': case['side'], 'messages_in_operation': n, 'cut_points_run': pts}


LEVEL_TEXT = ('Set model of open channels compared with the ChannelManager tables of all three devices after every '
              'operation of ~140 (quick) / ~2800 (thorough) random multi-link histories on LE and BR/EDR, plus a link '
              'drop injected at every HCI-message index of each channel operation followed by reconnect and reopen; '
              'every awaited call bounded by 300 virtual seconds. Exploration of histories, enumeration of cut points '
              'of the sampled operations; not a proof.')
LEVEL_NOTE = ('Trusted: the set model in checks/c09.py, rig taps/delay pipes, virtual-time loop. Channel identity is '
              'read from the channel objects the public API returns.')
TECHNIQUE = 'runtime monitoring: reference set-model compared with live tables at quiescent points + fault injection at message boundaries'
