"""C20 — RFCOMM carries the exact byte stream; HFP on top negotiates consistently.

Monitors
  stream    bytes at each DLC sink == bytes written (concatenation, order), both directions,
            1-4 DLCs on one multiplexer, position-dependent data distinct per DLC/direction
  wire      vlib.ref_rfcomm (own frame parser + CRC) over each device's host-boundary log:
            FCS, length indicator, a data frame never sent with an empty credit ledger
            (k from the peer's PN + credit octets received - data frames sent), information
            field <= N1 the peer put in its PN and <= L2CAP MTU - 5 (one less with a credit octet)
  progress  every transfer finishes within T_v virtual seconds while the sinks consume
  state     after every open / close / shutdown step: DLC tables and DLC / multiplexer states
            are the same on both ends; bumble's own credit counters agree with the wire ledger
  refusal   an operation that is refused (open_dlc answered with DM, a second open_dlc while one is in
            flight, disconnect() of a closed DLC) ends with an error, leaves both multiplexers CONNECTED
            with equal DLC tables that do not list the refused DLCI, and the next use of the SAME
            multiplexer works: open_dlc to a listening channel succeeds and carries data both ways with a
            consistent credit ledger, live DLCs keep working, an orderly teardown sends DISC on DLCI 0 and
            ends with both multiplexers DISCONNECTED, a second multiplexer on the ACL starts clean.
            HFP: after the SLC, commands the AG must refuse (unknown command, operation / index / indicator
            out of every range) raise at the HF, leave no pending command or queued result code behind,
            and the command after an error final code gets its own answer
  srefuse   the refusal clause against a SCRIPTED responder (raw vlib.ref_rfcomm frames over a real L2CAP channel on PSM 3)
            that refuses at every stage a real stack may: PN answered DM (at once / after 20 s), PN accepted and the SABM
            answered DM / DISC / DM after 20 s / UA after 20 s, UA followed at once by DISC; first operation, with live
            DLCs, twice in a row, after a close.  open_dlc() ends, a refused one with an error; the initiator's
            multiplexer is CONNECTED and its DLC table equals the responder's OWN ledger of open DLCIs; open_dlc to
            another channel and to the refused channel (now accepted) works and carries data both ways byte-exactly with
            tx_credits equal to the responder's grant ledger; closes from either end; orderly ending
  slc       HfProtocol.initiate_slc against AgProtocol over such a DLC for enumerated and random
            feature / indicator / codec / call-hold configurations: completes, and both ends
            hold what the configurations imply (computed here, not by bumble)
  slcrep    the SLC set-up REPEATED on the same HfProtocol / AgProtocol: the k-th command of the procedure (every k) or the
            whole answer to it is lost once, the HF times out, initiate_slc() is run again (and again after a completed
            one): it completes and the slc oracle holds again (indicator names / order / count / values against a
            ledger kept here, feature words, call hold list, HF indicators, codecs), +CIEV updates sent through
            AgProtocol.update_ag_indicator afterwards land on the indicator they name on both sides
  codec     codec connection set-up after the SLC with one side played by hand (scripted AG against HfProtocol with its
            run loop, scripted HF against AgProtocol) and back to back with a gateway application that refuses: the
            selection +BCS is confirmed and answered OK / ERROR / +CME ERROR / not at all / ERROR after the HF's
            time-out, an unusable codec is selected (AT+BAC re-advertisement), the HF asks with AT+BCC (OK / ERROR /
            silence), the HF confirms another or an invalid ID or sends nothing; after every step both sides hold the
            SAME active codec (the scripted side commits only on the OK), codec_negotiation is emitted exactly for
            completed set-ups, and a later set-up still completes
  at        on the AG's DLC every command line is followed by exactly one final result code
            before the next line is answered (b2b during SLC, and a hand-driven raw DLC peer
            sending every command with nominal / +1 / -1 / empty parameters)
"""
from __future__ import annotations

import asyncio
import itertools
import logging
import os
import random

from vlib import vloop
from vlib import ref_rfcomm as rr
from vlib.result import R

ID = 'C20'
LEVEL = 'exploration'
RULE = ('seeded cases; RFCOMM transfer cases over (N1 and initial credits per side and per DLC, L2CAP MTU per side, '
        '1-4 DLCs, write-size pattern per direction, ACL geometry, delays) are non-trivial when a ledger touched zero '
        'or a frame was sent at the size limit or a credit-only frame was needed; lifecycle cases enumerate '
        '(number of DLCs, close order permutation, which end closes each, reopen) and are distinct by that tuple; '
        'refusal cases enumerate 11 written scripts + seeded random ones (open_dlc to a channel nobody listens on = DM, '
        'several in a row, between live DLCs and closes, a second open_dlc while one is in flight, disconnect() of a '
        'closed DLC, a service that appears after its refusal) x 3 endings (Client.shutdown, Multiplexer.disconnect, '
        'shutdown + second multiplexer on the same ACL) and are distinct by (script, ending, steps); scripted-responder '
        'refusal cases enumerate 7 answers (DM / late DM for the PN; DM / DISC / late DM / late UA for the SABM; UA then DISC) '
        'x 4 contexts x 3 follow-ups and are distinct by that tuple + ending; repeated-SLC cases enumerate (lost command k of '
        'the procedure or none, command lost / answer lost, re-run after a completed SLC) and are distinct by that and the '
        'configuration pair; '
        'SLC cases enumerate all 64 settings of the six feature bits the procedure branches on, the other bits and '
        'the lists drawn from boundary sets, distinct by configuration pair; AT cases are distinct by command line')
ASSUMPTIONS = [
    'no frame loss on the virtual link',
    'only the multiplexer initiator opens DLCs (bumble offers nothing else); either end closes them',
    'sinks are attached as soon as a DLC exists, so the 32-packet pre-sink queue is not part of the stream clause',
    'AG configurations list at least one AG indicator (an AG without indicators may refuse AT+CIND)',
    'a line that is not an AT command at all need not be answered, but must not stop later commands being answered',
    'a responder that never answers a PN or SABM at all is not exercised (the statement gives open_dlc() no time-out); answers '
    'that come 20 virtual seconds late are',
    'after DISC on DLCI 0 only the multiplexer states are compared (both bumble ends keep their DLC tables)',
    'a set-up that is run again meets the same gateway object with the same configuration; its indicator values may have '
    'been changed through AgProtocol.update_ag_indicator in between',
    'codec connection set-up (HFP 4.11.3): the codec connection exists once the AG has answered the HF\'s AT+BCS=<id> with OK; '
    'a side whose confirmation was refused, never answered, or answered after its own time-out keeps the codec it had; an '
    'application that gave up on negotiate_codec() (task cancelled) may call it again',
    'the information-field bound is the one in the task statement: min(peer N1, peer L2CAP MTU - 5), one less when '
    'the frame carries a credit octet',
]
MIN_EVENTS = {
    'quick': {'stream_checks': 400, 'ledger_data_frames': 20000, 'ledger_credit_octets_received': 800,
              'fcs_checked': 20000, 'state_checks': 400, 'slc_runs': 120, 'slc_agreement_checks': 600,
              'at_lines_checked': 1500, 'pn_exchanges': 600, 'dlc_invariant_evals': 50000,
              'refusals': 400, 'dm_frames_received_by_initiator': 300, 'opens_after_refusal': 250,
              'refuse_state_checks': 1200, 'refuse_exchanges': 400, 'mux_disc_frames_on_wire': 200,
              'hf_commands_after_refusal': 800, 'hf_concurrent_command_groups': 150,
              'sink_installed_after_data_and_replaced': 100,
              'srefuse_refusals': 100, 'srefuse_refusals_after_accepted_pn': 60, 'srefuse_refusals_at_pn': 40,
              'srefuse_late_acceptances': 20, 'srefuse_ua_then_disc': 20, 'srefuse_state_checks': 550,
              'srefuse_opens_after_scripted_answer': 150, 'srefuse_exchanges': 400,
              'slcrep_runs': 120, 'slcrep_retries_after_failed_attempt': 100, 'slcrep_reruns_after_completed_slc': 70,
              'slcrep_agreement_checks': 1800, 'slcrep_ciev_updates': 450,
              'codec_steps': 400, 'codec_agreement_checks': 350, 'codec_real_hf_confirmation_refused': 60,
              'codec_real_hf_confirmation_unanswered': 25, 'codec_real_hf_confirmation_answered_ok': 120,
              'codec_bac_renegotiations': 35, 'codec_hf_bcc': 50, 'codec_bcs_unanswered_by_hf': 6, 'codec_negotiate_codec_calls_after_abandoned_one': 30,
              'codec_runs_hf_vs_scripted_ag': 40, 'codec_runs_ag_vs_scripted_hf': 40,
              'codec_runs_both_real': 40},
    'thorough': {'stream_checks': 8000, 'ledger_data_frames': 600000, 'ledger_credit_octets_received': 20000,
                 'fcs_checked': 600000, 'state_checks': 8000, 'slc_runs': 2000, 'slc_agreement_checks': 12000,
                 'at_lines_checked': 30000, 'pn_exchanges': 12000, 'dlc_invariant_evals': 1000000,
                 'refusals': 2000, 'dm_frames_received_by_initiator': 1500, 'opens_after_refusal': 1200,
                 'refuse_state_checks': 6000, 'refuse_exchanges': 2000, 'mux_disc_frames_on_wire': 1000,
                 'hf_commands_after_refusal': 3500, 'hf_concurrent_command_groups': 700,
                 'sink_installed_after_data_and_replaced': 500,
                 'srefuse_refusals': 500, 'srefuse_refusals_after_accepted_pn': 300, 'srefuse_refusals_at_pn': 200,
                 'srefuse_late_acceptances': 100, 'srefuse_ua_then_disc': 100, 'srefuse_state_checks': 2700,
                 'srefuse_opens_after_scripted_answer': 750, 'srefuse_exchanges': 2000,
                 'slcrep_runs': 600, 'slcrep_retries_after_failed_attempt': 500, 'slcrep_reruns_after_completed_slc': 350,
                 'slcrep_agreement_checks': 9000, 'slcrep_ciev_updates': 2200,
                 'codec_steps': 3200, 'codec_agreement_checks': 2800, 'codec_real_hf_confirmation_refused': 480,
                 'codec_real_hf_confirmation_unanswered': 200, 'codec_real_hf_confirmation_answered_ok': 1000,
                 'codec_bac_renegotiations': 280, 'codec_hf_bcc': 400, 'codec_bcs_unanswered_by_hf': 50, 'codec_negotiate_codec_calls_after_abandoned_one': 240,
                 'codec_runs_hf_vs_scripted_ag': 330, 'codec_runs_ag_vs_scripted_hf': 330,
                 'codec_runs_both_real': 330},
}
CASE_TIMEOUT = 600

FRAME_SIZES = [23, 24, 127, 128, 129, 1000, 32767]
L2_MTUS = [48, 132, 2048, 65535]


INVARIANT = {'evals': 0, 'hits': []}


def init_shard(tier, seed):
    """Class invariant on every rfcomm.DLC of every workload: tx_credits never negative after
    process_tx (the transmit loop) or on_uih_frame (the receive path) returns."""
    logging.disable(logging.CRITICAL)
    from bumble import rfcomm

    def guard(name):
        inner = getattr(rfcomm.DLC, name)

        def wrapped(self, *a, **kw):
            try:
                return inner(self, *a, **kw)
            finally:
                INVARIANT['evals'] += 1
                if (self.tx_credits < 0 or self.rx_credits < 0) and len(INVARIANT['hits']) < 5:
                    INVARIANT['hits'].append(f'after DLC.{name}: tx_credits={self.tx_credits} rx_credits={self.rx_credits} '
                                             f'on DLCI {self.dlci}')
        wrapped.__wrapped__ = inner
        setattr(rfcomm.DLC, name, wrapped)

    if not hasattr(rfcomm.DLC.process_tx, '__wrapped__'):
        guard('process_tx')
        guard('on_uih_frame')


def plan(tier, seed):
    q = tier == 'quick'
    cases = []
    base = seed * 1000003
    for i in range(480 if q else 2400):
        cases.append({'kind': 'xfer', 'seed': base + i, 'idx': i, 'tier': tier})
    for i in range(288 if q else 1200):
        cases.append({'kind': 'life', 'seed': base + i, 'idx': i, 'tier': tier})
    for i in range(324 if q else 1620):
        cases.append({'kind': 'refuse', 'seed': base + i, 'idx': i, 'tier': tier})
    for i in range(168 if q else 840):
        cases.append({'kind': 'srefuse', 'seed': base + i, 'idx': i, 'tier': tier})
    for i in range(576 if q else 2560):
        cases.append({'kind': 'slc', 'seed': base + i, 'idx': i, 'tier': tier})
    for i in range(180 if q else 900):
        cases.append({'kind': 'slcrep', 'seed': base + i, 'idx': i, 'tier': tier})
    for i in range(192 if q else 800):
        cases.append({'kind': 'agraw', 'seed': base + i, 'idx': i, 'tier': tier})
    for i in range(16 if q else 200):
        cases.append({'kind': 'hfraw', 'seed': base + i, 'idx': i, 'tier': tier})
    for i in range(144 if q else 1200):
        cases.append({'kind': 'codec', 'seed': base + i, 'idx': i, 'tier': tier})
    only = os.environ.get('C20_ONLY')      # development aid; a partial run ends INCONCLUSIVE through MIN_EVENTS
    if only:
        cases = [c for c in cases if c['kind'] in only.split(',')]
    return cases


# =============================================================================
# shared: an RFCOMM session between device 0 (client / initiator) and device 1 (server)
# =============================================================================
def make_data(tag: int, start: int, n: int) -> bytes:
    return bytes(((tag * 37 + (start + i) * 7 + ((start + i) >> 8) * 13 + ((start + i) >> 16) * 101) & 0xFF)
                 for i in range(n))


class Session:
    def __init__(self, rg, ca, client_mtu, server_mtu):
        from bumble import rfcomm
        self.rg = rg
        self.client_mtu = client_mtu
        self.server_mtu = server_mtu
        self.server_muxes = []
        self.accepted = {}        # channel -> list of server-side DLCs in order of opening
        self.sinks = {}           # id(dlc) -> bytearray
        self.server = rfcomm.Server(rg.devices[1], l2cap_mtu=server_mtu)
        self.server.on('start', self.server_muxes.append)
        self.client = rfcomm.Client(ca, l2cap_mtu=client_mtu)
        self.mux = None

    late_sink = False         # True: the acceptor leaves the DLC without a sink (data is queued by the DLC)

    def listen(self, channel, n1, k):
        def acceptor(dlc, _c=channel):
            buf = bytearray()
            self.sinks[id(dlc)] = buf
            if not self.late_sink:
                dlc.sink = buf.extend
            self.accepted.setdefault(_c, []).append(dlc)
        got = self.server.listen(acceptor, channel=channel, max_frame_size=n1, initial_credits=k)
        assert got == channel
        # re-listen with other parameters on reopen
        return got

    def relisten(self, channel, n1, k):
        self.server.dlc_configs[channel] = (n1, k)

    async def start(self):
        self.mux = await vloop.vwait(self.client.start())
        return self.mux

    async def open(self, channel, n1, k):
        dlc = await vloop.vwait(self.mux.open_dlc(channel, max_frame_size=n1, initial_credits=k))
        buf = bytearray()
        self.sinks[id(dlc)] = buf
        dlc.sink = buf.extend
        await self.rg.quiesce()
        return dlc, self.accepted[channel][-1]

    @property
    def smux(self):
        return self.server_muxes[-1] if self.server_muxes else None


def table(mux):
    return {dlci: d.state.name for dlci, d in mux.dlcs.items()} if mux is not None else None


def compare_state(r: R, s: Session, after: str, key_suffix: str, expected_open=None):
    """DLC tables and states, and the multiplexer state, must be the same on both ends; where the
    harness knows which DLCs the API opened and closed, exactly those must be CONNECTED."""
    r.ev('state_checks')
    r.ev('oracle_evals', 2)
    tc, ts = table(s.mux), table(s.smux)
    ok = True
    if tc != ts:
        ok = False
        r.bad(f'state/dlc-table-differs/{key_suffix}',
              f'after {after}: initiator DLCs {tc}, responder DLCs {ts}')
    elif expected_open is not None:
        r.ev('oracle_evals')
        conn = {d for d, st in tc.items() if st == 'CONNECTED'}
        if conn != set(expected_open):
            ok = False
            r.bad(f'state/open-set-differs-from-model/{key_suffix}',
                  f'after {after}: both ends list {tc}, the DLCIs opened and not closed are {sorted(expected_open)}')
    mc = s.mux.state.name if s.mux else None
    ms = s.smux.state.name if s.smux else None
    if mc != ms:
        ok = False
        r.bad(f'state/multiplexer-state-differs/{key_suffix}', f'after {after}: initiator {mc}, responder {ms}')
    return ok


def write_sizes(rng, eff, cap):
    pat = rng.choice(['ones', 'edge', 'big', 'mixed', 'mixed', 'edge'])
    if pat == 'ones':
        sizes = [1] * rng.randint(1, 60)
    elif pat == 'edge':
        sizes = [max(0, x) for x in (eff - 1, eff, eff + 1, 1, 2 * eff - 1, 2 * eff, 2 * eff + 1, eff - 2, 3 * eff + 1)]
        if rng.random() < 0.5:
            rng.shuffle(sizes)
    elif pat == 'big':
        sizes = [cap] if rng.random() < 0.5 else [cap // 3, 1, cap - cap // 3 - 1]
    else:
        sizes = [rng.choice([0, 1, 2, eff - 1, eff, eff + 1, 2 * eff + 1, rng.randint(1, 4000)])
                 for _ in range(rng.randint(2, 25))]
        sizes = [max(0, x) for x in sizes]
    out, tot = [], 0
    for x in sizes:
        x = min(x, cap - tot)
        out.append(x)
        tot += x
        if tot >= cap:
            break
    return pat, out


def wire_and_counters(r: R, rg, pairs, label):
    """Ledger / size / FCS oracle over both devices' boundary logs + cross-check of bumble's
    own counters with the ledger at quiescence. pairs: list of (client dlc, server dlc) still open."""
    views = [rr.analyze(rg.boundary_log, dev, r) for dev in (0, 1)]
    for dev, v in enumerate(views):
        live = {}
        for d in v.dlcs:
            live[d.dlci] = d            # last incarnation per DLCI
        for cd, sd in pairs:
            mine = cd if dev == 0 else sd
            peer = sd if dev == 0 else cd
            d = live.get(mine.dlci)
            if d is None:
                continue
            r.ev('counter_checks')
            r.ev('oracle_evals', 2)
            if mine.tx_credits != d.credits:
                r.bad(f'rfcomm/credit/counter-drift/{d.role}',
                      f'{label}: dev{dev} DLCI {d.dlci} tx_credits={mine.tx_credits} but the wire ledger says {d.credits} '
                      f'(initial {d.initial}, received {d.received_credit}, data frames {d.data_frames})')
            if peer.rx_credits != d.credits:
                r.bad(f'rfcomm/credit/ends-disagree/{d.role}-sender',
                      f'{label}: at quiescence the receiver believes the sender on DLCI {d.dlci} holds {peer.rx_credits} '
                      f'credits, the wire ledger of dev{dev} says {d.credits}')
    return views


# =============================================================================
# kind 'xfer'
# =============================================================================
async def make_rig(case, rng, classic=True):
    from vlib import rig as vrig
    vrig.seed_entropy(case['seed'])
    lens = [rng.choice([27, 64, 339, 1021]) for _ in range(2)]
    nums = [rng.choice([1, 2, 8]) for _ in range(2)]
    delay = rng.choice([0, 0, 1, 3, 6])
    rg = vrig.Rig(2, seed=case['seed'], max_delay=delay, classic=True, acl_len=lens, acl_num=nums)
    await rg.power_on()
    ca, cb = await rg.connect_classic(0, 1)
    return rg, ca, cb, {'acl_len': lens, 'acl_num': nums, 'delay': delay}


def dlc_params(rng, idx, j):
    """(client N1, client k, server N1, server k) — the first DLC walks the 49 N1 pairs and
    the 49 credit pairs systematically, further DLCs are random."""
    if j == 0:
        n1c = FRAME_SIZES[idx % 7]
        n1s = FRAME_SIZES[(idx // 7) % 7]
        kc = 1 + (idx // 3) % 7
        ks = 1 + (idx // 5 + idx // 49) % 7
    else:
        n1c, n1s = rng.choice(FRAME_SIZES), rng.choice(FRAME_SIZES)
        kc, ks = rng.randint(1, 7), rng.randint(1, 7)
    return n1c, kc, n1s, ks


async def xfer(case, r: R):
    rng = random.Random(case['seed'] ^ 0xC20)
    idx = case['idx']
    rg, ca, cb, geo = await make_rig(case, rng)
    cm, sm = L2_MTUS[(idx // 2) % 4], L2_MTUS[(idx // 8 + idx) % 4]
    s = Session(rg, ca, cm, sm)
    s.late_sink = idx % 4 == 1
    ndlc = rng.choice([1, 1, 2, 3, 4])
    chans = rng.sample(range(1, 31), ndlc)
    params = []
    for j, ch in enumerate(chans):
        p = dlc_params(rng, idx, j)
        params.append(p)
        s.listen(ch, p[2], p[3])
    try:
        await s.start()
    except vloop.Hang:
        r.bad('rfcomm/setup/multiplexer-connect-hang', f'Client.start pending at T_v; mtus {cm}/{sm}')
        return
    pairs = []
    for j, ch in enumerate(chans):
        n1c, kc, n1s, ks = params[j]
        try:
            pairs.append(await s.open(ch, n1c, kc))
        except vloop.Hang:
            r.bad('rfcomm/setup/open-dlc-hang', f'open_dlc({ch}) pending at T_v; params {params[j]} mtus {cm}/{sm}')
            return
    compare_state(r, s, f'opening {ndlc} DLCs', 'after-open')
    pre = {}
    if s.late_sink:
        # data arrives before the acceptor has a sink; then a sink is installed, and installed again (a protocol
        # object taking the DLC over): what was queued is delivered once
        for j, (cd, sd) in enumerate(pairs):
            pre[j] = make_data(j * 2 + 1, 0, rng.choice([1, 10, 100]))
            cd.write(pre[j])
        await rg.quiesce()
        for j, (cd, sd) in enumerate(pairs):
            buf = s.sinks[id(sd)]
            sd.sink = buf.extend
            sd.sink = (lambda b_: (lambda d_: b_.extend(d_)))(buf)
            r.ev('sink_installed_after_data_and_replaced')
    big = (case['tier'] != 'quick' and rng.random() < 0.3) or (case['tier'] == 'quick' and idx % 12 == 0)
    cap = 100000 if big else rng.choice([3000, 6000])
    # effective information size per direction, from the parameters (not from bumble)
    plans = []
    for j, (cd, sd) in enumerate(pairs):
        n1c, kc, n1s, ks = params[j]
        eff_c2s = min(n1s, sm - 5)
        eff_s2c = min(n1c, cm - 5)
        pa, a = write_sizes(rng, eff_c2s, cap if j == 0 else min(cap, 6000))
        pb, b = write_sizes(rng, eff_s2c, cap if j == 0 else min(cap, 6000)) if rng.random() < 0.8 else ('none', [])
        plans.append({'c2s': a, 's2c': b, 'pat': (pa, pb)})
    sent = {(j, d): bytearray() for j in range(ndlc) for d in ('c2s', 's2c')}
    for j, data in pre.items():
        sent[(j, 'c2s')] += data
    queues = {(j, d): list(plans[j][d]) for j in range(ndlc) for d in ('c2s', 's2c') if plans[j][d]}
    while queues:
        key = rng.choice(sorted(queues))
        size = queues[key].pop(0)
        if not queues[key]:
            del queues[key]
        j, d = key
        end = pairs[j][0] if d == 'c2s' else pairs[j][1]
        data = make_data(j * 2 + (d == 's2c') + 1, len(sent[key]), size)
        try:
            end.write(data)
        except Exception as e:
            r.bad('rfcomm/stream/write-raised', f'write of {size} octets raised {type(e).__name__}: {e}; params {params[j]}')
            break
        sent[key] += data
        r.ev('writes')
        if rng.random() < 0.35:
            for _ in range(rng.randint(1, 5)):
                await asyncio.sleep(0)

    def got(j, d):
        return s.sinks[id(pairs[j][1] if d == 'c2s' else pairs[j][0])]

    async def all_received():
        while not all(len(got(j, d)) >= len(sent[(j, d)]) for (j, d) in sent):
            await asyncio.sleep(0.01)

    try:
        await vloop.vwait(all_received())
    except vloop.Hang:
        for (j, d), w in sent.items():
            if len(got(j, d)) < len(w):
                end = pairs[j][0] if d == 'c2s' else pairs[j][1]
                r.bad('rfcomm/progress/stalled',
                      f'{d} DLC#{j}: {len(got(j, d))}/{len(w)} octets after T_v; params(n1c,kc,n1s,ks)={params[j]} '
                      f'mtus c/s={cm}/{sm} sender tx_credits={end.tx_credits} tx_buffer={len(end.tx_buffer)}')
    await rg.quiesce()
    for (j, d), w in sent.items():
        g = bytes(got(j, d))
        r.ev('stream_checks')
        r.ev('oracle_evals')
        if g != bytes(w) and len(g) >= len(w) or g != bytes(w[:len(g)]):
            first = next((i for i in range(min(len(g), len(w))) if g[i] != w[i]), min(len(g), len(w)))
            r.bad('rfcomm/stream/corrupt' + ('/multi-dlc' if ndlc > 1 else ''),
                  f'{d} DLC#{j}: sink has {len(g)} octets, written {len(w)}, first difference at {first}; '
                  f'params={params[j]} mtus={cm}/{sm} writes={plans[j][d][:12]}')
    views = wire_and_counters(r, rg, pairs, 'after transfer')
    for dev, v in enumerate(views):
        r.ev('oracle_evals')
        if len(v.channels) != 1:
            r.bad('harness/rfcomm-channel-not-found', f'dev{dev}: RFCOMM L2CAP channels seen on the wire: {v.channels}')
    # drain() of a quiet DLC must finish
    for j, (cd, sd) in enumerate(pairs):
        for d, end in (('c2s', cd), ('s2c', sd)):
            r.ev('drain_checks')
            try:
                await vloop.vwait(end.drain(), 30)
            except vloop.Hang:
                last = plans[j][d][-1] if plans[j][d] else None
                r.bad('rfcomm/progress/drain-hang' + ('/after-empty-write' if last == 0 else ''),
                      f'drain() pending with everything delivered (tx_buffer={len(end.tx_buffer)} octets, last write '
                      f'{last} octets, writes {plans[j][d][-6:]}): {end}')
    for where, e in rg.exceptions:
        r.bad('rfcomm/exception-in-stack', f'{where}: {e}')
    nontrivial = any(d.zero_moments or d.at_limit or d.credit_only_frames for v in views for d in v.dlcs)
    if nontrivial:
        r.sig('xfer', cm, sm, tuple(params), tuple((tuple(p['c2s']), tuple(p['s2c'])) for p in plans))
    r.ev('ledger_zero_moments', sum(d.zero_moments for v in views for d in v.dlcs))
    r.ev('frames_at_size_limit', sum(d.at_limit for v in views for d in v.dlcs))
    r.ev('two_octet_length_frames', sum(d.two_octet for v in views for d in v.dlcs))
    r.sched.add(rg.schedule_signature)
    r.evals()
    r.sample = {'kind': 'xfer', 'l2cap_mtu_client': cm, 'l2cap_mtu_server': sm, 'dlcs': ndlc,
                'params_n1c_kc_n1s_ks': params, **geo, 'patterns': [p['pat'] for p in plans],
                'octets': {f'{j}{d}': len(w) for (j, d), w in sent.items()},
                'data_frames': sum(d.data_frames for v in views for d in v.dlcs)}
    # teardown through the API; the two ends must still agree
    try:
        await vloop.vwait(s.client.shutdown())
        await rg.quiesce()
        compare_state(r, s, 'Client.shutdown with DLCs open', 'after-shutdown')
    except vloop.Hang:
        r.bad('rfcomm/teardown/shutdown-hang', 'Client.shutdown pending at T_v')
    except Exception as e:
        r.bad('rfcomm/teardown/shutdown-raised', f'{type(e).__name__}: {e}')


# =============================================================================
# kind 'life': open / close orders
# =============================================================================
async def life(case, r: R):
    rng = random.Random(case['seed'] ^ 0x11FE)
    idx = case['idx']
    rg, ca, cb, geo = await make_rig(case, rng)
    cm, sm = rng.choice(L2_MTUS), rng.choice(L2_MTUS)
    s = Session(rg, ca, cm, sm)
    ndlc = 1 + idx % 4
    perms = list(itertools.permutations(range(ndlc)))
    order = perms[(idx // 4) % len(perms)]
    closer_mask = (idx // 4 // len(perms)) % (1 << ndlc) if ndlc <= 2 else rng.randrange(1 << ndlc)
    reopen = rng.random() < 0.6
    chans = rng.sample(range(1, 31), ndlc)
    params = [dlc_params(rng, rng.randrange(10 ** 6), 0) for _ in chans]
    for ch, p in zip(chans, params):
        s.listen(ch, p[2], p[3])
    await s.start()
    compare_state(r, s, 'multiplexer start', 'after-mux-start')
    pairs = {}
    closed_events = {}

    async def open_one(j):
        p = params[j]
        pairs[j] = await s.open(chans[j], p[0], p[1])
        for side, end in zip(('initiator', 'responder'), pairs[j]):
            end.on('close', lambda _j=j, _s=side: closed_events.setdefault(_j, []).append(_s))

    async def exchange(j, tagbase, n=None):
        """a short two-way exchange on DLC j; both ends must get it."""
        cd, sd = pairs[j]
        n = n or rng.choice([1, 30, 700])
        a, b = make_data(tagbase + 1, 0, n), make_data(tagbase + 2, 0, n)
        bc, bs = s.sinks[id(cd)], s.sinks[id(sd)]
        c0, s0 = len(bc), len(bs)
        cd.write(a)
        sd.write(b)

        async def w():
            while len(bs) < s0 + n or len(bc) < c0 + n:
                await asyncio.sleep(0.01)
        r.ev('stream_checks')
        r.ev('oracle_evals')
        try:
            await vloop.vwait(w(), 60)
        except vloop.Hang:
            return False
        return bytes(bs[s0:]) == a and bytes(bc[c0:]) == b

    open_set = set()
    for j in range(ndlc):
        await open_one(j)
        open_set.add(chans[j] << 1)
    compare_state(r, s, f'opening {ndlc} DLCs', 'after-open', open_set)
    for j in range(ndlc):
        if not await exchange(j, 10 * j):
            r.bad('rfcomm/stream/corrupt/multi-dlc' if ndlc > 1 else 'rfcomm/stream/corrupt',
                  f'exchange on DLC#{j} of {ndlc} failed before any close')
    steps = []
    for pos, j in enumerate(order):
        by = 'responder' if (closer_mask >> j) & 1 else 'initiator'
        cd, sd = pairs[j]
        end = cd if by == 'initiator' else sd
        steps.append((chans[j], by))
        try:
            await vloop.vwait(end.disconnect())
        except vloop.Hang:
            r.bad(f'rfcomm/teardown/dlc-disconnect-hang/by-{by}', f'DLC.disconnect pending at T_v (DLCI {end.dlci})')
            return
        except Exception as e:
            r.bad(f'rfcomm/teardown/dlc-disconnect-raised/by-{by}', f'{type(e).__name__}: {e}')
            return
        await rg.quiesce()
        open_set.discard(chans[j] << 1)
        compare_state(r, s, f'DLC {chans[j]} closed by the {by} (steps {steps})', f'after-dlc-close/by-{by}', open_set)
        # informational (the statement speaks of states, not of events)
        r.ev('close_events_on_both_ends' if sorted(closed_events.get(j, [])) == ['initiator', 'responder']
             else 'close_event_on_one_end_only')
        # the DLCs still open keep working
        for other in order[pos + 1:]:
            if not await exchange(other, 100 + 10 * other):
                r.bad(f'rfcomm/stream/other-dlc-broken-by-close/by-{by}',
                      f'after closing DLC {chans[j]} the exchange on DLC {chans[other]} failed')
        if reopen and rng.random() < 0.5:
            # reopen the same channel with other parameters; it must work and carry data
            params[j] = dlc_params(rng, rng.randrange(10 ** 6), 0)
            s.relisten(chans[j], params[j][2], params[j][3])
            try:
                await open_one(j)
            except vloop.Hang:
                r.bad(f'rfcomm/setup/reopen-hang/closed-by-{by}', f'open_dlc({chans[j]}) after close pending at T_v')
                return
            except Exception as e:
                r.bad(f'rfcomm/setup/reopen-raised/closed-by-{by}', f'{type(e).__name__}: {e}')
                return
            r.ev('reopens')
            open_set.add(chans[j] << 1)
            compare_state(r, s, f'reopening channel {chans[j]} (closed by the {by})', f'after-reopen/closed-by-{by}', open_set)
            if not await exchange(j, 200 + 10 * j):
                r.bad(f'rfcomm/stream/reopened-dlc-broken/closed-by-{by}', f'exchange on reopened channel {chans[j]} failed')
            # and close it again from the other side, so that later steps see a clean table
            closed_events[j] = []
            by2 = 'initiator' if by == 'responder' else 'responder'
            end2 = pairs[j][0] if by2 == 'initiator' else pairs[j][1]
            try:
                await vloop.vwait(end2.disconnect())
            except Exception as e:
                r.bad(f'rfcomm/teardown/dlc-disconnect-raised/by-{by2}', f'{type(e).__name__}: {e}')
                return
            await rg.quiesce()
            open_set.discard(chans[j] << 1)
            compare_state(r, s, f'reopened DLC {chans[j]} closed by the {by2}', f'after-dlc-close/by-{by2}', open_set)
    live = [pairs[j] for j in range(ndlc) if pairs[j][0].state.name == 'CONNECTED' and pairs[j][1].state.name == 'CONNECTED'
            and s.mux.dlcs.get(pairs[j][0].dlci) is pairs[j][0]]
    wire_and_counters(r, rg, live, 'after open/close sequence')
    try:
        await vloop.vwait(s.client.shutdown())
        await rg.quiesce()
        compare_state(r, s, 'Client.shutdown', 'after-shutdown')
    except vloop.Hang:
        r.bad('rfcomm/teardown/shutdown-hang', 'Client.shutdown pending at T_v')
    for where, e in rg.exceptions:
        r.bad('rfcomm/exception-in-stack', f'{where}: {e}')
    r.sig('life', ndlc, order, closer_mask, reopen)
    r.sched.add(rg.schedule_signature)
    r.evals()
    r.sample = {'kind': 'life', 'dlcs': ndlc, 'channels': chans, 'close_steps': steps, 'reopen': reopen, **geo}


# =============================================================================
# kind 'refuse': refusal / error paths followed by further use of the SAME multiplexer
# =============================================================================
# j = index into the listening channels, u = index into the channels nobody listens on
REFUSE_SCRIPTS = [
    ('refuse-then-open', [('refuse', 0), ('open', 0), ('xchg',)]),
    ('live-refuse-open', [('open', 0), ('refuse', 0), ('xchg',), ('open', 1), ('xchg',)]),
    ('refusals-in-a-row', [('refuse', 0), ('refuse', 1), ('refuse', 0), ('open', 0), ('xchg',)]),
    ('refuse-close-refuse-reopen', [('open', 0), ('refuse', 0), ('xchg',), ('close', 0, 'initiator'), ('refuse', 1),
                                    ('open', 0), ('xchg',)]),
    ('refuse-between-closes', [('open', 0), ('open', 1), ('refuse', 0), ('xchg',), ('close', 1, 'responder'), ('refuse', 0),
                               ('xchg',), ('open', 1), ('xchg',)]),
    ('refuse-last', [('open', 0), ('xchg',), ('refuse', 0)]),
    ('refuse-only', [('refuse', 0)]),
    ('second-open-while-opening', [('busy', 'L', 0, 1), ('xchg',), ('open', 1), ('xchg',)]),
    ('second-open-while-refusal-pending', [('busy', 'U', 0, 0), ('open', 0), ('xchg',), ('open', 1), ('xchg',)]),
    ('service-appears-after-refusal', [('refuse', 0), ('appear', 0), ('xchg',), ('refuse', 1), ('xchg',)]),
    ('close-twice-then-refuse', [('open', 0), ('close', 0, 'responder'), ('reclose', 0), ('refuse', 0), ('open', 1), ('xchg',)]),
    ('random', None),
]
REFUSE_ENDINGS = ['shutdown', 'mux-disconnect', 'shutdown-restart']


def rfcomm_frames(rg, dev):
    """[(direction, Frame)] of device dev's RFCOMM channel(s), parsed by vlib.ref_rfcomm."""
    from vlib import rig as vrig
    view = rr.analyze(rg.boundary_log, dev, R({}))
    out = []
    for _seq, _d, direction, _h, cid, payload in vrig.l2cap_log(rg.boundary_log, dev=dev):
        if (direction == vrig.H2C and cid in view.channels.values()) or (direction == vrig.C2H and cid in view.channels):
            f = rr.parse_frame(payload)
            if f is not None:
                out.append(('tx' if direction == vrig.H2C else 'rx', f))
    return out


async def refuse(case, r: R):
    rng = random.Random(case['seed'] ^ 0x4EF)
    idx = case['idx']
    rg, ca, cb, geo = await make_rig(case, rng)
    cm, sm = rng.choice(L2_MTUS), rng.choice(L2_MTUS)
    s = Session(rg, ca, cm, sm)
    name, steps = REFUSE_SCRIPTS[idx % len(REFUSE_SCRIPTS)]
    ending = REFUSE_ENDINGS[(idx // len(REFUSE_SCRIPTS)) % len(REFUSE_ENDINGS)]
    chans = rng.sample(range(1, 31), 6)
    listening, unlistened = chans[:3], chans[3:]
    if rng.random() < 0.3 and 30 not in chans:
        unlistened[0] = 30      # the top of the channel range
    params = {ch: dlc_params(rng, rng.randrange(10 ** 6), 0) for ch in listening + unlistened}
    for ch in listening:
        s.listen(ch, params[ch][2], params[ch][3])
    if steps is None:
        steps, opened = [], set()
        for _ in range(rng.randint(4, 9)):
            kind = rng.choice(['refuse', 'refuse', 'open', 'close', 'xchg', 'busy'])
            if kind == 'open' and len(opened) < 3:
                j = rng.choice([j for j in range(3) if j not in opened])
                opened.add(j)
                steps.append(('open', j))
            elif kind == 'close' and opened:
                j = rng.choice(sorted(opened))
                opened.discard(j)
                steps.append(('close', j, rng.choice(['initiator', 'responder'])))
            elif kind == 'busy' and len(opened) < 2:
                a, b = rng.sample([j for j in range(3) if j not in opened], 2)
                which = rng.choice('LU')
                steps.append(('busy', which, a if which == 'L' else rng.randrange(3), b))
                if which == 'L':
                    opened.add(a)
            elif kind == 'xchg':
                steps.append(('xchg',))
            else:
                steps.append(('refuse', rng.randrange(3)))
        steps.append(('refuse', rng.randrange(3)))
        for j in range(3):
            if j not in opened:
                steps.append(('open', j))
                break
        steps.append(('xchg',))
    await s.start()
    muxes = [(s.mux, s.smux)]
    live = {}                 # channel -> (initiator DLC, responder DLC)
    closed = {}               # channel -> last closed pair
    history = {'refusals': 0, 'last': 'start'}
    detail = lambda: f'script {name} steps {steps} ending {ending} mtus {cm}/{sm}'     # noqa: E731

    def phase():
        return 'after-refusal' if history['refusals'] else 'no-refusal-yet'

    async def try_open(ch):
        """('ok', pair) | ('raised', exception) | ('hang', None)"""
        p = params[ch]
        before = len(s.accepted.get(ch, []))
        try:
            how, val = await vloop.vwait(guarded(s.mux.open_dlc(ch, max_frame_size=p[0], initial_credits=p[1])))
        except vloop.Hang:
            return 'hang', None
        await rg.quiesce()
        if how == 'raised':
            return 'raised', val
        buf = bytearray()
        s.sinks[id(val)] = buf
        val.sink = buf.extend
        acc = s.accepted.get(ch, [])
        return 'ok', (val, acc[-1] if len(acc) > before else None)

    def check_states(after, suffix):
        ok = compare_state(r, s, f'{after}; {detail()}', suffix, {ch << 1 for ch in live})
        # model, not only agreement: between operations both multiplexers are CONNECTED
        r.ev('oracle_evals')
        r.ev('refuse_state_checks')
        for side, m in (('initiator', s.mux), ('responder', s.smux)):
            if m is None or m.state.name != 'CONNECTED':
                r.bad(f'state/multiplexer-not-connected/{suffix}/{side}',
                      f'after {after} the {side} multiplexer is {m.state.name if m else None}; {detail()}')
                ok = False
        return ok

    async def exchange_all(tagbase, suffix):
        for n_ch, ch in enumerate(sorted(live)):
            cd, sd = live[ch]
            n = rng.choice([1, 30, 700, 5000])
            a, b = make_data(tagbase + 2 * n_ch + 1, 0, n), make_data(tagbase + 2 * n_ch + 2, 0, n)
            bc, bs = s.sinks[id(cd)], s.sinks[id(sd)]
            c0, s0 = len(bc), len(bs)
            cd.write(a)
            sd.write(b)

            async def w():
                while len(bs) < s0 + n or len(bc) < c0 + n:
                    await asyncio.sleep(0.01)
            r.ev('stream_checks', 2)
            r.ev('refuse_exchanges')
            r.ev('oracle_evals', 2)
            try:
                await vloop.vwait(w(), 60)
            except vloop.Hang:
                r.bad(f'rfcomm/progress/stalled/{suffix}',
                      f'exchange of {n} octets each way on channel {ch} did not finish ({len(bs) - s0}/{len(bc) - c0} '
                      f'arrived; initiator tx_credits={cd.tx_credits}, responder tx_credits={sd.tx_credits}); {detail()}')
                continue
            if bytes(bs[s0:]) != a or bytes(bc[c0:]) != b:
                r.bad(f'rfcomm/stream/corrupt/{suffix}', f'exchange on channel {ch} differs; {detail()}')
        await rg.quiesce()

    def register(ch, pair, suffix):
        cd, sd = pair
        if sd is None:
            r.bad(f'state/open-not-seen-by-responder/{suffix}',
                  f'open_dlc({ch}) returned {cd} but the responder\'s acceptor was not called; {detail()}')
            return False
        live[ch] = pair
        return True

    aborted = False
    for pos, st in enumerate(steps):
        op = st[0]
        r.ev(f'refuse_step_{op}')
        if op == 'open' or op == 'appear':
            if op == 'appear':
                ch = unlistened[st[1]]
                s.listen(ch, params[ch][2], params[ch][3])
                suffix = 'open-of-channel-refused-before'
            else:
                ch = listening[st[1]]
                if ch in live:
                    continue
                suffix = f'open/{phase()}'
                if closed.get(ch):
                    params[ch] = dlc_params(rng, rng.randrange(10 ** 6), 0)
                    s.relisten(ch, params[ch][2], params[ch][3])
            how, val = await try_open(ch)
            r.ev('oracle_evals')
            if history['refusals']:
                r.ev('opens_after_refusal')
            if how == 'hang':
                r.bad(f'rfcomm/setup/open-dlc-hang/{suffix}', f'open_dlc({ch}) pending at T_v (step {pos}); {detail()}')
                aborted = True
                break
            if how == 'raised':
                r.bad(f'rfcomm/setup/open-dlc-raised/{suffix}',
                      f'open_dlc({ch}) to a listening channel raised {type(val).__name__}: {val} (step {pos}, previous step '
                      f'{history["last"]}); initiator multiplexer {s.mux.state.name}, responder {s.smux.state.name}; {detail()}')
            elif register(ch, val, suffix):
                if op == 'appear':
                    unlistened[st[1]] = next(c for c in range(1, 31) if c not in chans and c not in live)
                    params[unlistened[st[1]]] = params[ch]
                    listening.append(ch)
            check_states(f'step {pos} {st} (open_dlc({ch}) {how})', suffix)
        elif op == 'refuse':
            ch = unlistened[st[1]]
            n_dm = sum(1 for d, f in rfcomm_frames(rg, 0) if d == 'rx' and f.type == rr.DM)
            how, val = await try_open(ch)
            r.ev('refusals')
            r.ev('oracle_evals', 3)
            suffix = 'refused-open' + ('/with-live-dlcs' if live else '')
            if how == 'hang':
                r.bad(f'rfcomm/refusal/open-dlc-hang{"/with-live-dlcs" if live else ""}',
                      f'open_dlc({ch}) to a channel nobody listens on is still pending at T_v; {detail()}')
                aborted = True
                break
            if how == 'ok':
                r.bad('rfcomm/refusal/open-succeeded-without-listener',
                      f'open_dlc({ch}) returned {val[0]} although nobody listens on channel {ch}; {detail()}')
            else:
                r.ev(f'refusal_raised_{type(val).__name__}')
            n_dm2 = sum(1 for d, f in rfcomm_frames(rg, 0) if d == 'rx' and f.type == rr.DM)
            r.ev('dm_frames_received_by_initiator', n_dm2 - n_dm)
            for side, m in (('initiator', s.mux), ('responder', s.smux)):
                if (ch << 1) in m.dlcs:
                    r.bad(f'state/refused-dlci-in-table/{side}',
                          f'after the refused open of channel {ch} the {side} lists DLCI {ch << 1}: {table(m)}; {detail()}')
            history['refusals'] += 1
            check_states(f'step {pos}: refused open_dlc({ch}) ({how})', suffix)
        elif op == 'busy':
            # a second open_dlc while one is in flight: it may be refused by the API or served later, but
            # both calls must end, the in-flight one must get its normal outcome, and the multiplexer stays usable
            which, a, b = st[1], st[2], st[3]
            ch_a = listening[a] if which == 'L' else unlistened[a]
            ch_b = listening[b]
            if ch_a in live or ch_b in live or ch_a == ch_b:
                continue
            pa, pb = params[ch_a], params[ch_b]
            before_a, before_b = len(s.accepted.get(ch_a, [])), len(s.accepted.get(ch_b, []))
            t1 = asyncio.ensure_future(guarded(s.mux.open_dlc(ch_a, max_frame_size=pa[0], initial_credits=pa[1])))
            for _ in range(rng.choice([1, 1, 2, 4])):
                await asyncio.sleep(0)
            t2 = asyncio.ensure_future(guarded(s.mux.open_dlc(ch_b, max_frame_size=pb[0], initial_credits=pb[1])))
            r.ev('oracle_evals', 2)
            suffix = 'second-open-while-' + ('opening' if which == 'L' else 'refusal-pending')
            try:
                res = await vloop.vwait(asyncio.gather(t1, t2))
            except vloop.Hang:
                r.bad(f'rfcomm/setup/open-dlc-hang/{suffix}',
                      f'open_dlc({ch_a}) done={t1.done()} / open_dlc({ch_b}) done={t2.done()} at T_v; {detail()}')
                aborted = True
                break
            await rg.quiesce()
            (h1, v1), (h2, v2) = res
            r.ev(f'second_open_{"refused-by-api" if h2 == "raised" else "served"}')
            for chx, hx, vx, bx in ((ch_a, h1, v1, before_a), (ch_b, h2, v2, before_b)):
                if hx == 'ok':
                    buf = bytearray()
                    s.sinks[id(vx)] = buf
                    vx.sink = buf.extend
                    acc = s.accepted.get(chx, [])
                    if chx in unlistened:
                        r.bad('rfcomm/refusal/open-succeeded-without-listener', f'open_dlc({chx}) returned {vx}; {detail()}')
                    else:
                        register(chx, (vx, acc[-1] if len(acc) > bx else None), suffix)
            if which == 'L' and h1 != 'ok':
                r.bad(f'rfcomm/setup/open-dlc-raised/{suffix}',
                      f'the in-flight open_dlc({ch_a}) raised {type(v1).__name__}: {v1} after a second open_dlc was '
                      f'attempted ({h2}: {v2}); {detail()}')
            if which == 'U':
                r.ev('refusals')
                if h1 == 'raised':
                    history['refusals'] += 1
            check_states(f'step {pos} {st}: first open {h1}, second open {h2}', suffix)
        elif op == 'close':
            ch = listening[st[1]]
            if ch not in live:
                continue
            by = st[2]
            end = live[ch][0 if by == 'initiator' else 1]
            try:
                how, val = await vloop.vwait(guarded(end.disconnect()))
            except vloop.Hang:
                r.bad(f'rfcomm/teardown/dlc-disconnect-hang/by-{by}', f'DLC.disconnect pending at T_v (channel {ch}); {detail()}')
                aborted = True
                break
            if how == 'raised':
                r.bad(f'rfcomm/teardown/dlc-disconnect-raised/by-{by}', f'{type(val).__name__}: {val}; {detail()}')
            await rg.quiesce()
            closed[ch] = live.pop(ch)
            check_states(f'step {pos}: channel {ch} closed by the {by}', f'after-dlc-close/by-{by}/{phase()}')
        elif op == 'reclose':
            ch = listening[st[1]]
            if ch not in closed:
                continue
            # disconnect() of a DLC that is already closed: an error (or a no-op), never a hang, and no effect on the rest
            for side, end in zip(('initiator', 'responder'), closed[ch]):
                r.ev('oracle_evals')
                try:
                    how, val = await vloop.vwait(guarded(end.disconnect()), 60)
                    r.ev(f'reclose_{how}')
                except vloop.Hang:
                    r.bad(f'rfcomm/teardown/dlc-disconnect-hang/already-closed/{side}',
                          f'disconnect() of the closed {end} pending after 60 virtual s; {detail()}')
            await rg.quiesce()
            check_states(f'step {pos}: disconnect() of the already closed channel {ch}', 'after-disconnect-of-closed-dlc')
        elif op == 'xchg':
            await exchange_all(20 * pos, f'exchange/{phase()}')
        history['last'] = st
    if aborted:
        r.evals()
        return
    pairs = [live[ch] for ch in sorted(live)]
    wire_and_counters(r, rg, pairs, f'after the {name} script')
    # ---- ending: orderly teardown of a multiplexer whose last operations included refusals -----
    r.ev(f'refuse_ending_{ending}')
    r.ev('oracle_evals', 2)
    last_was_refusal = history['last'][0] == 'refuse'
    suffix = ending + ('/last-step-refusal' if last_was_refusal else '')
    try:
        if ending == 'mux-disconnect':
            how, val = await vloop.vwait(guarded(s.mux.disconnect()))
        else:
            how, val = await vloop.vwait(guarded(s.client.shutdown()))
        if how == 'raised':
            r.bad(f'rfcomm/teardown/{ending}-raised', f'{type(val).__name__}: {val}; {detail()}')
        await rg.quiesce()
        compare_state(r, s, f'{ending}; {detail()}', f'after-{suffix}')
        for side, m in (('initiator', muxes[0][0]), ('responder', muxes[0][1])):
            r.ev('refuse_state_checks')
            if m.state.name != 'DISCONNECTED':
                r.bad(f'state/multiplexer-not-disconnected/after-{suffix}/{side}',
                      f'after {ending} the {side} multiplexer is {m.state.name}; {detail()}')
        discs = [d for d, f in rfcomm_frames(rg, 0) if f.type == rr.DISC and f.dlci == 0]
        r.ev('mux_disc_frames_on_wire', len(discs))
        if discs != ['tx']:
            r.bad(f'rfcomm/teardown/no-disc-on-wire/after-{suffix}',
                  f'DISC frames on DLCI 0 seen at the initiator: {discs} (expected exactly one, sent by it); {detail()}')
        if ending == 'mux-disconnect':
            await vloop.vwait(guarded(s.client.shutdown()))
            await rg.quiesce()
    except vloop.Hang:
        r.bad(f'rfcomm/teardown/{ending}-hang', f'{ending} pending at T_v; {detail()}')
        r.evals()
        return
    if ending == 'shutdown-restart':
        # a new multiplexer on the same ACL connection: the old one's refusals must not leak into it
        from bumble import rfcomm
        s.client = rfcomm.Client(ca, l2cap_mtu=cm)
        r.ev('oracle_evals', 2)
        try:
            how, val = await vloop.vwait(guarded(s.client.start()))
        except vloop.Hang:
            r.bad('rfcomm/setup/multiplexer-connect-hang/after-shutdown', f'second Client.start pending at T_v; {detail()}')
            r.evals()
            return
        if how == 'raised':
            r.bad('rfcomm/setup/multiplexer-connect-raised/after-shutdown', f'{type(val).__name__}: {val}; {detail()}')
        else:
            s.mux = val
            await rg.quiesce()
            live.clear()
            history['refusals'] = 0
            ch = listening[0]
            h1, v1 = await try_open(unlistened[0])
            r.ev('refusals')
            if h1 != 'raised':
                r.bad('rfcomm/refusal/open-dlc-hang' if h1 == 'hang' else 'rfcomm/refusal/open-succeeded-without-listener',
                      f'on the second multiplexer open_dlc({unlistened[0]}) -> {h1}; {detail()}')
            else:
                history['refusals'] += 1
            h2, v2 = await try_open(ch)
            r.ev('opens_after_refusal')
            if h2 != 'ok':
                r.bad(f'rfcomm/setup/open-dlc-{"hang" if h2 == "hang" else "raised"}/second-multiplexer',
                      f'open_dlc({ch}) on the second multiplexer of the connection -> {h2} {v2!r}; {detail()}')
            elif register(ch, v2, 'second-multiplexer'):
                check_states('refusal and open on the second multiplexer', 'second-multiplexer')
                await exchange_all(900, 'exchange/second-multiplexer')
                wire_and_counters(r, rg, [live[ch]], 'second multiplexer')
            await vloop.vwait(guarded(s.client.shutdown()))
            await rg.quiesce()
            compare_state(r, s, f'second shutdown; {detail()}', 'after-shutdown/second-multiplexer')
    for where, e in rg.exceptions:
        r.bad('rfcomm/exception-in-stack', f'{where}: {e}; {detail()}')
    r.sig('refuse', name, ending, tuple(steps))
    r.sched.add(rg.schedule_signature)
    r.evals()
    r.sample = {'kind': 'refuse', 'script': name, 'steps': [list(x) for x in steps], 'ending': ending,
                'listening': listening, 'unlistened': unlistened, **geo}


# =============================================================================
# kind 'srefuse': the `refuse` family against a SCRIPTED responder (raw RFCOMM frames over a real L2CAP channel)
# =============================================================================
# A bumble Server refuses only at the PN stage (DM for a channel nobody listens on).  A real stack may refuse at every
# stage (TS 07.10 5.4.1 / RFCOMM 5.2: DM is the answer of a station that is not willing to establish the DLC): the PN
# answered with DM, the PN accepted and the SABM answered with DM or with DISC, either of them after a pause, or the
# UA followed at once by DISC.  The responder below is played by hand with vlib.ref_rfcomm frames and keeps its OWN
# ledger of which DLCIs are open (UA sent for the SABM, no DISC either way since), what it received and which credits
# it granted; the initiator's DLC table, states, streams and credit counter are judged against that ledger.
# ('nothing at all' is not in the list: the statement gives open_dlc() no time-out, so only answers that come are judged.)
SREFUSE_SCRIPTS = [
    ('pn-dm', 'dm', None),
    ('sabm-dm', 'accept', 'dm'),
    ('sabm-disc', 'accept', 'disc'),
    ('pn-late-dm', 'late-dm', None),
    ('sabm-late-dm', 'accept', 'late-dm'),
    ('sabm-late-ua', 'accept', 'late-ua'),
    ('ua-then-disc', 'accept', 'ua-disc'),
]
SREFUSE_CONTEXTS = ['first-operation', 'with-live-dlcs', 'twice-in-a-row', 'after-a-close']
SREFUSE_FOLLOWUPS = ['open-other-channel', 'reopen-refused-channel', 'both']
SREFUSE_STAGE = {'pn-dm': 'dm-for-pn', 'pn-late-dm': 'dm-for-pn', 'sabm-dm': 'dm-for-sabm', 'sabm-late-dm': 'dm-for-sabm',
                 'sabm-disc': 'disc-for-sabm', 'ua-then-disc': 'disc-after-ua', 'sabm-late-ua': 'late-ua'}
SREFUSE_ENDS_REFUSED = {'pn-dm', 'sabm-dm', 'sabm-disc', 'pn-late-dm', 'sabm-late-dm'}


class ScriptedResponder:
    def __init__(self, channel, my_n1, my_k, r: R):
        self.ch = channel
        self.my_n1, self.my_k = my_n1, my_k
        self.r = r
        self.mux = 'INIT'
        self.plan = {}            # dlci -> (pn answer, sabm answer), consumed by the next PN command for that DLCI
        self.stage = {}           # dlci -> sabm answer still to play
        self.pn = {}              # dlci -> PN command of the initiator that was accepted
        self.open = {}            # dlci -> ledger of an open data link
        self.closed = []          # ledgers of data links that were closed
        self.seen = []            # (type name, dlci) of every frame of the initiator
        self.bad_frames = 0
        channel.sink = self.on_pdu

    # -- sending ------------------------------------------------------------------------------------
    def send(self, ftype, cr, dlci, pf, payload=b'', credit=None):
        self.ch.write(rr.make_frame(ftype, cr, dlci, pf, payload, credit))

    def later(self, delay, fn):
        asyncio.get_running_loop().call_later(delay, fn)

    def establish(self, dlci):
        pn = self.pn[dlci]
        self.open[dlci] = {'rx': bytearray(), 'credits': pn.k, 'peer_n1': pn.n1, 'txq': bytearray(), 'granted': self.my_k,
                           'data_frames_received': 0, 'data_frames_sent': 0, 'oversize': 0}
        self.send(rr.UA, 1, dlci, 1)
        self.send(rr.UIH, 0, 0, 0, rr.make_mcc(rr.MCC_MSC, 1, bytes([(dlci << 2) | 3, 0x8D])))

    def close(self, dlci):
        """the responder closes the data link: DISC command, the link leaves its ledger now"""
        if dlci in self.open:
            self.closed.append(self.open.pop(dlci))
        self.send(rr.DISC, 0, dlci, 1)

    def write(self, dlci, data):
        st = self.open[dlci]
        st['txq'] += data
        self.flush(dlci)

    def flush(self, dlci):
        st = self.open.get(dlci)
        if st is None:
            return
        limit = max(1, min(st['peer_n1'], self.ch.peer_mtu - 5))
        while st['txq'] and st['credits'] > 0:
            chunk = bytes(st['txq'][:limit])
            del st['txq'][:limit]
            st['credits'] -= 1
            st['data_frames_sent'] += 1
            self.send(rr.UIH, 0, dlci, 0, chunk)

    # -- receiving ----------------------------------------------------------------------------------
    def on_pdu(self, pdu):
        f = rr.parse_frame(bytes(pdu))
        if f is None or f.problems or not f.fcs_ok:
            self.bad_frames += 1
            return
        self.seen.append((f.name, f.dlci))
        if f.dlci == 0:
            if f.type == rr.SABM:
                self.mux = 'CONNECTED'
                self.send(rr.UA, 1, 0, 1)
            elif f.type == rr.DISC:
                self.mux = 'DISCONNECTED'
                self.closed.extend(self.open.values())
                self.open.clear()
                self.send(rr.UA, 1, 0, 1)
            elif f.type == rr.UIH:
                m = rr.parse_mcc(f.payload)
                if m is None:
                    return
                if m.type == rr.MCC_PN and m.cr:
                    pn = rr.parse_pn(m.value)
                    if pn is not None:
                        self.on_pn(pn)
                elif m.type == rr.MCC_MSC and m.cr:
                    self.send(rr.UIH, 0, 0, 0, rr.make_mcc(rr.MCC_MSC, 0, m.value))
            return
        d = f.dlci
        if f.type == rr.SABM:
            self.on_sabm(d)
        elif f.type == rr.DISC:
            if d in self.open:
                self.closed.append(self.open.pop(d))
                self.send(rr.UA, 1, d, 1)
            else:
                self.send(rr.DM, 1, d, 1)
        elif f.type == rr.UIH:
            st = self.open.get(d)
            if st is None:
                self.r.ev('srefuse_data_frames_on_a_dlci_the_responder_holds_closed')
                return
            if f.credit is not None:
                st['credits'] += f.credit
            if f.payload:
                st['rx'] += f.payload
                st['data_frames_received'] += 1
                if len(f.payload) > self.my_n1 - (1 if f.credit is not None else 0):
                    st['oversize'] += 1
                st['granted'] += 1
                self.send(rr.UIH, 0, d, 1, b'', credit=1)
            self.flush(d)

    def on_pn(self, pn):
        d = pn.dlci
        pn_answer, sabm_answer = self.plan.pop(d, ('accept', 'ua'))

        def accept():
            self.pn[d] = pn
            self.stage[d] = sabm_answer
            self.send(rr.UIH, 0, 0, 0, rr.make_mcc(rr.MCC_PN, 0, rr.make_pn(d, min(pn.n1, self.my_n1), self.my_k,
                                                                                priority=pn.priority)))
        if pn_answer == 'accept':
            accept()
        elif pn_answer == 'dm':
            self.send(rr.DM, 1, d, 1)
        elif pn_answer == 'late-dm':
            self.later(20.0, lambda: self.send(rr.DM, 1, d, 1))

    def on_sabm(self, d):
        step = self.stage.pop(d, None)
        if d not in self.pn or step is None or d in self.open:
            self.send(rr.DM, 1, d, 1)
            return
        if step == 'ua':
            self.establish(d)
        elif step == 'dm':
            del self.pn[d]
            self.send(rr.DM, 1, d, 1)
        elif step == 'disc':
            del self.pn[d]
            self.send(rr.DISC, 0, d, 1)
        elif step == 'late-dm':
            del self.pn[d]
            self.later(20.0, lambda: self.send(rr.DM, 1, d, 1))
        elif step == 'late-ua':
            self.later(20.0, lambda: self.establish(d))
        elif step == 'ua-disc':
            self.establish(d)
            self.close(d)


async def srefuse(case, r: R):
    from bumble import l2cap
    rng = random.Random(case['seed'] ^ 0x5EF)
    idx = case['idx']
    name, pn_answer, sabm_answer = SREFUSE_SCRIPTS[idx % len(SREFUSE_SCRIPTS)]
    context = SREFUSE_CONTEXTS[(idx // len(SREFUSE_SCRIPTS)) % len(SREFUSE_CONTEXTS)]
    followup = SREFUSE_FOLLOWUPS[(idx // (len(SREFUSE_SCRIPTS) * len(SREFUSE_CONTEXTS))) % len(SREFUSE_FOLLOWUPS)]
    ending = rng.choice(['shutdown', 'mux-disconnect'])
    rg, ca, cb, geo = await make_rig(case, rng)
    cm, sm = rng.choice(L2_MTUS), rng.choice(L2_MTUS)
    my_n1, my_k = rng.choice(FRAME_SIZES), rng.randint(1, 7)
    responders = []
    rg.devices[1].create_l2cap_server(spec=l2cap.ClassicChannelSpec(psm=rr.RFCOMM_PSM, mtu=sm),
                                      handler=lambda ch: responders.append(ScriptedResponder(ch, my_n1, my_k, r)))
    from bumble import rfcomm
    client = rfcomm.Client(ca, l2cap_mtu=cm)
    detail = lambda: (f'scripted responder: {name} (PN answered {pn_answer}, SABM answered {sabm_answer}), {context}, then '      # noqa: E731
                      f'{followup}, ending {ending}; responder N1={my_n1} k={my_k}, L2CAP MTUs {cm}/{sm}; frames the responder '
                      f'saw: {resp.seen[-12:] if responders else None}')
    try:
        how, mux = await vloop.vwait(guarded(client.start()))
    except vloop.Hang:
        r.bad('rfcomm/setup/multiplexer-connect-hang/scripted-responder', f'Client.start pending at T_v; mtus {cm}/{sm}')
        return
    if how != 'ok' or not responders:
        r.bad('rfcomm/setup/multiplexer-connect-raised/scripted-responder', f'Client.start -> {how} {mux!r}; mtus {cm}/{sm}')
        return
    resp = responders[0]
    await rg.quiesce()
    chans = rng.sample(range(1, 31), 5)
    refused_ch, other_ch, live_ch, second_ch, closed_ch = chans
    sinks = {}                # DLCI -> bytearray of the initiator's DLC
    live = {}                 # DLCI -> initiator DLC the model holds open
    stale_reported = set()
    refused_dlcis = set()
    r.ev(f'srefuse_script_{name}')
    r.ev(f'srefuse_context_{context}')

    async def try_open(ch):
        n1, k = rng.choice(FRAME_SIZES), rng.randint(1, 7)
        try:
            how, val = await vloop.vwait(guarded(mux.open_dlc(ch, max_frame_size=n1, initial_credits=k)))
        except vloop.Hang:
            return 'hang', None
        await rg.quiesce()
        if how == 'ok':
            buf = bytearray()
            sinks[val.dlci] = buf
            val.sink = buf.extend
        return how, val

    def judge(after, suffix, tables=True):
        """the initiator against the responder's own ledger"""
        r.ev('srefuse_state_checks')
        r.ev('state_checks')
        r.ev('oracle_evals', 3)
        tab = table(mux)
        conn = {d for d, st in tab.items() if st == 'CONNECTED'}
        ok = True
        if not tables:
            # (after DISC on DLCI 0 only the multiplexer states are compared, as between two bumble ends)
            pass
        elif conn != set(resp.open):
            ok = False
            r.bad(f'state/open-set-differs-from-responder/{suffix}',
                  f'after {after}: the initiator lists {tab}, the responder holds DLCIs {sorted(resp.open)} open; {detail()}')
        elif set(tab) - set(resp.open) - stale_reported:
            ok = False
            for d in sorted(set(tab) - set(resp.open) - stale_reported):
                stale_reported.add(d)      # one report per left-over entry, under the step that left it
                where = f'refused-open/{SREFUSE_STAGE[name]}' if d in refused_dlcis else suffix
                r.bad(f'state/dlci-not-open-at-responder-in-table/scripted-responder/{where}',
                      f'after {after}: the initiator still lists DLCI {d} ({tab}), the responder holds only '
                      f'{sorted(resp.open)} open; {detail()}')
        want = 'CONNECTED' if resp.mux == 'CONNECTED' else 'DISCONNECTED'
        if mux.state.name != want:
            ok = False
            r.bad(f'state/multiplexer-not-{want.lower()}/{suffix}/initiator',
                  f'after {after} the initiator multiplexer is {mux.state.name}, the responder\'s is {resp.mux}; {detail()}')
        return ok

    async def exchange(suffix):
        for d in sorted(live):
            if d not in resp.open:
                continue
            cd, st = live[d], resp.open[d]
            n = rng.choice([1, 30, 700, 3000])
            a, b = make_data(d + 1, len(st['rx']), n), make_data(d + 101, len(sinks[d]), n)
            s0, c0 = len(st['rx']), len(sinks[d])
            cd.write(a)
            resp.write(d, b)

            async def w():
                while len(st['rx']) < s0 + n or len(sinks[d]) < c0 + n:
                    await asyncio.sleep(0.01)
            r.ev('stream_checks', 2)
            r.ev('srefuse_exchanges')
            r.ev('oracle_evals', 3)
            try:
                await vloop.vwait(w(), 60)
            except vloop.Hang:
                r.bad(f'rfcomm/progress/stalled/{suffix}',
                      f'{n} octets each way on DLCI {d}: {len(st["rx"]) - s0} reached the responder, {len(sinks[d]) - c0} the '
                      f'initiator (initiator tx_credits={cd.tx_credits}, responder credits={st["credits"]}); {detail()}')
                continue
            await rg.quiesce()
            if bytes(st['rx'][s0:]) != a or bytes(sinks[d][c0:]) != b:
                r.bad(f'rfcomm/stream/corrupt/{suffix}', f'exchange of {n} octets each way on DLCI {d} differs; {detail()}')
            if st['oversize']:
                r.bad(f'rfcomm/size/exceeds-peer-n1/{suffix}', f'{st["oversize"]} data frames above the responder\'s N1={my_n1}')
            ledger = st['granted'] - st['data_frames_received']
            if cd.tx_credits != ledger:
                r.bad('rfcomm/credit/counter-drift/opener/scripted-responder',
                      f'DLCI {d}: tx_credits={cd.tx_credits}, the responder granted {st["granted"]} (k={my_k} in its PN) and '
                      f'received {st["data_frames_received"]} data frames; {detail()}')

    async def open_accepted(ch, suffix):
        """open_dlc to a channel the responder accepts: must return a DLC the responder holds open too"""
        how, val = await try_open(ch)
        r.ev('oracle_evals')
        if how == 'hang':
            r.bad(f'rfcomm/setup/open-dlc-hang/{suffix}', f'open_dlc({ch}) to an accepting channel pending at T_v; {detail()}')
            return False
        if how == 'raised':
            r.bad(f'rfcomm/setup/open-dlc-raised/{suffix}',
                  f'open_dlc({ch}) to an accepting channel raised {type(val).__name__}: {val}; initiator multiplexer '
                  f'{mux.state.name}, DLCs {table(mux)}; {detail()}')
            return None
        live[val.dlci] = val
        return True

    async def close(d, by, suffix):
        cd = live.pop(d)
        if by == 'initiator':
            try:
                how, val = await vloop.vwait(guarded(cd.disconnect()))
            except vloop.Hang:
                r.bad(f'rfcomm/teardown/dlc-disconnect-hang/by-initiator/{suffix}', f'DLC.disconnect pending at T_v (DLCI {d}); {detail()}')
                return False
            if how == 'raised':
                r.bad(f'rfcomm/teardown/dlc-disconnect-raised/by-initiator/{suffix}', f'{type(val).__name__}: {val}; {detail()}')
        else:
            resp.close(d)
        await rg.quiesce()
        return True

    # ---- what happened before the refusal ---------------------------------------------------------
    if context in ('with-live-dlcs', 'after-a-close'):
        if await open_accepted(live_ch, f'scripted-responder/before-any-refusal') is not True:
            r.evals()
            return
        judge(f'opening channel {live_ch}', 'scripted-responder/before-any-refusal')
        await exchange('scripted-responder/before-any-refusal')
    if context == 'after-a-close':
        if await open_accepted(closed_ch, 'scripted-responder/before-any-refusal') is not True:
            r.evals()
            return
        by = rng.choice(['initiator', 'responder'])
        if not await close(closed_ch << 1, by, 'scripted-responder/before-any-refusal'):
            r.evals()
            return
        r.ev(f'srefuse_closes_by_{by}')
        judge(f'channel {closed_ch} closed by the {by}', f'scripted-responder/after-dlc-close/by-{by}/before-any-refusal')
    # ---- the refusal(s) ---------------------------------------------------------------------------
    rounds = [refused_ch] + ([second_ch] if context == 'twice-in-a-row' else [])
    for n_round, ch in enumerate(rounds):
        resp.plan[ch << 1] = (pn_answer, sabm_answer)
        if name != 'sabm-late-ua':
            refused_dlcis.add(ch << 1)
        how, val = await try_open(ch)
        r.ev('srefuse_scripted_answers')
        r.ev('oracle_evals', 2)
        if how == 'hang':
            r.bad(f'rfcomm/refusal/open-dlc-hang/scripted-responder/{name}',
                  f'open_dlc({ch}) still pending at T_v although the responder answered; initiator multiplexer '
                  f'{mux.state.name}, DLCs {table(mux)}; {detail()}')
            r.evals()
            return
        r.ev(f'srefuse_outcome_{how}')
        if name in SREFUSE_ENDS_REFUSED:
            r.ev('srefuse_refusals')
            r.ev('srefuse_refusals_after_accepted_pn' if pn_answer == 'accept' else 'srefuse_refusals_at_pn')
            if how == 'ok':
                r.bad(f'rfcomm/refusal/open-succeeded-although-refused/scripted-responder/{name}',
                      f'open_dlc({ch}) returned {val}; {detail()}')
            else:
                r.ev(f'refusal_raised_{type(val).__name__}')
        elif name == 'sabm-late-ua':
            r.ev('srefuse_late_acceptances')
            if how != 'ok':
                r.bad(f'rfcomm/setup/open-dlc-raised/scripted-responder/{name}',
                      f'open_dlc({ch}) answered UA after 20 s raised {type(val).__name__}: {val}; {detail()}')
            else:
                live[val.dlci] = val
        else:
            # UA, then DISC at once: a returned DLC or an error are both an end; the link is closed at the responder
            r.ev('srefuse_ua_then_disc')
        judge(f'open_dlc({ch}) -> {how} ({val!r})', f'scripted-responder/{name}')
        await exchange(f'scripted-responder/after-{name}')
    # ---- the multiplexer is still usable ------------------------------------------------------------
    opened = 0
    targets = {'open-other-channel': [other_ch], 'reopen-refused-channel': [refused_ch], 'both': [other_ch, refused_ch]}[followup]
    for ch in targets:
        if (ch << 1) in live:
            if not await close(ch << 1, 'initiator', f'scripted-responder/after-{name}'):
                break
            judge(f'closing channel {ch}', f'scripted-responder/after-dlc-close/by-initiator/after-{name}')
        kind = 'reopen-refused-channel' if ch == refused_ch else 'open-other-channel'
        refused_dlcis.discard(ch << 1)
        stale_reported.discard(ch << 1)
        res = await open_accepted(ch, f'scripted-responder/{kind}/after-{name}')
        r.ev('srefuse_opens_after_scripted_answer')
        if res is False:
            r.evals()
            return
        if res:
            opened += 1
        judge(f'open_dlc({ch}) after the scripted answer', f'scripted-responder/{kind}/after-{name}')
        await exchange(f'scripted-responder/{kind}/after-{name}')
    if live and rng.random() < 0.7:
        d = rng.choice(sorted(live))
        by = rng.choice(['initiator', 'responder'])
        r.ev(f'srefuse_closes_by_{by}')
        if await close(d, by, f'scripted-responder/after-{name}'):
            judge(f'DLCI {d} closed by the {by}', f'scripted-responder/after-dlc-close/by-{by}/after-{name}')
            await exchange(f'scripted-responder/after-dlc-close/by-{by}/after-{name}')
    # the initiator's frames against the wire oracle (FCS, sizes, credit ledger from the scripted PN)
    view = rr.analyze(rg.boundary_log, 0, r)
    if len(view.channels) != 1:
        r.bad('harness/rfcomm-channel-not-found', f'dev0: RFCOMM L2CAP channels seen on the wire: {view.channels}')
    if resp.bad_frames:
        r.bad('rfcomm/frame/malformed/scripted-responder', f'{resp.bad_frames} frames of the initiator did not parse; {detail()}')
    # ---- ending -------------------------------------------------------------------------------------
    r.ev('oracle_evals')
    try:
        how, val = await vloop.vwait(guarded(mux.disconnect() if ending == 'mux-disconnect' else client.shutdown()))
        if how == 'raised':
            r.bad(f'rfcomm/teardown/{ending}-raised/scripted-responder/after-{name}', f'{type(val).__name__}: {val}; {detail()}')
        await rg.quiesce()
        judge(ending, f'scripted-responder/after-{ending}/after-{name}', tables=False)
        if ending == 'mux-disconnect':
            await vloop.vwait(guarded(client.shutdown()))
            await rg.quiesce()
    except vloop.Hang:
        r.bad(f'rfcomm/teardown/{ending}-hang/scripted-responder/after-{name}', f'{ending} pending at T_v; {detail()}')
    for where, e in rg.exceptions:
        r.bad('rfcomm/exception-in-stack/scripted-responder', f'{where}: {e}; {detail()}')
    r.sig('srefuse', name, context, followup, ending)
    r.sched.add(rg.schedule_signature)
    r.evals()
    r.sample = {'kind': 'srefuse', 'script': name, 'pn_answer': pn_answer, 'sabm_answer': sabm_answer, 'context': context,
                'followup': followup, 'ending': ending, 'responder_n1_k': [my_n1, my_k], 'frames_seen_by_responder': len(resp.seen),
                'opened_after': opened, **geo}


# =============================================================================
# HFP: tables written down from the Hands-Free Profile (not taken from bumble.hfp)
# =============================================================================
HF_BITS = {'EC_NR': 0x001, 'THREE_WAY': 0x002, 'CLI': 0x004, 'VR': 0x008, 'VOLUME': 0x010, 'ECS': 0x020, 'ECC': 0x040,
           'CODEC': 0x080, 'HF_IND': 0x100, 'ESCO_S4': 0x200, 'EVRS': 0x400, 'VR_TEXT': 0x800}
AG_BITS = {'THREE_WAY': 0x001, 'EC_NR': 0x002, 'VR': 0x004, 'INBAND': 0x008, 'VOICE_TAG': 0x010, 'REJECT': 0x020,
           'ECS': 0x040, 'ECC': 0x080, 'EXT_ERR': 0x100, 'CODEC': 0x200, 'HF_IND': 0x400, 'ESCO_S4': 0x800,
           'EVRS': 0x1000, 'VR_TEXT': 0x2000}
AG_INDICATORS = ['service', 'call', 'callsetup', 'callheld', 'signal', 'roam', 'battchg']
IND_RANGES = {'service': [0, 1], 'call': [0, 1], 'callsetup': [0, 1, 2, 3], 'callheld': [0, 1, 2],
              'signal': [0, 1, 2, 3, 4, 5], 'roam': [0, 1], 'battchg': [0, 1, 2, 3, 4, 5]}
CHLD_OPS = ['0', '1', '1x', '2', '2x', '3', '4']
FINAL_CODES = ('OK', 'ERROR', 'NO CARRIER', 'BUSY', 'NO ANSWER', 'DELAYED', 'BLACKLISTED')


async def guarded(aw):
    """Exceptions of the awaited call (asyncio.TimeoutError included) come back as values, so that
    vwait's own expiry is the only thing that reads as a hang."""
    try:
        return 'ok', await aw
    except Exception as e:      # noqa: BLE001 — the code under test decides what it raises
        return 'raised', e


def is_final(text: str) -> bool:
    t = text.strip()
    return t in FINAL_CODES or t.startswith('+CME ERROR')


class AtMonitor:
    """Order-preserving record of what crossed the AG's DLC: command lines completed by the
    bytes handed to the AG, result lines in the bytes the AG wrote."""

    def __init__(self):
        self.events = []          # ('cmd', [lines]) | ('rsp', text)
        self.rxbuf = bytearray()
        self.txbuf = bytearray()

    def rx(self, data):
        self.rxbuf += data
        lines = []
        while (i := self.rxbuf.find(b'\r')) >= 0:
            line = bytes(self.rxbuf[:i])
            del self.rxbuf[:i + 1]
            if line.strip():
                lines.append(line.decode('utf-8', 'replace'))
        if lines:
            self.events.append(('cmd', lines))

    def tx(self, data):
        if isinstance(data, str):
            data = data.encode()
        self.txbuf += data
        while True:
            h = self.txbuf.find(b'\r\n')
            if h < 0:
                return
            t = self.txbuf.find(b'\r\n', h + 2)
            if t < 0:
                return
            self.events.append(('rsp', bytes(self.txbuf[h + 2:t]).decode('utf-8', 'replace')))
            del self.txbuf[:t + 2]

    def groups(self):
        """[(command lines, [result lines until the next command group])]"""
        out = []
        for kind, v in self.events:
            if kind == 'cmd':
                out.append((v, []))
            elif out:
                out[-1][1].append(v)
            else:
                out.append(([], [v]))
        return out


def tap_ag(ag, mon: AtMonitor):
    dlc = ag.dlc
    inner_sink = dlc.sink
    inner_write = dlc.write

    def sink(data):
        mon.rx(bytes(data))
        inner_sink(data)

    def write(data):
        mon.tx(data)
        inner_write(data)

    dlc.sink = sink
    dlc.write = write


def subset(rng, names, style=None):
    style = style or rng.choice(['none', 'all', 'random', 'random', 'one'])
    if style == 'none':
        return []
    if style == 'all':
        return list(names)
    if style == 'one':
        return [rng.choice(names)]
    return [n for n in names if rng.random() < 0.5]


def gen_hfp(rng, idx):
    bits = idx % 64
    hf_codec, ag_codec, hf_3w, ag_3w, hf_ind, ag_ind = [(bits >> i) & 1 for i in range(6)]
    hf_names = subset(rng, [n for n in HF_BITS if n not in ('CODEC', 'THREE_WAY', 'HF_IND')])
    ag_names = subset(rng, [n for n in AG_BITS if n not in ('CODEC', 'THREE_WAY', 'HF_IND')])
    hf_names += [n for n, b in (('CODEC', hf_codec), ('THREE_WAY', hf_3w), ('HF_IND', hf_ind)) if b]
    ag_names += [n for n, b in (('CODEC', ag_codec), ('THREE_WAY', ag_3w), ('HF_IND', ag_ind)) if b]
    rng.shuffle(hf_names)
    rng.shuffle(ag_names)
    style = rng.choice(['one', 'all', 'all', 'random', 'shuffled'])
    if style == 'one':
        inds = [rng.choice(AG_INDICATORS)]
    elif style == 'all':
        inds = list(AG_INDICATORS)
    else:
        inds = [n for n in AG_INDICATORS if rng.random() < 0.6] or ['call']
        if style == 'shuffled':
            rng.shuffle(inds)
    ind_specs = []
    for n in inds:
        vs = rng.choice(['std', 'std', 'sparse', 'single', 'offset', 'one-gap', 'one-gap-b', 'one-gap-c'])
        values = {'std': IND_RANGES[n], 'sparse': [0, 2, 5], 'single': [rng.choice([0, 1, 3])],
                  'offset': [1, 2, 3], 'one-gap': [0, 1, 3], 'one-gap-b': [0, 2], 'one-gap-c': [1, 2, 4, 5]}[vs]
        ind_specs.append((n, sorted(values), rng.choice(values)))
    hfi = rng.choice([[], [1], [2], [1, 2], [2, 1]])
    agi = rng.choice([[], [1], [2], [1, 2], [2, 1]])
    codecs = rng.choice([[], [1], [2], [1, 2], [1, 2, 3], [2, 1]])
    ag_codecs = rng.choice([[], [1], [1, 2], [1, 2, 3]])
    chld = rng.choice([[], ['1'], ['2'], list(CHLD_OPS), ['1', '2'], subset(rng, CHLD_OPS, 'random'),
                       list(reversed(CHLD_OPS))])
    return {'hf_features': hf_names, 'ag_features': ag_names, 'ag_indicators': ind_specs, 'hf_indicators': hfi,
            'ag_hf_indicators': agi, 'hf_codecs': codecs, 'ag_codecs': ag_codecs, 'chld': chld}


def build_hfp_configs(cfg):
    from bumble import hfp
    hf_conf = hfp.HfConfiguration(
        supported_hf_features=[hfp.HfFeature(HF_BITS[n]) for n in cfg['hf_features']],
        supported_hf_indicators=[hfp.HfIndicator(i) for i in cfg['hf_indicators']],
        supported_audio_codecs=[hfp.AudioCodec(c) for c in cfg['hf_codecs']])
    ag_conf = hfp.AgConfiguration(
        supported_ag_features=[hfp.AgFeature(AG_BITS[n]) for n in cfg['ag_features']],
        supported_ag_indicators=[hfp.AgIndicatorState(indicator=hfp.AgIndicator(n), supported_values=set(v),
                                                      current_status=cur) for n, v, cur in cfg['ag_indicators']],
        supported_hf_indicators=[hfp.HfIndicator(i) for i in cfg['ag_hf_indicators']],
        supported_ag_call_hold_operations=[hfp.CallHoldOperation(o) for o in cfg['chld']],
        supported_audio_codecs=[hfp.AudioCodec(c) for c in cfg['ag_codecs']])
    return hf_conf, ag_conf


async def hfp_link(case, rng, r):
    """rig + RFCOMM DLC pair with random link parameters; returns (rg, session, client dlc, server dlc, info)."""
    rg, ca, cb, geo = await make_rig(case, rng)
    cm, sm = rng.choice(L2_MTUS), rng.choice(L2_MTUS)
    s = Session(rg, ca, cm, sm)
    p = (rng.choice(FRAME_SIZES), rng.randint(1, 7), rng.choice(FRAME_SIZES), rng.randint(1, 7))
    ch = rng.randint(1, 30)
    s.listen(ch, p[2], p[3])
    await s.start()
    cd, sd = await s.open(ch, p[0], p[1])
    return rg, s, cd, sd, {'l2cap_mtu': (cm, sm), 'n1c_kc_n1s_ks': p, **geo}


# commands the HF sends once the SLC is up: (line, refused?) — 'refused' is what the Hands-Free Profile / 3GPP 27.007
# say about the line itself (unknown command, operation or index out of every range), not what bumble answers
AFTER_SLC_REFUSED = ['AT+XQZV=1', 'AT+CHLD=7', 'AT+CHLD=9', 'AT+BIEV=9,1', 'AT+QWERTY', 'AT+CHLD=18']
AFTER_SLC_ACCEPTED = ['AT+CHUP', 'AT+VGS=7', 'AT+CLCC', 'AT+CMEE=1', 'AT+VGM=3', 'ATA', 'AT+CMEE=0', 'AT+CCWA=1', 'AT+CLIP=1',
                      'AT+BVRA=0']


async def after_slc_commands(r: R, rng, rg, hf, ag, mon: AtMonitor, detail: str):
    """Error final codes followed by the next command on the SAME HfProtocol / AgProtocol pair: a refused command
    raises at the HF and leaves nothing behind; the command after it gets its own answer."""
    n = rng.randint(3, 6)
    script = []
    for i in range(n):
        refused = (i % 2 == 0) if rng.random() < 0.7 else rng.random() < 0.5
        script.append((rng.choice(AFTER_SLC_REFUSED if refused else AFTER_SLC_ACCEPTED), refused))
    script.append((rng.choice(AFTER_SLC_ACCEPTED), False))
    prev = 'slc'
    unsolicited0 = hf.unsolicited_queue.qsize()
    for line, refused in script:
        g0 = len(mon.groups())
        r.ev('hf_commands_after_slc')
        r.ev('hf_commands_after_refusal' if prev == 'refused' else 'hf_commands_after_ok')
        r.ev('oracle_evals', 2)
        cls = 'refused-command' if refused else 'accepted-command'
        try:
            how, val = await vloop.vwait(guarded(hf.execute_command(line)))
        except vloop.Hang:
            r.bad(f'at/hf-command-hang/{cls}/after-{prev}', f'HfProtocol.execute_command({line!r}) pending at T_v; {detail}')
            return
        await rg.quiesce()
        answered = [t for g in mon.groups()[g0:] for t in g[1]]
        what = 'ok' if how == 'ok' else type(val).__name__
        if how == 'raised' and isinstance(val, asyncio.TimeoutError):
            r.bad(f'at/hf-command-unanswered/{cls}/after-{prev}',
                  f'execute_command({line!r}) timed out; the AG wrote {answered} for it; {detail}')
        elif refused and how == 'ok':
            r.bad(f'at/refused-command-reported-ok/after-{prev}',
                  f'execute_command({line!r}) returned normally; the AG wrote {answered}; {detail}')
        elif not refused and how == 'raised':
            r.bad(f'at/accepted-command-raised/after-{prev}',
                  f'execute_command({line!r}) raised {what}: {val}; the AG wrote {answered} (previous command was {prev}); '
                  f'{detail}')
        if hf.pending_command is not None or not hf.response_queue.empty() or hf.unsolicited_queue.qsize() != unsolicited0:
            r.bad(f'at/hf-state-left-behind/after-{cls}',
                  f'after execute_command({line!r}) -> {what}: pending_command={hf.pending_command!r}, '
                  f'{hf.response_queue.qsize()} result codes left in the response queue, '
                  f'{hf.unsolicited_queue.qsize() - unsolicited0} put in the unsolicited queue (the AG sent nothing '
                  f'unsolicited); {detail}')
        prev = 'refused' if refused else 'ok'
    # two tasks use the same HfProtocol at once (an application command while the run loop answers the gateway):
    # the commands are serialised by the protocol, each gets its own final result code
    if rng.random() < 0.6:
        lines = rng.sample(AFTER_SLC_ACCEPTED, 2) + ([rng.choice(AFTER_SLC_REFUSED)] if rng.random() < 0.4 else [])
        rng.shuffle(lines)
        g0 = len(mon.groups())
        r.ev('hf_concurrent_command_groups')
        r.ev('oracle_evals')
        try:
            res = await vloop.vwait(asyncio.gather(*[guarded(hf.execute_command(line)) for line in lines]))
        except vloop.Hang:
            r.bad('at/hf-command-hang/concurrent', f'{len(lines)} overlapping execute_command calls {lines}: pending at T_v; {detail}')
            return
        await rg.quiesce()
        answered = [t for g in mon.groups()[g0:] for t in g[1]]
        for line, (how, val) in zip(lines, res):
            refused = line in AFTER_SLC_REFUSED
            if how == 'raised' and isinstance(val, asyncio.TimeoutError):
                r.bad('at/hf-command-unanswered/concurrent',
                      f'of the overlapping calls {lines}, execute_command({line!r}) timed out; the AG wrote {answered}; {detail}')
            elif refused != (how == 'raised'):
                r.bad('at/hf-command-wrong-outcome/concurrent',
                      f'of the overlapping calls {lines}, execute_command({line!r}) -> {how} {val!r}; the AG wrote {answered}; {detail}')
        if hf.pending_command is not None or not hf.response_queue.empty():
            r.bad('at/hf-state-left-behind/after-concurrent-commands',
                  f'after the overlapping calls {lines}: pending_command={hf.pending_command!r}, '
                  f'{hf.response_queue.qsize()} result codes left in the response queue; {detail}')


async def slc(case, r: R):
    from bumble import hfp
    rng = random.Random(case['seed'] ^ 0x51C)
    cfg = gen_hfp(rng, case['idx'])
    rg, s, cd, sd, info = await hfp_link(case, rng, r)
    hf_conf, ag_conf = build_hfp_configs(cfg)
    hf_on_client = rng.random() < 0.6
    hf = hfp.HfProtocol(cd if hf_on_client else sd, hf_conf)
    ag = hfp.AgProtocol(sd if hf_on_client else cd, ag_conf)
    mon = AtMonitor()
    tap_ag(ag, mon)
    slc_events = []
    ag.on('slc_complete', lambda: slc_events.append(1))
    exp_hf = sum(HF_BITS[n] for n in cfg['hf_features'])
    exp_ag = sum(AG_BITS[n] for n in cfg['ag_features'])
    both = lambda n: n in cfg['hf_features'] and n in cfg['ag_features']      # noqa: E731
    tag = ''.join(k for k, n in (('c', 'CODEC'), ('t', 'THREE_WAY'), ('i', 'HF_IND')) if both(n)) or '-'
    r.ev('slc_runs')
    r.ev(f'slc_branch_{tag}')
    outcome = 'ok'
    try:
        how, val = await vloop.vwait(guarded(hf.initiate_slc()))
    except vloop.Hang:
        r.bad('slc/hang', f'initiate_slc pending at T_v; cfg={cfg}')
        return
    if how == 'raised':
        outcome = f'{type(val).__name__}: {val}'
    await rg.quiesce()
    detail = f'cfg={cfg} link={info} hf_on_client={hf_on_client}'
    r.ev('oracle_evals')
    if outcome != 'ok':
        last = [x for g in mon.groups() for x in g[0]][-1:] or ['?']
        why = []
        if last == ['AT+CHLD=?'] and not cfg['chld'] and outcome.startswith('ValueError'):
            why.append('empty-call-hold-set')
        if last == ['AT+BIND=?'] and not cfg['ag_hf_indicators'] and outcome.startswith('ValueError'):
            why.append('empty-ag-hf-indicator-list')
        r.bad('slc/raised/' + ('+'.join(why) if why else 'other'),
              f'initiate_slc raised {outcome} (last command the AG saw: {last}); {detail}')
    else:
        def agree(cond, key, text):
            r.ev('slc_agreement_checks')
            r.ev('oracle_evals')
            if not cond:
                r.bad(key, f'{text}; {detail}')
        agree(hf.supported_ag_features == exp_ag and ag.supported_ag_features == exp_ag, 'slc/disagree/ag-features',
              f'AG feature word: configured {exp_ag:#x}, AG {ag.supported_ag_features:#x}, HF learnt {hf.supported_ag_features:#x}')
        agree(hf.supported_hf_features == exp_hf and ag.supported_hf_features == exp_hf, 'slc/disagree/hf-features',
              f'HF feature word: configured {exp_hf:#x}, HF {hf.supported_hf_features:#x}, AG learnt {ag.supported_hf_features:#x}')
        names = [n for n, _v, _c in cfg['ag_indicators']]
        agree([x.indicator.value for x in hf.ag_indicators] == names and
              [x.indicator.value for x in ag.ag_indicators] == names, 'slc/disagree/ag-indicator-list',
              f'AG indicators configured {names}, HF holds {[x.indicator.value for x in hf.ag_indicators]}')
        if [x.indicator.value for x in hf.ag_indicators] == names:
            cur = [c for _n, _v, c in cfg['ag_indicators']]
            agree([x.current_status for x in hf.ag_indicators] == cur and
                  [x.current_status for x in ag.ag_indicators] == cur, 'slc/disagree/ag-indicator-values',
                  f'AG indicator values configured {cur}, HF holds {[x.current_status for x in hf.ag_indicators]}')
            sv = [set(v) for _n, v, _c in cfg['ag_indicators']]
            hsv = [x.supported_values for x in hf.ag_indicators]
            agree(hsv == sv, 'slc/disagree/ag-indicator-supported-values',
                  f'supported values announced in +CIND=? are {sv}, HF recorded {hsv} '
                  f'(index fields {[x.index for x in hf.ag_indicators]})')
        exp_ind = ([i for i in cfg['ag_hf_indicators'] if i in cfg['hf_indicators']] if both('HF_IND') else [])
        ag_ind = sorted(int(i) for i in ag.hf_indicators)
        hf_enabled = sorted(int(i) for i, st in hf.hf_indicators.items() if st.enabled)
        agree(ag_ind == sorted(exp_ind) and hf_enabled == sorted(exp_ind), 'slc/disagree/hf-indicator-set',
              f'HF indicators in force: expected {sorted(exp_ind)}, AG holds {ag_ind}, HF holds enabled {hf_enabled}')
        if both('HF_IND'):
            hf_sup = sorted(int(i) for i, st in hf.hf_indicators.items() if st.supported)
            agree(hf_sup == sorted(exp_ind), 'slc/disagree/hf-indicator-supported',
                  f'HF indicators the AG supports among the HF ones: expected {sorted(exp_ind)}, HF marked {hf_sup}')
        if both('CODEC'):
            agree([int(c) for c in ag.supported_audio_codecs] == cfg['hf_codecs'], 'slc/disagree/codec-list',
                  f'HF codecs {cfg["hf_codecs"]}, AG learnt {[int(c) for c in ag.supported_audio_codecs]}')
        else:
            agree([int(c) for c in ag.supported_audio_codecs] == [], 'slc/disagree/codec-list/not-negotiated',
                  f'no codec negotiation, yet the AG holds HF codecs {[int(c) for c in ag.supported_audio_codecs]}')
        exp_chld = cfg['chld'] if both('THREE_WAY') else []
        agree([o.value for o in hf.supported_ag_call_hold_operations] == exp_chld, 'slc/disagree/call-hold',
              f'call hold operations: expected {exp_chld}, HF learnt {[o.value for o in hf.supported_ag_call_hold_operations]}')
        r.ev('ag_slc_complete_emitted_%s' % ('once' if len(slc_events) == 1 else 'never' if not slc_events else 'repeatedly'))
        # the HF took the service-level connection for complete: so must the AG, once
        agree(len(slc_events) == 1 and not getattr(ag, '_remained_slc_setup_features', None),
              'slc/disagree/completion/' + ('ag-never-complete' if not slc_events else
                                            'ag-complete-repeatedly' if len(slc_events) > 1 else 'ag-still-waits-for-a-step'),
              f'initiate_slc() returned at the HF; the AG emitted slc_complete {len(slc_events)} times and still waits for '
              f'{sorted(getattr(f, "name", str(f)) for f in (getattr(ag, "_remained_slc_setup_features", None) or []))}')
    if outcome == 'ok':
        await after_slc_commands(r, rng, rg, hf, ag, mon, detail)
    # one final result code per command line on the AG's DLC
    for lines, rsps in mon.groups():
        n = sum(1 for t in rsps if is_final(t))
        r.ev('at_lines_checked', len(lines))
        r.ev('oracle_evals')
        if n != len(lines):
            cmd = lines[0].split('=')[0].split('?')[0] if lines else '(none)'
            r.bad(f'at/final-codes/{"none" if n == 0 else "multiple" if n > len(lines) else "too-few"}/slc/{cmd}',
                  f'AG answered {lines} with {rsps}; {detail}')
    for where, e in rg.exceptions:
        r.bad('slc/exception-in-stack', f'{where}: {e}; {detail}')
    wire_and_counters(r, rg, [(cd, sd)], 'after SLC')
    r.sig('slc', repr(cfg))
    r.sched.add(rg.schedule_signature)
    r.evals()
    r.sample = {'kind': 'slc', 'cfg': cfg, 'link': info, 'outcome': outcome[:80],
                'at': [(g[0], g[1]) for g in mon.groups()][:4]}


# =============================================================================
# kind 'slcrep': the SLC set-up REPEATED on the same HfProtocol / AgProtocol objects
# =============================================================================
# An application retries a set-up that failed (HfProtocol.run() does: it calls initiate_slc() again as long as the SLC
# is not initialised), and it may run it again after a completed one.  For every k, the k-th command of the procedure is
# lost once (the command never reaches the gateway, or the gateway's whole answer to it is lost) so that the first
# attempt ends in the HF's time-out after k-1 completed steps; the next attempt on the SAME objects must complete with
# both sides holding what the configurations imply - the indicator list with its names, order, count and values, feature
# words, call-hold list, HF indicators - exactly as after a first set-up, and +CIEV updates the gateway sends through its
# API afterwards must land on the indicator they name.
def slc_sequence(cfg):
    """The commands of HFP 4.2.1 for this pair of configurations (written here from the profile)."""
    both = lambda n: n in cfg['hf_features'] and n in cfg['ag_features']      # noqa: E731
    return (['AT+BRSF='] + (['AT+BAC='] if both('CODEC') else []) + ['AT+CIND=?', 'AT+CIND?', 'AT+CMER='] +
            (['AT+CHLD=?'] if both('THREE_WAY') else []) + (['AT+BIND=', 'AT+BIND=?', 'AT+BIND?'] if both('HF_IND') else []))


def slc_agreement(r: R, cfg, hf, ag, cur, suffix, detail):
    """Both ends against the configurations (the oracle of the 'slc' kind) with the indicator values of the ledger `cur`;
    every key carries `suffix`."""
    exp_hf = sum(HF_BITS[n] for n in cfg['hf_features'])
    exp_ag = sum(AG_BITS[n] for n in cfg['ag_features'])
    both = lambda n: n in cfg['hf_features'] and n in cfg['ag_features']      # noqa: E731

    def agree(cond, key, text):
        r.ev('slc_agreement_checks')
        r.ev('slcrep_agreement_checks')
        r.ev('oracle_evals')
        if not cond:
            r.bad(key + suffix, f'{text}; {detail}')
    agree(hf.supported_ag_features == exp_ag and ag.supported_ag_features == exp_ag, 'slc/disagree/ag-features',
          f'AG feature word: configured {exp_ag:#x}, AG {ag.supported_ag_features:#x}, HF learnt {hf.supported_ag_features:#x}')
    agree(hf.supported_hf_features == exp_hf and ag.supported_hf_features == exp_hf, 'slc/disagree/hf-features',
          f'HF feature word: configured {exp_hf:#x}, HF {hf.supported_hf_features:#x}, AG learnt {ag.supported_hf_features:#x}')
    names = [n for n, _v, _c in cfg['ag_indicators']]
    hf_names = [x.indicator.value for x in hf.ag_indicators]
    agree(hf_names == names and [x.indicator.value for x in ag.ag_indicators] == names, 'slc/disagree/ag-indicator-list',
          f'AG indicators configured {names} ({len(names)}), HF holds {hf_names} ({len(hf_names)})')
    if hf_names == names:
        agree([x.current_status for x in hf.ag_indicators] == cur and [x.current_status for x in ag.ag_indicators] == cur,
              'slc/disagree/ag-indicator-values',
              f'AG indicator values by the ledger {cur}, AG holds {[x.current_status for x in ag.ag_indicators]}, HF holds '
              f'{[x.current_status for x in hf.ag_indicators]}')
        sv = [set(v) for _n, v, _c in cfg['ag_indicators']]
        hsv = [x.supported_values for x in hf.ag_indicators]
        agree(hsv == sv, 'slc/disagree/ag-indicator-supported-values', f'supported values announced {sv}, HF recorded {hsv}')
    exp_ind = ([i for i in cfg['ag_hf_indicators'] if i in cfg['hf_indicators']] if both('HF_IND') else [])
    ag_ind = sorted(int(i) for i in ag.hf_indicators)
    hf_enabled = sorted(int(i) for i, st in hf.hf_indicators.items() if st.enabled)
    agree(ag_ind == sorted(exp_ind) and hf_enabled == sorted(exp_ind), 'slc/disagree/hf-indicator-set',
          f'HF indicators in force: expected {sorted(exp_ind)}, AG holds {ag_ind}, HF holds enabled {hf_enabled}')
    agree(sorted(int(i) for i in hf.hf_indicators) == sorted(cfg['hf_indicators']), 'slc/disagree/hf-indicator-table',
          f'the HF was configured with HF indicators {cfg["hf_indicators"]}, it holds {[int(i) for i in hf.hf_indicators]}')
    if both('HF_IND'):
        hf_sup = sorted(int(i) for i, st in hf.hf_indicators.items() if st.supported)
        agree(hf_sup == sorted(exp_ind), 'slc/disagree/hf-indicator-supported',
              f'HF indicators the AG supports among the HF ones: expected {sorted(exp_ind)}, HF marked {hf_sup}')
    if both('CODEC'):
        agree([int(c) for c in ag.supported_audio_codecs] == cfg['hf_codecs'], 'slc/disagree/codec-list',
              f'HF codecs {cfg["hf_codecs"]}, AG learnt {[int(c) for c in ag.supported_audio_codecs]}')
    exp_chld = cfg['chld'] if both('THREE_WAY') else []
    agree([o.value for o in hf.supported_ag_call_hold_operations] == exp_chld, 'slc/disagree/call-hold',
          f'call hold operations: expected {exp_chld}, HF learnt {[o.value for o in hf.supported_ag_call_hold_operations]}')


async def slcrep(case, r: R):
    from bumble import hfp
    rng = random.Random(case['seed'] ^ 0x5C2)
    idx = case['idx']
    # the six branch bits: all on in two cases of three (the longest procedure), else walked
    cfg = gen_hfp(rng, 63 if idx % 3 else (idx // 3) % 64)
    seq = slc_sequence(cfg)
    k = (idx // 3) % (len(seq) + 1) if idx % 3 else rng.randrange(len(seq) + 1)
    how_lost = 'command-lost' if (idx // 2) % 2 else 'answer-lost'
    first = 'completed-slc' if k == len(seq) else 'failed-attempt'
    rg, s, cd, sd, info = await hfp_link(case, rng, r)
    hf_conf, ag_conf = build_hfp_configs(cfg)
    hf_on_client = rng.random() < 0.6
    hf = hfp.HfProtocol(cd if hf_on_client else sd, hf_conf)
    ag = hfp.AgProtocol(sd if hf_on_client else cd, ag_conf)
    agd = ag.dlc
    inner_sink, inner_write = agd.sink, agd.write
    tap = {'n': 0, 'drop': k if k < len(seq) else None, 'swallow': False, 'dropped': None, 'buf': bytearray(), 'lines': []}

    def sink(data):
        tap['buf'] += data
        while (i := tap['buf'].find(b'\r')) >= 0:
            line = bytes(tap['buf'][:i + 1])
            del tap['buf'][:i + 1]
            n = tap['n']
            tap['n'] += 1
            tap['lines'].append(line.decode('utf-8', 'replace').strip())
            if n == tap['drop']:
                tap['dropped'] = tap['lines'][-1]
                if how_lost == 'command-lost':
                    continue
                tap['swallow'] = True
                try:
                    inner_sink(line)
                finally:
                    tap['swallow'] = False
                continue
            inner_sink(line)

    def write(data):
        if tap['swallow']:
            return
        inner_write(data)

    agd.sink = sink
    agd.write = write
    cur = [c for _n, _v, c in cfg['ag_indicators']]        # ledger of the indicator values, kept here
    detail = lambda: (f'cfg={cfg} link={info} hf_on_client={hf_on_client}; first attempt: '      # noqa: E731
                      f'{"completed" if k == len(seq) else how_lost + " at command #" + str(k + 1) + " " + repr(tap["dropped"])}'
                      f'; command lines the AG side received: {tap["lines"]}')
    r.ev('slcrep_runs')
    r.ev('slc_runs')

    async def attempt(label, suffix):
        """('ok' | 'raised' | 'hang', value)"""
        try:
            how, val = await vloop.vwait(guarded(hf.initiate_slc()))
        except vloop.Hang:
            r.bad(f'slc/hang{suffix}', f'{label}: initiate_slc pending at T_v; {detail()}')
            return 'hang', None
        await rg.quiesce()
        return how, val

    def ag_update(n_updates):
        """indicator updates through the gateway's API; the ledger follows"""
        for _ in range(n_updates):
            j = rng.randrange(len(cur))
            name, values, _c = cfg['ag_indicators'][j]
            v = rng.choice(values)
            ag.update_ag_indicator(hfp.AgIndicator(name), v)
            cur[j] = v
            r.ev('slcrep_ciev_updates')

    # ---- first attempt ------------------------------------------------------------------------------
    how, val = await attempt('first attempt', f'/first-attempt/{how_lost}' if k < len(seq) else '')
    if how == 'hang':
        r.evals()
        return
    if k < len(seq):
        stem = seq[k]
        r.ev(f'slcrep_lost_{stem}')
        r.ev(f'slcrep_{how_lost}')
        if how == 'ok' or tap['dropped'] is None or not tap['dropped'].startswith(stem):
            # the procedure did not reach or did not need the command that was to be lost: nothing to retry
            r.ev('slcrep_first_attempt_not_as_planned')
            r.add_extra_list('slcrep_not_as_planned', f'{stem}: {how} dropped={tap["dropped"]!r}')
        else:
            r.ev('slcrep_first_attempts_failed')
            r.ev(f'slcrep_first_attempt_raised_{type(val).__name__}')
    elif how != 'ok':
        r.bad('slc/raised/other', f'first attempt, nothing lost: initiate_slc raised {type(val).__name__}: {val}; {detail()}')
        r.evals()
        return
    tap['drop'] = None
    if rng.random() < 0.5:
        ag_update(rng.randint(1, 3))       # the gateway's indicators move between the attempts
        await rg.quiesce()
    # ---- the set-up again, on the same objects --------------------------------------------------------
    reruns = [first] + (['completed-slc'] if rng.random() < 0.6 else [])
    for after in reruns:
        suffix = f'/repeat/after-{after}'
        r.ev('slcrep_retries_after_failed_attempt' if after == 'failed-attempt' else 'slcrep_reruns_after_completed_slc')
        r.ev('oracle_evals')
        how, val = await attempt(f'set-up run again after a {after}', suffix)
        if how == 'hang':
            r.evals()
            return
        if how == 'raised':
            r.bad(f'slc/raised{suffix}', f'initiate_slc run again after a {after} raised {type(val).__name__}: {val}; {detail()}')
            r.evals()
            return
        slc_agreement(r, cfg, hf, ag, list(cur), suffix, detail())
    # ---- +CIEV after the repeated set-up ---------------------------------------------------------------
    suffix = f'/repeat/after-{reruns[-1]}'
    task = asyncio.create_task(hf.run())
    await rg.quiesce()
    ag_update(rng.randint(2, 5))
    await rg.quiesce()
    await asyncio.sleep(0.1)
    await rg.quiesce()
    r.ev('slcrep_agreement_checks')
    r.ev('oracle_evals', 2)
    names = [n for n, _v, _c in cfg['ag_indicators']]
    hf_view = [(x.indicator.value, x.current_status) for x in hf.ag_indicators]
    ag_view = [(x.indicator.value, x.current_status) for x in ag.ag_indicators]
    want = list(zip(names, cur))
    if hf_view != want or ag_view != want:
        r.bad(f'slc/disagree/ag-indicator-values/after-ciev{suffix}',
              f'after +CIEV updates sent through AgProtocol.update_ag_indicator: ledger {want}, AG holds {ag_view}, HF holds '
              f'{hf_view}; {detail()}')
    for n, v in want:
        held = [x.current_status for x in hf.ag_indicators if x.indicator.value == n]
        if held != [v]:
            r.bad(f'slc/disagree/ag-indicator-by-name/after-ciev{suffix}',
                  f'the HF holds {len(held)} entries for indicator {n!r} with values {held}, the AG one with value {v}; {detail()}')
            break
    hf.unsolicited_queue.put_nowait(None)
    try:
        await vloop.vwait(task, 30)
    except vloop.Hang:
        task.cancel()
    for where, e in rg.exceptions:
        r.bad('slc/exception-in-stack/repeat', f'{where}: {e}; {detail()}')
    wire_and_counters(r, rg, [(cd, sd)], 'after repeated SLC')
    r.sig('slcrep', repr(cfg), k, how_lost, tuple(reruns))
    r.sched.add(rg.schedule_signature)
    r.evals()
    r.sample = {'kind': 'slcrep', 'cfg': cfg, 'sequence': seq, 'lost': None if k == len(seq) else [k + 1, seq[k], how_lost],
                'reruns': reruns, 'indicator_ledger': cur, 'link': info}


# =============================================================================
# kind 'agraw': AT lines written by hand on the peer DLC
# =============================================================================
# (command stem, nominal parameter lists). Everything HfProtocol can emit comes first.
AT_SET_COMMANDS = [
    ('AT+BRSF', [['0'], ['4095'], ['927']]),
    ('AT+BAC', [['1'], ['1', '2'], ['1', '2', '3']]),
    ('AT+CMER', [['3', '', '', '1'], ['3', '0', '0', '1'], ['3', '0', '0', '0'], ['0', '0', '0', '0'], ['3', '0', '0', '2']]),
    ('AT+BIND', [['1'], ['1', '2'], ['2']]),
    ('AT+BCS', [['1'], ['2']]),
    ('AT+CHLD', [['0'], ['1'], ['2'], ['3'], ['4'], ['11'], ['21'], ['5']]),
    ('AT+BVRA', [['0'], ['1']]),
    ('AT+CMEE', [['1'], ['0']]),
    ('AT+CCWA', [['1'], ['0']]),
    ('AT+CLIP', [['1'], ['0']]),
    ('AT+BIEV', [['1', '1'], ['2', '100'], ['7', '1']]),
    ('AT+BIA', [['1', '1', '0'], ['0'], ['1', '1', '1', '1', '1', '1', '1']]),
    ('AT+VGS', [['7'], ['15']]),
    ('AT+VGM', [['0'], ['9']]),
    ('AT+NREC', [['0']]),
    ('AT+VTS', [['1']]),
    ('AT+COPS', [['3', '0']]),
    ('AT+BINP', [['1']]),
]
AT_PLAIN_COMMANDS = ['AT+CIND=?', 'AT+CIND?', 'AT+CHLD=?', 'AT+BIND=?', 'AT+BIND?', 'AT+BCC', 'ATA', 'AT+CHUP', 'AT+CLCC',
                     'ATD123;', 'ATD>1;', 'AT+BLDN', 'AT+CNUM', 'AT+COPS?', 'AT+BTRH?', 'AT+BRSF?', 'AT+BRSF=?', 'AT+VGS?',
                     'AT+CMER?', 'AT+CMER=?']
UNPARSEABLE = ['AT', 'at+chup', 'AT+CMER=3,(0', 'ATE0', 'AT+VGS=1"5"', '\n']


def at_pool():
    """[(line, command stem, variant)] — deterministic."""
    pool = []
    for stem, plists in AT_SET_COMMANDS:
        for k, pl in enumerate(plists):
            pool.append((f'{stem}={",".join(pl)}', stem, 'nominal'))
            if k == 0:
                pool.append((f'{stem}={",".join(pl + ["0"])}', stem, 'one-more'))
                pool.append((f'{stem}={",".join(pl[:-1])}', stem, 'one-fewer'))
                pool.append((f'{stem}', stem, 'no-parameters'))
                for i in range(len(pl)):
                    if pl[i] != '':
                        q = list(pl)
                        q[i] = ''
                        pool.append((f'{stem}={",".join(q)}', stem, 'empty-parameter'))
    for line in AT_PLAIN_COMMANDS:
        stem = line.split('=')[0].split('?')[0] if line.startswith('AT+') else line[:3]
        pool.append((line, stem, 'nominal'))
        if line in ('AT+BCC', 'AT+CHUP', 'AT+CLCC', 'AT+BLDN', 'AT+CNUM'):
            pool.append((line + '=1', stem, 'one-more'))
    return pool


def split_results(buf: bytearray):
    out = []
    while True:
        h = buf.find(b'\r\n')
        if h < 0:
            return out
        t = buf.find(b'\r\n', h + 2)
        if t < 0:
            return out
        out.append(bytes(buf[h + 2:t]).decode('utf-8', 'replace'))
        del buf[:t + 2]


async def agraw(case, r: R):
    from bumble import hfp
    rng = random.Random(case['seed'] ^ 0xA6)
    cfg = gen_hfp(rng, rng.randrange(64) | (0 if rng.random() < 0.3 else 0x2A))     # AG bits mostly on
    cfg['ag_indicators'] = cfg['ag_indicators'] or [('call', [0, 1], 0)]
    rg, s, cd, sd, info = await hfp_link(case, rng, r)
    _hf_conf, ag_conf = build_hfp_configs(cfg)
    raw_on_client = rng.random() < 0.6
    raw, agd = (cd, sd) if raw_on_client else (sd, cd)
    ag = hfp.AgProtocol(agd, ag_conf)
    if rng.random() < 0.3:
        ag.calls.append(hfp.CallInfo(index=1, direction=hfp.CallInfoDirection(0), status=hfp.CallInfoStatus(0),
                                     mode=hfp.CallInfoMode(0), multi_party=hfp.CallInfoMultiParty(0), number='123'))
    rx = bytearray()
    raw.sink = rx.extend
    pool = at_pool()
    n = 24
    start = (case['idx'] * n) % len(pool)
    script = [pool[(start + i) % len(pool)] for i in range(n)]
    warm = rng.random() < 0.5
    if warm:   # a nominal SLC first, so that handlers run in their expected state
        script = [(l, l.split('=')[0].split('?')[0], 'nominal') for l in
                  ('AT+BRSF=927', 'AT+CIND=?', 'AT+CIND?', 'AT+CMER=3,0,0,1')] + script
    if not warm and rng.random() < 0.5:
        rng.shuffle(script)
    transcript = []

    async def send(line):
        del rx[:]
        nexc = len(rg.exceptions)
        raw.write(line.encode() + b'\r')
        await rg.quiesce()
        results = split_results(rx)
        excs = [e.split(':')[0] for _w, e in rg.exceptions[nexc:]]
        return results, excs

    starved = False
    for line, stem, variant in script:
        if raw.tx_buffer:
            starved = True
            r.ev('agraw_raw_peer_out_of_credits')
            break
        results, excs = await send(line)
        if raw.tx_buffer:
            # the line never left the raw peer: the AG stopped granting credits (its sink raised on an
            # earlier line before the DLC accounted for the frame); nothing can be said about this line
            starved = True
            r.ev('agraw_raw_peer_out_of_credits')
            break
        finals = [t for t in results if is_final(t)]
        transcript.append((line, results))
        r.ev('at_lines_checked')
        r.ev(f'at_variant_{variant}')
        r.ev('oracle_evals')
        r.add_extra_list('at_commands_exercised', f'{stem}/{variant}')
        st = stem.replace('AT+', '').lower()
        if len(finals) == 0:
            r.bad(f'at/final-codes/none/{"handler-raised-" + excs[0] if excs else "no-exception"}',
                  f'AG answered {line!r} ({variant}) with {results} (exceptions escaping the stack: {excs}); AG cfg={cfg}')
        elif len(finals) > 1:
            r.bad(f'at/final-codes/multiple/{st}', f'AG answered {line!r} with {results}; AG cfg={cfg}')
        elif results and not is_final(results[-1]):
            r.bad(f'at/final-codes/not-last/{st}', f'AG answered {line!r} with {results}')
        elif excs:
            r.ev('ag_handler_raised_after_its_final_code')
            r.add_extra_list('ag_handlers_raising_after_final_code', f'{line} -> {excs[0]}')
    # pipelined: several lines in one write must give as many final codes, in order
    if not starved and not raw.tx_buffer:
        batch = ['AT+CHUP', 'AT+CLCC', 'ATA', 'AT+VGS=3'][:rng.randint(2, 4)]
        del rx[:]
        raw.write(''.join(l + '\r' for l in batch).encode())
        await rg.quiesce()
        results = split_results(rx)
        r.ev('at_lines_checked', len(batch))
        r.ev('oracle_evals')
        if sum(1 for t in results if is_final(t)) != len(batch):
            r.bad('at/final-codes/pipelined', f'{batch} in one write answered with {results}')
    # a line that is no AT command, then a plain command: the AG must still answer the latter
    if not starved and not raw.tx_buffer:
        junk = UNPARSEABLE[case['idx'] % len(UNPARSEABLE)]
        jr, _ = await send(junk)
        pr, excs = await send('AT+CHUP')
        r.ev('at_wedge_probes')
        r.ev('at_lines_checked')
        r.ev('oracle_evals')
        if sum(1 for t in pr if is_final(t)) != 1:
            r.bad('at/wedged-after-unparseable-line',
                  f'after the line {junk!r} (answered {jr}) the AG answered AT+CHUP with {pr}; exceptions {excs}; '
                  f'AG read_buffer={bytes(ag.read_buffer)!r}')
        transcript.append((junk, jr))
    r.sig('agraw', tuple(l for l, _s, _v in script), repr(cfg['ag_features']), warm)
    r.sched.add(rg.schedule_signature)
    r.evals()
    r.sample = {'kind': 'agraw', 'ag_cfg': cfg, 'link': info, 'transcript': transcript[:6]}


# =============================================================================
# kind 'hfraw': HfProtocol against a scripted AG on a raw DLC
# =============================================================================
async def hfraw(case, r: R):
    from bumble import hfp
    rng = random.Random(case['seed'] ^ 0x4F)
    cfg = gen_hfp(rng, rng.randrange(64))
    cfg['chld'] = cfg['chld'] or ['1', '2']
    cfg['ag_hf_indicators'] = cfg['ag_hf_indicators'] or [1]
    rg, s, cd, sd, info = await hfp_link(case, rng, r)
    hf_conf, _ = build_hfp_configs(cfg)
    raw_on_client = rng.random() < 0.5
    raw, hfd = (cd, sd) if raw_on_client else (sd, cd)
    hf = hfp.HfProtocol(hfd, hf_conf)
    exp_ag = sum(AG_BITS[n] for n in cfg['ag_features'])
    space = rng.choice([' ', ''])
    seen = []
    rxb = bytearray()

    def rsp(*lines):
        raw.write(''.join(f'\r\n{l}\r\n' for l in lines).encode())

    def on_data(data):
        rxb.extend(data)
        while (i := rxb.find(b'\r')) >= 0:
            line = bytes(rxb[:i]).decode()
            del rxb[:i + 1]
            seen.append(line)
            if line.startswith('AT+BRSF='):
                rsp(f'+BRSF:{space}{exp_ag}', 'OK')
            elif line == 'AT+CIND=?':
                rsp('+CIND:' + space + ','.join(
                    '("%s",(%s))' % (n, ','.join(map(str, v)) if rng.random() < 0.5 or len(v) != v[-1] - v[0] + 1
                                     else f'{v[0]}-{v[-1]}') for n, v, _c in cfg['ag_indicators']), 'OK')
            elif line == 'AT+CIND?':
                rsp('+CIND:' + space + ','.join(str(c) for _n, _v, c in cfg['ag_indicators']), 'OK')
            elif line == 'AT+CHLD=?':
                rsp(f'+CHLD:{space}({",".join(cfg["chld"])})', 'OK')
            elif line == 'AT+BIND=?':
                rsp(f'+BIND:{space}({",".join(map(str, cfg["ag_hf_indicators"]))})', 'OK')
            elif line == 'AT+BIND?':
                rsp(*[f'+BIND:{space}{i},1' for i in cfg['ag_hf_indicators']], 'OK')
            else:
                rsp('OK')

    raw.sink = on_data
    junk = rng.choice([None, '+XAPL: (1', '+FOO: 1"x"', '+BSIR: 0'])
    if junk:
        raw.write(f'\r\n{junk}\r\n'.encode())
        await rg.quiesce()
    r.ev('slc_runs')
    r.ev('hfraw_runs')
    key_junk = 'none' if junk is None else 'unparseable' if junk != '+BSIR: 0' else 'valid'
    try:
        how, e = await vloop.vwait(guarded(hf.initiate_slc()))
    except vloop.Hang:
        r.bad('slc/hang/raw-ag', f'initiate_slc pending at T_v; unsolicited line before: {junk!r}')
        return
    ok = how == 'ok'
    r.ev('oracle_evals')
    if not ok:
        r.bad(f'slc/raised/raw-ag/after-{key_junk}-unsolicited-line',
              f'initiate_slc raised {type(e).__name__}: {e} against a scripted AG that answered {seen}; unsolicited '
              f'line sent before the procedure: {junk!r}; HF read_buffer={bytes(hf.read_buffer)[:60]!r}; cfg={cfg}')
    if ok:
        names = [n for n, _v, _c in cfg['ag_indicators']]
        r.ev('slc_agreement_checks', 3)
        r.ev('oracle_evals', 3)
        if hf.supported_ag_features != exp_ag:
            r.bad('slc/disagree/ag-features/raw-ag', f'HF learnt {hf.supported_ag_features:#x}, AG sent {exp_ag:#x}')
        if [x.indicator.value for x in hf.ag_indicators] != names or \
                [x.current_status for x in hf.ag_indicators] != [c for _n, _v, c in cfg['ag_indicators']]:
            r.bad('slc/disagree/ag-indicator-list/raw-ag', f'HF holds {hf.ag_indicators}, AG sent {cfg["ag_indicators"]}')
        if [x.supported_values for x in hf.ag_indicators] != [set(v) for _n, v, _c in cfg['ag_indicators']]:
            r.bad('slc/disagree/ag-indicator-supported-values', f'HF holds {hf.ag_indicators}, AG sent {cfg["ag_indicators"]}')
    for where, e in rg.exceptions:
        r.ev('hfraw_exception_in_stack')
    r.sig('hfraw', repr(cfg), junk, space)
    r.evals()
    r.sample = {'kind': 'hfraw', 'cfg': cfg, 'unsolicited_before': junk, 'commands_seen': seen[:12]}



# =============================================================================
# kind 'codec': codec connection set-up refused, unanswered, re-negotiated; one side scripted
# =============================================================================
# HFP 1.8 section 4.11.3: the AG selects with the unsolicited +BCS: <id>; the HF confirms with AT+BCS=<id> (or, when it
# cannot use <id>, re-advertises its codecs with AT+BAC); the codec connection exists once the AG has answered that
# AT+BCS with OK.  Until then both sides keep the codec they had (CVSD before the first set-up).  The scripted side
# below follows exactly that; the expected codec of the real side is the scripted side's.
CODEC_ANSWERS = ['ok', 'error', 'cme', 'silent', 'late-error']
ANSWER_CLASS = {'ok': 'bcs-answered-ok', 'error': 'bcs-answered-error', 'cme': 'bcs-answered-cme-error',
                'silent': 'bcs-unanswered', 'late-error': 'bcs-answered-error-after-timeout'}


class ScriptedAg:
    """The audio gateway played by hand on a raw DLC: command lines in, result codes out."""

    def __init__(self, raw, cfg, exp_ag, space, rng):
        self.raw, self.cfg, self.exp_ag, self.space, self.rng = raw, cfg, exp_ag, space, rng
        self.seen = []
        self.rxb = bytearray()
        self.codec = 1                  # CVSD until a codec connection set-up completes
        self.hf_codecs = None           # what the HF advertised with AT+BAC
        self.bcs_answer = 'ok'
        self.bac_answer = 'ok'
        self.bcc_answer = 'ok'
        raw.sink = self.on_data

    def rsp(self, *lines):
        self.raw.write(''.join(f'\r\n{l}\r\n' for l in lines).encode())

    def final(self, how):
        if how == 'ok':
            self.rsp('OK')
        elif how == 'error':
            self.rsp('ERROR')
        elif how == 'cme':
            self.rsp('+CME ERROR: 30')
        elif how == 'late-error':
            asyncio.get_running_loop().call_later(2.5, lambda: self.rsp('ERROR'))
        # 'silent': nothing

    def on_data(self, data):
        cfg, space = self.cfg, self.space
        self.rxb.extend(data)
        while (i := self.rxb.find(b'\r')) >= 0:
            line = bytes(self.rxb[:i]).decode()
            del self.rxb[:i + 1]
            self.seen.append(line)
            if line.startswith('AT+BRSF='):
                self.rsp(f'+BRSF:{space}{self.exp_ag}', 'OK')
            elif line == 'AT+CIND=?':
                self.rsp('+CIND:' + space + ','.join('("%s",(%s))' % (n, ','.join(map(str, v))) for n, v, _c in cfg['ag_indicators']), 'OK')
            elif line == 'AT+CIND?':
                self.rsp('+CIND:' + space + ','.join(str(c) for _n, _v, c in cfg['ag_indicators']), 'OK')
            elif line == 'AT+CHLD=?':
                self.rsp(f'+CHLD:{space}({",".join(cfg["chld"])})', 'OK')
            elif line == 'AT+BIND=?':
                self.rsp(f'+BIND:{space}({",".join(map(str, cfg["ag_hf_indicators"]))})', 'OK')
            elif line == 'AT+BIND?':
                self.rsp(*[f'+BIND:{space}{i},1' for i in cfg['ag_hf_indicators']], 'OK')
            elif line.startswith('AT+BAC='):
                if self.bac_answer == 'ok':
                    self.hf_codecs = [int(x) for x in line[7:].split(',') if x]
                self.final(self.bac_answer)
            elif line.startswith('AT+BCS='):
                if self.bcs_answer == 'ok':
                    self.codec = int(line[7:])      # the codec connection is set up by this OK
                self.final(self.bcs_answer)
            elif line == 'AT+BCC':
                self.final(self.bcc_answer)
            else:
                self.rsp('OK')


def codec_name(c):
    return {1: 'CVSD', 2: 'mSBC', 3: 'LC3-SWB'}.get(int(c), str(int(c)))


async def codec_hf_vs_scripted_ag(case, r: R, rng):
    from bumble import hfp
    cfg = gen_hfp(rng, rng.randrange(64) | 0x01)
    cfg['hf_features'] = list(dict.fromkeys(cfg['hf_features'] + ['CODEC']))
    cfg['ag_features'] = list(dict.fromkeys(cfg['ag_features'] + ['CODEC']))
    cfg['hf_codecs'] = rng.choice([[1, 2], [2, 1], [1, 2, 3], [1, 2], [2], [1, 3]])
    cfg['chld'] = cfg['chld'] or ['1', '2']
    cfg['ag_hf_indicators'] = cfg['ag_hf_indicators'] or [1]
    rg, s, cd, sd, info = await hfp_link(case, rng, r)
    hf_conf, _ = build_hfp_configs(cfg)
    raw, hfd = (cd, sd) if rng.random() < 0.5 else (sd, cd)
    hf = hfp.HfProtocol(hfd, hf_conf)
    ag = ScriptedAg(raw, cfg, sum(AG_BITS[n] for n in cfg['ag_features']), rng.choice([' ', '']), rng)
    events = []
    hf.on('codec_negotiation', lambda c: events.append(int(c)))
    try:
        how, e = await vloop.vwait(guarded(hf.initiate_slc()))
    except vloop.Hang:
        r.bad('slc/hang/raw-ag', f'initiate_slc pending at T_v; cfg={cfg}')
        return
    if how != 'ok':
        r.bad('slc/raised/raw-ag/codec-negotiation', f'initiate_slc raised {type(e).__name__}: {e}; AG saw {ag.seen}; cfg={cfg}')
        return
    r.ev('slc_runs')
    r.ev('oracle_evals')
    if ag.hf_codecs != cfg['hf_codecs']:
        r.bad('slc/disagree/codec-list/raw-ag', f'HF codecs {cfg["hf_codecs"]}, the gateway was told {ag.hf_codecs} (lines {ag.seen})')
    task = asyncio.create_task(hf.run())
    usable = cfg['hf_codecs']
    unusable = [c for c in (1, 2, 3) if c not in usable]
    steps = []
    for _ in range(rng.randint(2, 5)):
        c = rng.random()
        if c < 0.62:
            steps.append(('select', rng.choice(usable), rng.choice(CODEC_ANSWERS)))
        elif c < 0.78 and unusable:
            steps.append(('select-unusable', rng.choice(unusable), rng.choice(['ok', 'ok', 'error'])))
        else:
            steps.append(('hf-bcc', rng.choice(usable), rng.choice(['ok', 'ok', 'error', 'silent'])))
    steps.append(('select', rng.choice(usable), 'ok'))       # after whatever was refused, a set-up still completes
    prev = 'slc'
    history = []

    def detail():
        return f'steps so far {history}; HF codecs {usable}; HF on the {"client" if hfd is cd else "server"} DLC; link={info}'

    async def settle(wait):
        await rg.quiesce()
        if wait:
            await asyncio.sleep(wait)
            await rg.quiesce()

    def judge(step_cls, completed, lines, want_lines):
        """after one step: same codec on both sides, event only for a completed set-up, HF usable"""
        r.ev('codec_agreement_checks')
        r.ev('oracle_evals', 3)
        if lines != want_lines:
            r.bad(f'hfp/codec/hf-commands/{step_cls}/after-{prev}',
                  f'the HF sent {lines}, the procedure calls for {want_lines}; {detail()}')
            return False
        if int(hf.active_codec) != ag.codec:
            r.bad(f'hfp/codec/disagree/hf-vs-scripted-ag/{step_cls}',
                  f'HF active_codec={codec_name(hf.active_codec)}, the gateway is on {codec_name(ag.codec)} '
                  f'(it {"answered OK to" if completed else "never confirmed"} {lines}); {detail()}')
            return False
        want_events = [ag.codec] if completed else []
        if events != want_events:
            r.bad(f'hfp/codec/event/{"missing" if completed else "for-a-set-up-that-did-not-complete"}/{step_cls}',
                  f'codec_negotiation events at the HF: {[codec_name(c) for c in events]}, expected '
                  f'{[codec_name(c) for c in want_events]}; {detail()}')
            return False
        if hf.pending_command is not None or not hf.response_queue.empty():
            r.bad(f'at/hf-state-left-behind/after-{step_cls}',
                  f'pending_command={hf.pending_command!r}, {hf.response_queue.qsize()} result codes queued; {detail()}')
            return False
        return True

    for kind, cid, answer in steps:
        del events[:]
        n0 = len(ag.seen)
        r.ev('codec_steps')
        r.ev(f'codec_step_{kind}')
        history.append((kind, codec_name(cid), answer))
        wait = 4.0 if answer in ('silent', 'late-error') else 0
        if kind == 'select':
            ag.bcs_answer = answer
            ag.rsp(f'+BCS:{ag.space}{cid}')
            await settle(wait)
            r.ev('codec_bcs_' + answer.replace('-', '_'))
            r.ev('codec_real_hf_confirmation_' + ('answered_ok' if answer == 'ok' else 'unanswered' if answer == 'silent' else 'refused'))
            ok = judge(ANSWER_CLASS[answer], answer == 'ok', ag.seen[n0:], [f'AT+BCS={cid}'])
        elif kind == 'select-unusable':
            ag.bac_answer = answer
            ag.rsp(f'+BCS:{ag.space}{cid}')
            await settle(0)
            ag.bac_answer = 'ok'
            r.ev('codec_bac_renegotiations')
            ok = judge('unusable-codec-selected/bac-answered-' + answer, False, ag.seen[n0:],
                       ['AT+BAC=' + ','.join(map(str, usable))])
        else:
            ag.bcc_answer, ag.bcs_answer = answer, 'ok'
            r.ev('codec_hf_bcc')
            try:
                how, val = await vloop.vwait(guarded(hf.setup_audio_connection()))
            except vloop.Hang:
                r.bad('hfp/codec/hang/setup_audio_connection', f'pending at T_v; {detail()}')
                break
            r.ev('oracle_evals')
            if (how == 'ok') != (answer == 'ok'):
                r.bad(f'hfp/codec/bcc-outcome/bcc-answered-{answer}', f'setup_audio_connection -> {how} {val!r}; {detail()}')
                break
            if answer == 'ok':
                ag.rsp(f'+BCS:{ag.space}{cid}')     # the gateway starts the codec connection set-up it agreed to
            await settle(0)
            ok = judge(f'hf-requested/bcc-answered-{answer}', answer == 'ok', ag.seen[n0:],
                       ['AT+BCC'] + ([f'AT+BCS={cid}'] if answer == 'ok' else []))
        if not ok:
            break
        prev = kind if kind != 'select' else ANSWER_CLASS[answer]
    hf.unsolicited_queue.put_nowait(None)
    try:
        await vloop.vwait(guarded(task))
    except vloop.Hang:
        r.bad('hfp/codec/hang/hf-run-loop', f'HfProtocol.run did not end; {detail()}')
    r.sig('codec', 'hf', tuple(steps), tuple(usable))
    r.sched.add(rg.schedule_signature)
    r.evals()
    r.sample = {'kind': 'codec', 'mode': 'hf-vs-scripted-ag', 'steps': history, 'hf_codecs': usable, 'lines': ag.seen[-8:]}


async def codec_ag_vs_scripted_hf(case, r: R, rng):
    from bumble import hfp
    cfg = gen_hfp(rng, rng.randrange(64) | 0x02)
    cfg['ag_features'] = list(dict.fromkeys(cfg['ag_features'] + ['CODEC']))
    cfg['ag_indicators'] = cfg['ag_indicators'] or [('call', [0, 1], 0)]
    rg, s, cd, sd, info = await hfp_link(case, rng, r)
    _hf_conf, ag_conf = build_hfp_configs(cfg)
    raw, agd = (cd, sd) if rng.random() < 0.6 else (sd, cd)
    ag = hfp.AgProtocol(agd, ag_conf)
    rx = bytearray()
    raw.sink = rx.extend
    events, requests = [], []
    ag.on('codec_negotiation', lambda c: events.append(int(c)))
    ag.on('codec_connection_request', lambda: requests.append(1))
    hf_codecs = rng.choice([[1, 2], [1, 2, 3], [2, 1], [2]])
    hf_codec = [1]                       # the scripted HF: CVSD until the gateway answers one of its AT+BCS with OK
    history = []

    def detail():
        return f'steps so far {history}; scripted HF advertised {hf_codecs}; link={info}'

    async def send(line):
        del rx[:]
        raw.write(line.encode() + b'\r')
        await rg.quiesce()
        return split_results(rx)

    hf_bits = HF_BITS['CODEC'] | rng.choice([0, HF_BITS['VOLUME'], HF_BITS['CLI'] | HF_BITS['VR']])
    for line in (f'AT+BRSF={hf_bits}', 'AT+BAC=' + ','.join(map(str, hf_codecs)), 'AT+CIND=?', 'AT+CIND?', 'AT+CMER=3,0,0,1'):
        res = await send(line)
        if [t for t in res if is_final(t)] != ['OK']:
            r.bad('slc/raised/raw-hf/codec-negotiation', f'the AG answered {line!r} with {res}; cfg={cfg}')
            return
    r.ev('slc_runs')

    def judge(step_cls, completed):
        r.ev('codec_agreement_checks')
        r.ev('oracle_evals', 2)
        if int(ag.active_codec) != hf_codec[0]:
            r.bad(f'hfp/codec/disagree/ag-vs-scripted-hf/{step_cls}',
                  f'AG active_codec={codec_name(ag.active_codec)}, the hands-free is on {codec_name(hf_codec[0])}; {detail()}')
            return False
        want = [hf_codec[0]] if completed else []
        if events != want:
            r.bad(f'hfp/codec/event/{"missing" if completed else "for-a-set-up-that-did-not-complete"}/ag/{step_cls}',
                  f'codec_negotiation events at the AG: {[codec_name(c) for c in events]}, expected '
                  f'{[codec_name(c) for c in want]}; {detail()}')
            return False
        return True

    steps = []
    for _ in range(rng.randint(2, 5)):
        c = rng.random()
        if c < 0.7:
            steps.append(('ag-select', rng.choice(hf_codecs), rng.choice(['confirm', 'confirm', 'other-id', 'bac', 'silent', 'invalid-id'])))
        elif c < 0.85:
            steps.append(('hf-bcc', 0, ''))
        else:
            steps.append(('hf-bcs-unasked', rng.choice(hf_codecs), ''))
    steps.append(('ag-select', rng.choice(hf_codecs), 'confirm'))
    abandoned = False
    for kind, cid, reply in steps:
        del events[:]
        history.append((kind, codec_name(cid) if cid else '-', reply))
        r.ev('codec_steps')
        r.ev(f'codec_step_{kind}')
        if kind == 'hf-bcc':
            n = len(requests)
            res = await send('AT+BCC')
            r.ev('codec_hf_bcc')
            r.ev('oracle_evals')
            if [t for t in res if is_final(t)] != ['OK'] or len(requests) != n + 1:
                r.bad('hfp/codec/bcc-outcome/ag', f'AT+BCC answered {res}, {len(requests) - n} codec_connection_request events; {detail()}')
                break
            if not judge('hf-requested', False):
                break
            continue
        if kind == 'hf-bcs-unasked':
            res = await send(f'AT+BCS={cid}')
            finals = [t for t in res if is_final(t)]
            r.ev('oracle_evals')
            if len(finals) != 1:
                r.bad('at/final-codes/codec/bcs', f'AT+BCS={cid} answered {res}; {detail()}')
                break
            if finals == ['OK']:
                hf_codec[0] = cid
            if not judge('bcs-without-selection/answered-' + finals[0].split(':')[0].lower().replace(' ', '-'), finals == ['OK']):
                break
            continue
        del rx[:]
        task = asyncio.create_task(guarded(ag.negotiate_codec(hfp.AudioCodec(cid))))
        await rg.quiesce()
        sel = split_results(rx)
        r.ev('oracle_evals')
        if [t.replace(' ', '') for t in sel] != [f'+BCS:{cid}']:
            r.bad('hfp/codec/ag-selection-line', f'negotiate_codec({codec_name(cid)}) wrote {sel}; {detail()}')
            task.cancel()
            break
        completed = False
        if reply in ('confirm', 'other-id', 'invalid-id'):
            other = [c for c in hf_codecs if c != cid]
            echo = cid if reply == 'confirm' or (reply == 'other-id' and not other) else rng.choice(other) if reply == 'other-id' else rng.choice([0, 9, 255])
            res = await send(f'AT+BCS={echo}')
            finals = [t for t in res if is_final(t)]
            r.ev('oracle_evals')
            if len(finals) != 1:
                r.bad('at/final-codes/codec/bcs', f'AT+BCS={echo} answered {res}; {detail()}')
                task.cancel()
                break
            if finals == ['OK']:
                hf_codec[0], completed = echo, True
            step_cls = f'{reply}/answered-' + finals[0].split(':')[0].lower().replace(' ', '-')
            r.ev('codec_bcs_' + ('ok' if completed else 'refused_by_ag'))
        elif reply == 'bac':
            keep = [c for c in hf_codecs if c != cid] or [1]
            res = await send('AT+BAC=' + ','.join(map(str, keep)))
            r.ev('codec_bac_renegotiations')
            r.ev('oracle_evals')
            if [t for t in res if is_final(t)] != ['OK'] or [int(c) for c in ag.supported_audio_codecs] != keep:
                r.bad('hfp/codec/bac-renegotiation/ag', f'AT+BAC={keep} answered {res}; the AG now lists '
                      f'{[int(c) for c in ag.supported_audio_codecs]}; {detail()}')
                task.cancel()
                break
            hf_codecs = keep
            step_cls = 'hf-readvertised-codecs'
        else:
            await asyncio.sleep(3.0)
            await rg.quiesce()
            r.ev('codec_bcs_unanswered_by_hf')
            step_cls = 'selection-unanswered'
        r.ev('oracle_evals')
        if completed and reply == 'confirm':
            if not task.done():
                await rg.quiesce()
            r.ev('codec_negotiate_codec_calls_after_abandoned_one', 1 if abandoned else 0)
            if not task.done() or task.result()[0] != 'ok':
                r.bad('hfp/codec/negotiate-codec-does-not-return/'
                      + ('after-abandoned-selection' if abandoned else 'no-earlier-abandoned-selection'),
                      f'negotiate_codec({codec_name(cid)}) after the HF confirmed with AT+BCS={cid} and got OK: '
                      f'{task.result() if task.done() else "still pending"}; {detail()}')
            abandoned = False
        if not task.done():
            task.cancel()       # the application gives up on a selection that was not confirmed
            abandoned = True
        if not judge(step_cls, completed):
            break
    for where, e in rg.exceptions:
        r.bad('slc/exception-in-stack', f'{where}: {e}; {detail()}')
    r.sig('codec', 'ag', tuple(steps), tuple(hf_codecs))
    r.sched.add(rg.schedule_signature)
    r.evals()
    r.sample = {'kind': 'codec', 'mode': 'ag-vs-scripted-hf', 'steps': history}


async def codec_both_real(case, r: R, rng):
    """HfProtocol and AgProtocol back to back; the gateway APPLICATION refuses some confirmations (its _on_bcs answers
    ERROR, as a gateway whose call went away would) or the HF cannot use the selected codec."""
    from bumble import hfp
    cfg = gen_hfp(rng, rng.randrange(64) | 0x03)
    for k in ('hf_features', 'ag_features'):
        cfg[k] = list(dict.fromkeys(cfg[k] + ['CODEC']))
    cfg['hf_codecs'] = rng.choice([[1, 2], [2, 1], [1, 2, 3], [2]])
    cfg['ag_codecs'] = [1, 2, 3]
    cfg['chld'] = cfg['chld'] or ['1']
    cfg['ag_hf_indicators'] = cfg['ag_hf_indicators'] or [1]
    rg, s, cd, sd, info = await hfp_link(case, rng, r)
    hf_conf, ag_conf = build_hfp_configs(cfg)
    hf_on_client = rng.random() < 0.6
    hf = hfp.HfProtocol(cd if hf_on_client else sd, hf_conf)
    ag = hfp.AgProtocol(sd if hf_on_client else cd, ag_conf)
    mon = AtMonitor()
    tap_ag(ag, mon)
    hf_events, ag_events = [], []
    hf.on('codec_negotiation', lambda c: hf_events.append(int(c)))
    ag.on('codec_negotiation', lambda c: ag_events.append(int(c)))
    try:
        how, e = await vloop.vwait(guarded(hf.initiate_slc()))
    except vloop.Hang:
        r.bad('slc/hang', f'initiate_slc pending at T_v; cfg={cfg}')
        return
    if how != 'ok':
        r.bad('slc/raised/other', f'initiate_slc raised {type(e).__name__}: {e}; cfg={cfg}')
        return
    r.ev('slc_runs')
    run_task = asyncio.create_task(hf.run())
    usable = cfg['hf_codecs']
    unusable = [c for c in (1, 2, 3) if c not in usable]
    real_on_bcs = ag._on_bcs
    refusing = [None]

    def on_bcs(codec):
        if refusing[0] == 'error':
            ag.send_error()
        elif refusing[0] == 'cme':
            ag.send_cme_error(hfp.CmeError.OPERATION_NOT_ALLOWED)
        elif refusing[0] == 'silent':
            pass
        else:
            real_on_bcs(codec)
    ag._on_bcs = on_bcs
    steps = []
    for _ in range(rng.randint(2, 5)):
        c = rng.random()
        if c < 0.6:
            steps.append(('select', rng.choice(usable), rng.choice(['ok', 'error', 'cme', 'silent'])))
        elif c < 0.8 and unusable:
            steps.append(('select-unusable', rng.choice(unusable), 'ok'))
        else:
            steps.append(('hf-bcc', rng.choice(usable), 'ok'))
    steps.append(('select', rng.choice(usable), 'ok'))
    history = []
    expected = [1]
    abandoned = False

    def detail():
        return f'steps so far {history}; HF codecs {usable}; cfg={cfg}; link={info}'

    for kind, cid, answer in steps:
        del hf_events[:], ag_events[:]
        history.append((kind, codec_name(cid), answer))
        r.ev('codec_steps')
        r.ev(f'codec_step_{kind}')
        g0 = len(mon.groups())
        refusing[0] = None if answer == 'ok' else answer
        completed = kind != 'select-unusable' and answer == 'ok'
        if kind == 'hf-bcc':
            r.ev('codec_hf_bcc')
            ag.once('codec_connection_request', lambda cid=cid: asyncio.create_task(guarded(ag.negotiate_codec(hfp.AudioCodec(cid)))))
            try:
                how, val = await vloop.vwait(guarded(hf.setup_audio_connection()))
            except vloop.Hang:
                r.bad('hfp/codec/hang/setup_audio_connection', f'pending at T_v; {detail()}')
                break
            if how != 'ok':
                r.bad('hfp/codec/bcc-outcome/bcc-answered-ok', f'setup_audio_connection raised {val!r}; {detail()}')
                break
            task = None
        else:
            task = asyncio.create_task(guarded(ag.negotiate_codec(hfp.AudioCodec(cid))))
        await rg.quiesce()
        if answer == 'silent':
            await asyncio.sleep(3.0)
            await rg.quiesce()
        if task is not None:
            if completed:
                r.ev('codec_negotiate_codec_calls_after_abandoned_one', 1 if abandoned else 0)
                if not task.done() or task.result()[0] != 'ok':
                    r.bad('hfp/codec/negotiate-codec-does-not-return/'
                          + ('after-abandoned-selection' if abandoned else 'no-earlier-abandoned-selection'),
                          f'negotiate_codec({codec_name(cid)}) although the HF confirmed and the AG answered OK: '
                          f'{task.result() if task.done() else "still pending"}; {detail()}')
                abandoned = False
            if not task.done():
                task.cancel()   # the application gives up on a selection that was not confirmed
                abandoned = True
        if completed:
            expected[0] = cid
        r.ev('codec_bcs_' + ('ok' if completed else 'refused_or_unusable'))
        if kind == 'select':
            r.ev('codec_real_hf_confirmation_' + ('answered_ok' if answer == 'ok' else 'unanswered' if answer == 'silent' else 'refused'))
        cls = {'select': ANSWER_CLASS.get(answer, answer), 'select-unusable': 'unusable-codec-selected',
               'hf-bcc': 'hf-requested/bcc-answered-ok'}[kind]
        r.ev('codec_agreement_checks')
        r.ev('oracle_evals', 3)
        lines = [x for g in mon.groups()[g0:] for x in g[0]]
        if int(hf.active_codec) != int(ag.active_codec) or int(ag.active_codec) != expected[0]:
            r.bad(f'hfp/codec/disagree/both-real/{cls}',
                  f'HF active_codec={codec_name(hf.active_codec)}, AG active_codec={codec_name(ag.active_codec)}, the last '
                  f'completed set-up was for {codec_name(expected[0])}; the HF sent {lines}; {detail()}')
            break
        want = [cid] if completed else []
        if hf_events != want or ag_events != want:
            r.bad(f'hfp/codec/event/{"missing" if completed else "for-a-set-up-that-did-not-complete"}/both-real/{cls}',
                  f'codec_negotiation events: HF {hf_events}, AG {ag_events}, expected {want} on both; {detail()}')
            break
        if kind == 'select-unusable':
            r.ev('codec_bac_renegotiations')
            if [int(c) for c in ag.supported_audio_codecs] != usable or lines != ['AT+BAC=' + ','.join(map(str, usable))]:
                r.bad('hfp/codec/bac-renegotiation/both-real', f'the HF sent {lines}; the AG lists '
                      f'{[int(c) for c in ag.supported_audio_codecs]}; {detail()}')
                break
    hf.unsolicited_queue.put_nowait(None)
    try:
        await vloop.vwait(guarded(run_task))
    except vloop.Hang:
        r.bad('hfp/codec/hang/hf-run-loop', f'HfProtocol.run did not end; {detail()}')
    for lines, rsps in mon.groups():
        n = sum(1 for t in rsps if is_final(t))
        r.ev('at_lines_checked', len(lines))
        r.ev('oracle_evals')
        silent_bcs = [l for l in lines if l.startswith('AT+BCS=')] and any(a == 'silent' for _k, _c, a in history)
        if n != len(lines) and not silent_bcs:
            cmd = lines[0].split('=')[0].split('?')[0] if lines else '(none)'
            r.bad(f'at/final-codes/{"none" if n == 0 else "multiple" if n > len(lines) else "too-few"}/codec/{cmd}',
                  f'AG answered {lines} with {rsps}; {detail()}')
    r.sig('codec', 'b2b', tuple(steps), tuple(usable))
    r.sched.add(rg.schedule_signature)
    r.evals()
    r.sample = {'kind': 'codec', 'mode': 'both-real', 'steps': history}


async def codec(case, r: R):
    rng = random.Random(case['seed'] ^ 0xC0DEC)
    mode = case['idx'] % 3
    r.ev(('codec_runs_hf_vs_scripted_ag', 'codec_runs_ag_vs_scripted_hf', 'codec_runs_both_real')[mode])
    await (codec_hf_vs_scripted_ag, codec_ag_vs_scripted_hf, codec_both_real)[mode](case, r, rng)


KINDS = {'xfer': xfer, 'life': life, 'refuse': refuse, 'srefuse': srefuse, 'slc': slc, 'slcrep': slcrep, 'agraw': agraw, 'hfraw': hfraw, 'codec': codec}


async def run_case(case, r: R):
    case['_hang_key'] = f'hang/{case["kind"]}'
    INVARIANT['evals'] = 0
    del INVARIANT['hits'][:]
    try:
        await KINDS[case['kind']](case, r)
    finally:
        r.ev('dlc_invariant_evals', INVARIANT['evals'])
        for h in INVARIANT['hits']:
            r.bad('rfcomm/invariant/credit-counter-negative', h)


LEVEL_TEXT = ('Stream equality at every DLC sink, an independent RFCOMM wire checker (own frame parser and CRC-8: FCS, length '
              'indicator, credit ledger from the PN exchange and credit octets, information field against the peer N1 and '
              'L2CAP MTU) over both devices of ~160 (quick) / ~3200 (thorough) generated transfers that walk all 49 N1 pairs, '
              'all credit pairs 1..7 and the L2CAP MTU grid with 1-4 DLCs and up to 10^5 octets each way; DLC-table / state '
              'agreement after every step of enumerated open / close / reopen / shutdown orders; ~320 (quick) / ~1600 (thorough) '
              'refusal histories (DM-refused open_dlc once / repeatedly / between live DLCs and closes, overlapping open_dlc '
              'calls, repeated disconnect) each followed by further opens, two-way exchanges, the credit cross-check and one '
              'of three orderly teardowns, with both multiplexers required to be CONNECTED between operations and '
              'DISCONNECTED after DISC; ~170 (quick) / ~840 (thorough) histories against a hand-played RFCOMM responder that '
              'refuses at the PN or at the SABM stage (DM, DISC, late DM, late UA, UA then DISC), judged against the '
              'responder\'s own ledger of open DLCIs, received octets and granted credits; ~180 (quick) / ~900 (thorough) '
              'SLC set-ups run again on the same protocol objects after the k-th command or its answer was lost (every k) '
              'and after a completed one, with the SLC oracle and +CIEV updates checked afterwards; 3-7 HF commands after every SLC alternating refused and accepted ones; '
              'initiate_slc against '
              'AgProtocol for all 64 settings of the six feature bits it branches on x boundary lists, with the negotiated '
              'values predicted from the configurations by the check; one-final-result-code monitor on the AG DLC during '
              'every SLC and for ~130 hand-written command lines; ~650 (quick) codec connection set-up steps after an SLC with a '
              'scripted AG, a scripted HF, or a refusing gateway application (confirmation answered OK / ERROR / +CME ERROR / '
              'never / after the time-out, unusable codec -> AT+BAC, AT+BCC) with both sides required to hold the same active '
              'codec and codec_negotiation emitted only for completed set-ups; (every command, nominal / one more / one fewer / empty '
              'parameters / pipelined / after a non-command line). Held = no refuting execution among those observed; '
              'sampling, not proof.')
LEVEL_NOTE = ('Trusted: vlib/ref_rfcomm.py (parser, CRC table checked against the SABM/UA frames every session starts with, '
              'ledger), the HFP bit/indicator tables written in checks/c20.py, vlib/rig.py taps and ACL reassembler, the '
              'virtual-time loop. No frame loss; only the initiator opens DLCs; the size bound is min(N1, L2CAP MTU-5) minus '
              'one with a credit octet. The hfraw workload (scripted AG, unparseable unsolicited line) goes beyond the '
              'literal quantifier of the statement and is kept because a wedged reader stops every later SLC.')
TECHNIQUE = ('runtime monitoring: offline RFCOMM wire-log checker (frame parser + CRC + credit ledger) + stream equality + '
             'two-ended state comparison + negotiated-state oracle + AT final-result-code monitor')
