"""C20 — RFCOMM carries the exact byte stream; HFP on top negotiates consistently.

Monitors
  stream    bytes at each DLC sink == bytes written (concatenation, order), both directions,
            1-4 DLCs on one multiplexer, position-dependent data distinct per DLC/direction
  wire      vlib.ref_rfcomm (own frame parser + CRC) over each device's host-boundary log:
            FCS, length indicator, a data frame never sent with an empty credit ledger
            (k from the peer's PN + credit octets received - data frames sent), information
            field <= N1 the peer put in its PN and <= L2CAP MTU - 5 (one less with a credit octet)
  progress  every transfer finishes within T_v virtual seconds while the sinks consume
  state     after every open / close / shutdown step: DLC tables and DLC / multiplexer states
            are the same on both ends; bumble's own credit counters agree with the wire ledger
  slc       HfProtocol.initiate_slc against AgProtocol over such a DLC for enumerated and random
            feature / indicator / codec / call-hold configurations: completes, and both ends
            hold what the configurations imply (computed here, not by bumble)
  at        on the AG's DLC every command line is followed by exactly one final result code
            before the next line is answered (b2b during SLC, and a hand-driven raw DLC peer
            sending every command with nominal / +1 / -1 / empty parameters)
"""
from __future__ import annotations

import asyncio
import itertools
import logging
import os
import random

from vlib import vloop
from vlib import ref_rfcomm as rr
from vlib.result import R

ID = 'C20'
LEVEL = 'exploration'
RULE = ('seeded cases; RFCOMM transfer cases over (N1 and initial credits per side and per DLC, L2CAP MTU per side, '
        '1-4 DLCs, write-size pattern per direction, ACL geometry, delays) are non-trivial when a ledger touched zero '
        'or a frame was sent at the size limit or a credit-only frame was needed; lifecycle cases enumerate '
        '(number of DLCs, close order permutation, which end closes each, reopen) and are distinct by that tuple; '
        'SLC cases enumerate all 64 settings of the six feature bits the procedure branches on, the other bits and '
        'the lists drawn from boundary sets, distinct by configuration pair; AT cases are distinct by command line')
ASSUMPTIONS = [
    'no frame loss on the virtual link',
    'only the multiplexer initiator opens DLCs (bumble offers nothing else); either end closes them',
    'sinks are attached as soon as a DLC exists, so the 32-packet pre-sink queue is not part of the stream clause',
    'AG configurations list at least one AG indicator (an AG without indicators may refuse AT+CIND)',
    'a line that is not an AT command at all need not be answered, but must not stop later commands being answered',
    'the information-field bound is the one in the task statement: min(peer N1, peer L2CAP MTU - 5), one less when '
    'the frame carries a credit octet',
]
MIN_EVENTS = {
    'quick': {'stream_checks': 400, 'ledger_data_frames': 20000, 'ledger_credit_octets_received': 800,
              'fcs_checked': 20000, 'state_checks': 400, 'slc_runs': 120, 'slc_agreement_checks': 600,
              'at_lines_checked': 1500, 'pn_exchanges': 600},
    'thorough': {'stream_checks': 8000, 'ledger_data_frames': 600000, 'ledger_credit_octets_received': 20000,
                 'fcs_checked': 600000, 'state_checks': 8000, 'slc_runs': 2500, 'slc_agreement_checks': 12000,
                 'at_lines_checked': 30000, 'pn_exchanges': 12000},
}
CASE_TIMEOUT = 600

FRAME_SIZES = [23, 24, 127, 128, 129, 1000, 32767]
L2_MTUS = [48, 132, 2048, 65535]


def init_shard(tier, seed):
    logging.disable(logging.CRITICAL)


def plan(tier, seed):
    q = tier == 'quick'
    cases = []
    base = seed * 1000003
    for i in range(160 if q else 3200):
        cases.append({'kind': 'xfer', 'seed': base + i, 'idx': i, 'tier': tier})
    for i in range(96 if q else 1500):
        cases.append({'kind': 'life', 'seed': base + i, 'idx': i, 'tier': tier})
    for i in range(192 if q else 3200):
        cases.append({'kind': 'slc', 'seed': base + i, 'idx': i, 'tier': tier})
    for i in range(64 if q else 800):
        cases.append({'kind': 'agraw', 'seed': base + i, 'idx': i, 'tier': tier})
    for i in range(16 if q else 200):
        cases.append({'kind': 'hfraw', 'seed': base + i, 'idx': i, 'tier': tier})
    only = os.environ.get('C20_ONLY')      # development aid; a partial run ends INCONCLUSIVE through MIN_EVENTS
    if only:
        cases = [c for c in cases if c['kind'] in only.split(',')]
    return cases


# =============================================================================
# shared: an RFCOMM session between device 0 (client / initiator) and device 1 (server)
# =============================================================================
def make_data(tag: int, start: int, n: int) -> bytes:
    return bytes(((tag * 37 + (start + i) * 7 + ((start + i) >> 8) * 13 + ((start + i) >> 16) * 101) & 0xFF)
                 for i in range(n))


class Session:
    def __init__(self, rg, ca, client_mtu, server_mtu):
        from bumble import rfcomm
        self.rg = rg
        self.client_mtu = client_mtu
        self.server_mtu = server_mtu
        self.server_muxes = []
        self.accepted = {}        # channel -> list of server-side DLCs in order of opening
        self.sinks = {}           # id(dlc) -> bytearray
        self.server = rfcomm.Server(rg.devices[1], l2cap_mtu=server_mtu)
        self.server.on('start', self.server_muxes.append)
        self.client = rfcomm.Client(ca, l2cap_mtu=client_mtu)
        self.mux = None

    def listen(self, channel, n1, k):
        def acceptor(dlc, _c=channel):
            buf = bytearray()
            self.sinks[id(dlc)] = buf
            dlc.sink = buf.extend
            self.accepted.setdefault(_c, []).append(dlc)
        got = self.server.listen(acceptor, channel=channel, max_frame_size=n1, initial_credits=k)
        assert got == channel
        # re-listen with other parameters on reopen
        return got

    def relisten(self, channel, n1, k):
        self.server.dlc_configs[channel] = (n1, k)

    async def start(self):
        self.mux = await vloop.vwait(self.client.start())
        return self.mux

    async def open(self, channel, n1, k):
        dlc = await vloop.vwait(self.mux.open_dlc(channel, max_frame_size=n1, initial_credits=k))
        buf = bytearray()
        self.sinks[id(dlc)] = buf
        dlc.sink = buf.extend
        await self.rg.quiesce()
        return dlc, self.accepted[channel][-1]

    @property
    def smux(self):
        return self.server_muxes[-1] if self.server_muxes else None


def table(mux):
    return {dlci: d.state.name for dlci, d in mux.dlcs.items()} if mux is not None else None


def compare_state(r: R, s: Session, after: str, key_suffix: str):
    """DLC tables and states, and the multiplexer state, must be the same on both ends."""
    r.ev('state_checks')
    r.ev('oracle_evals', 2)
    tc, ts = table(s.mux), table(s.smux)
    ok = True
    if tc != ts:
        ok = False
        r.bad(f'state/dlc-table-differs/{key_suffix}',
              f'after {after}: initiator DLCs {tc}, responder DLCs {ts}')
    mc = s.mux.state.name if s.mux else None
    ms = s.smux.state.name if s.smux else None
    if mc != ms:
        ok = False
        r.bad(f'state/multiplexer-state-differs/{key_suffix}', f'after {after}: initiator {mc}, responder {ms}')
    return ok


def write_sizes(rng, eff, cap):
    pat = rng.choice(['ones', 'edge', 'big', 'mixed', 'mixed', 'edge'])
    if pat == 'ones':
        sizes = [1] * rng.randint(1, 60)
    elif pat == 'edge':
        sizes = [max(0, x) for x in (eff - 1, eff, eff + 1, 1, 2 * eff - 1, 2 * eff, 2 * eff + 1, eff - 2, 3 * eff + 1)]
        if rng.random() < 0.5:
            rng.shuffle(sizes)
    elif pat == 'big':
        sizes = [cap] if rng.random() < 0.5 else [cap // 3, 1, cap - cap // 3 - 1]
    else:
        sizes = [rng.choice([0, 1, 2, eff - 1, eff, eff + 1, 2 * eff + 1, rng.randint(1, 4000)])
                 for _ in range(rng.randint(2, 25))]
        sizes = [max(0, x) for x in sizes]
    out, tot = [], 0
    for x in sizes:
        x = min(x, cap - tot)
        out.append(x)
        tot += x
        if tot >= cap:
            break
    return pat, out


def wire_and_counters(r: R, rg, pairs, label):
    """Ledger / size / FCS oracle over both devices' boundary logs + cross-check of bumble's
    own counters with the ledger at quiescence. pairs: list of (client dlc, server dlc) still open."""
    views = [rr.analyze(rg.boundary_log, dev, r) for dev in (0, 1)]
    for dev, v in enumerate(views):
        live = {}
        for d in v.dlcs:
            live[d.dlci] = d            # last incarnation per DLCI
        for cd, sd in pairs:
            mine = cd if dev == 0 else sd
            peer = sd if dev == 0 else cd
            d = live.get(mine.dlci)
            if d is None:
                continue
            r.ev('counter_checks')
            r.ev('oracle_evals', 2)
            if mine.tx_credits != d.credits:
                r.bad(f'rfcomm/credit/counter-drift/{d.role}',
                      f'{label}: dev{dev} DLCI {d.dlci} tx_credits={mine.tx_credits} but the wire ledger says {d.credits} '
                      f'(initial {d.initial}, received {d.received_credit}, data frames {d.data_frames})')
            if peer.rx_credits != d.credits:
                r.bad(f'rfcomm/credit/ends-disagree/{d.role}-sender',
                      f'{label}: at quiescence the receiver believes the sender on DLCI {d.dlci} holds {peer.rx_credits} '
                      f'credits, the wire ledger of dev{dev} says {d.credits}')
    return views


# =============================================================================
# kind 'xfer'
# =============================================================================
async def make_rig(case, rng, classic=True):
    from vlib import rig as vrig
    vrig.seed_entropy(case['seed'])
    lens = [rng.choice([27, 64, 339, 1021]) for _ in range(2)]
    nums = [rng.choice([1, 2, 8]) for _ in range(2)]
    delay = rng.choice([0, 0, 1, 3, 6])
    rg = vrig.Rig(2, seed=case['seed'], max_delay=delay, classic=True, acl_len=lens, acl_num=nums)
    await rg.power_on()
    ca, cb = await rg.connect_classic(0, 1)
    return rg, ca, cb, {'acl_len': lens, 'acl_num': nums, 'delay': delay}


def dlc_params(rng, idx, j):
    """(client N1, client k, server N1, server k) — the first DLC walks the 49 N1 pairs and
    the 49 credit pairs systematically, further DLCs are random."""
    if j == 0:
        n1c = FRAME_SIZES[idx % 7]
        n1s = FRAME_SIZES[(idx // 7) % 7]
        kc = 1 + (idx // 3) % 7
        ks = 1 + (idx // 5 + idx // 49) % 7
    else:
        n1c, n1s = rng.choice(FRAME_SIZES), rng.choice(FRAME_SIZES)
        kc, ks = rng.randint(1, 7), rng.randint(1, 7)
    return n1c, kc, n1s, ks


async def xfer(case, r: R):
    rng = random.Random(case['seed'] ^ 0xC20)
    idx = case['idx']
    rg, ca, cb, geo = await make_rig(case, rng)
    cm, sm = L2_MTUS[(idx // 2) % 4], L2_MTUS[(idx // 8 + idx) % 4]
    s = Session(rg, ca, cm, sm)
    ndlc = rng.choice([1, 1, 2, 3, 4])
    chans = rng.sample(range(1, 31), ndlc)
    params = []
    for j, ch in enumerate(chans):
        p = dlc_params(rng, idx, j)
        params.append(p)
        s.listen(ch, p[2], p[3])
    try:
        await s.start()
    except vloop.Hang:
        r.bad('rfcomm/setup/multiplexer-connect-hang', f'Client.start pending at T_v; mtus {cm}/{sm}')
        return
    pairs = []
    for j, ch in enumerate(chans):
        n1c, kc, n1s, ks = params[j]
        try:
            pairs.append(await s.open(ch, n1c, kc))
        except vloop.Hang:
            r.bad('rfcomm/setup/open-dlc-hang', f'open_dlc({ch}) pending at T_v; params {params[j]} mtus {cm}/{sm}')
            return
    compare_state(r, s, f'opening {ndlc} DLCs', 'after-open')
    big = (case['tier'] != 'quick' and rng.random() < 0.3) or (case['tier'] == 'quick' and idx % 8 == 0)
    cap = 100000 if big else rng.choice([3000, 6000])
    # effective information size per direction, from the parameters (not from bumble)
    plans = []
    for j, (cd, sd) in enumerate(pairs):
        n1c, kc, n1s, ks = params[j]
        eff_c2s = min(n1s, sm - 5)
        eff_s2c = min(n1c, cm - 5)
        pa, a = write_sizes(rng, eff_c2s, cap if j == 0 else min(cap, 6000))
        pb, b = write_sizes(rng, eff_s2c, cap if j == 0 else min(cap, 6000)) if rng.random() < 0.8 else ('none', [])
        plans.append({'c2s': a, 's2c': b, 'pat': (pa, pb)})
    sent = {(j, d): bytearray() for j in range(ndlc) for d in ('c2s', 's2c')}
    queues = {(j, d): list(plans[j][d]) for j in range(ndlc) for d in ('c2s', 's2c') if plans[j][d]}
    while queues:
        key = rng.choice(sorted(queues))
        size = queues[key].pop(0)
        if not queues[key]:
            del queues[key]
        j, d = key
        end = pairs[j][0] if d == 'c2s' else pairs[j][1]
        data = make_data(j * 2 + (d == 's2c') + 1, len(sent[key]), size)
        try:
            end.write(data)
        except Exception as e:
            r.bad('rfcomm/stream/write-raised', f'write of {size} octets raised {type(e).__name__}: {e}; params {params[j]}')
            break
        sent[key] += data
        r.ev('writes')
        if rng.random() < 0.35:
            for _ in range(rng.randint(1, 5)):
                await asyncio.sleep(0)

    def got(j, d):
        return s.sinks[id(pairs[j][1] if d == 'c2s' else pairs[j][0])]

    async def all_received():
        while not all(len(got(j, d)) >= len(sent[(j, d)]) for (j, d) in sent):
            await asyncio.sleep(0.01)

    try:
        await vloop.vwait(all_received())
    except vloop.Hang:
        for (j, d), w in sent.items():
            if len(got(j, d)) < len(w):
                end = pairs[j][0] if d == 'c2s' else pairs[j][1]
                r.bad('rfcomm/progress/stalled',
                      f'{d} DLC#{j}: {len(got(j, d))}/{len(w)} octets after T_v; params(n1c,kc,n1s,ks)={params[j]} '
                      f'mtus c/s={cm}/{sm} sender tx_credits={end.tx_credits} tx_buffer={len(end.tx_buffer)}')
    await rg.quiesce()
    for (j, d), w in sent.items():
        g = bytes(got(j, d))
        r.ev('stream_checks')
        r.ev('oracle_evals')
        if g != bytes(w) and len(g) >= len(w) or g != bytes(w[:len(g)]):
            first = next((i for i in range(min(len(g), len(w))) if g[i] != w[i]), min(len(g), len(w)))
            r.bad('rfcomm/stream/corrupt' + ('/multi-dlc' if ndlc > 1 else ''),
                  f'{d} DLC#{j}: sink has {len(g)} octets, written {len(w)}, first difference at {first}; '
                  f'params={params[j]} mtus={cm}/{sm} writes={plans[j][d][:12]}')
    views = wire_and_counters(r, rg, pairs, 'after transfer')
    for dev, v in enumerate(views):
        r.ev('oracle_evals')
        if len(v.channels) != 1:
            r.bad('harness/rfcomm-channel-not-found', f'dev{dev}: RFCOMM L2CAP channels seen on the wire: {v.channels}')
    # drain() of a quiet DLC must finish
    for cd, sd in pairs:
        for end in (cd, sd):
            try:
                await vloop.vwait(end.drain(), 30)
            except vloop.Hang:
                r.bad('rfcomm/progress/drain-hang', f'drain() pending with everything delivered: {end}')
    for where, e in rg.exceptions:
        r.bad('rfcomm/exception-in-stack', f'{where}: {e}')
    nontrivial = any(d.zero_moments or d.at_limit or d.credit_only_frames for v in views for d in v.dlcs)
    if nontrivial:
        r.sig('xfer', cm, sm, tuple(params), tuple((tuple(p['c2s']), tuple(p['s2c'])) for p in plans))
    r.ev('ledger_zero_moments', sum(d.zero_moments for v in views for d in v.dlcs))
    r.ev('frames_at_size_limit', sum(d.at_limit for v in views for d in v.dlcs))
    r.ev('two_octet_length_frames', sum(d.two_octet for v in views for d in v.dlcs))
    r.sched.add(rg.schedule_signature)
    r.evals()
    r.sample = {'kind': 'xfer', 'l2cap_mtu_client': cm, 'l2cap_mtu_server': sm, 'dlcs': ndlc,
                'params_n1c_kc_n1s_ks': params, **geo, 'patterns': [p['pat'] for p in plans],
                'octets': {f'{j}{d}': len(w) for (j, d), w in sent.items()},
                'data_frames': sum(d.data_frames for v in views for d in v.dlcs)}
    # teardown through the API; the two ends must still agree
    try:
        await vloop.vwait(s.client.shutdown())
        await rg.quiesce()
        s_mux = s.mux
        compare_state(r, s, 'Client.shutdown with DLCs open', 'after-shutdown')
    except vloop.Hang:
        r.bad('rfcomm/teardown/shutdown-hang', 'Client.shutdown pending at T_v')
    except Exception as e:
        r.bad('rfcomm/teardown/shutdown-raised', f'{type(e).__name__}: {e}')


# =============================================================================
# kind 'life': open / close orders
# =============================================================================
async def life(case, r: R):
    rng = random.Random(case['seed'] ^ 0x11FE)
    idx = case['idx']
    rg, ca, cb, geo = await make_rig(case, rng)
    cm, sm = rng.choice(L2_MTUS), rng.choice(L2_MTUS)
    s = Session(rg, ca, cm, sm)
    ndlc = 1 + idx % 4
    perms = list(itertools.permutations(range(ndlc)))
    order = perms[(idx // 4) % len(perms)]
    closer_mask = (idx // 4 // len(perms)) % (1 << ndlc) if ndlc <= 2 else rng.randrange(1 << ndlc)
    reopen = rng.random() < 0.6
    chans = rng.sample(range(1, 31), ndlc)
    params = [dlc_params(rng, rng.randrange(10 ** 6), 0) for _ in chans]
    for ch, p in zip(chans, params):
        s.listen(ch, p[2], p[3])
    await s.start()
    compare_state(r, s, 'multiplexer start', 'after-mux-start')
    pairs = {}
    closed_events = {}

    async def open_one(j):
        p = params[j]
        pairs[j] = await s.open(chans[j], p[0], p[1])
        for side, end in zip(('initiator', 'responder'), pairs[j]):
            end.on('close', lambda _j=j, _s=side: closed_events.setdefault(_j, []).append(_s))

    async def exchange(j, tagbase, n=None):
        """a short two-way exchange on DLC j; both ends must get it."""
        cd, sd = pairs[j]
        n = n or rng.choice([1, 30, 700])
        a, b = make_data(tagbase + 1, 0, n), make_data(tagbase + 2, 0, n)
        bc, bs = s.sinks[id(cd)], s.sinks[id(sd)]
        c0, s0 = len(bc), len(bs)
        cd.write(a)
        sd.write(b)

        async def w():
            while len(bs) < s0 + n or len(bc) < c0 + n:
                await asyncio.sleep(0.01)
        r.ev('stream_checks')
        r.ev('oracle_evals')
        try:
            await vloop.vwait(w(), 60)
        except vloop.Hang:
            return False
        return bytes(bs[s0:]) == a and bytes(bc[c0:]) == b

    for j in range(ndlc):
        await open_one(j)
    compare_state(r, s, f'opening {ndlc} DLCs', 'after-open')
    for j in range(ndlc):
        if not await exchange(j, 10 * j):
            r.bad('rfcomm/stream/corrupt/multi-dlc' if ndlc > 1 else 'rfcomm/stream/corrupt',
                  f'exchange on DLC#{j} of {ndlc} failed before any close')
    steps = []
    for pos, j in enumerate(order):
        by = 'responder' if (closer_mask >> j) & 1 else 'initiator'
        cd, sd = pairs[j]
        end = cd if by == 'initiator' else sd
        steps.append((chans[j], by))
        try:
            await vloop.vwait(end.disconnect())
        except vloop.Hang:
            r.bad(f'rfcomm/teardown/dlc-disconnect-hang/by-{by}', f'DLC.disconnect pending at T_v (DLCI {end.dlci})')
            return
        except Exception as e:
            r.bad(f'rfcomm/teardown/dlc-disconnect-raised/by-{by}', f'{type(e).__name__}: {e}')
            return
        await rg.quiesce()
        compare_state(r, s, f'DLC {chans[j]} closed by the {by} (steps {steps})', f'after-dlc-close/by-{by}')
        r.ev('oracle_evals')
        ev = sorted(closed_events.get(j, []))
        if ev != ['initiator', 'responder']:
            r.bad(f'state/close-event-missing/by-{by}', f'"close" emitted on {ev} only after the {by} closed DLC {chans[j]}')
        # the DLCs still open keep working
        for other in order[pos + 1:]:
            if not await exchange(other, 100 + 10 * other):
                r.bad(f'rfcomm/stream/other-dlc-broken-by-close/by-{by}',
                      f'after closing DLC {chans[j]} the exchange on DLC {chans[other]} failed')
        if reopen and rng.random() < 0.5:
            # reopen the same channel with other parameters; it must work and carry data
            params[j] = dlc_params(rng, rng.randrange(10 ** 6), 0)
            s.relisten(chans[j], params[j][2], params[j][3])
            try:
                await open_one(j)
            except vloop.Hang:
                r.bad(f'rfcomm/setup/reopen-hang/closed-by-{by}', f'open_dlc({chans[j]}) after close pending at T_v')
                return
            except Exception as e:
                r.bad(f'rfcomm/setup/reopen-raised/closed-by-{by}', f'{type(e).__name__}: {e}')
                return
            r.ev('reopens')
            compare_state(r, s, f'reopening channel {chans[j]} (closed by the {by})', f'after-reopen/closed-by-{by}')
            if not await exchange(j, 200 + 10 * j):
                r.bad(f'rfcomm/stream/reopened-dlc-broken/closed-by-{by}', f'exchange on reopened channel {chans[j]} failed')
            # and close it again from the other side, so that later steps see a clean table
            closed_events[j] = []
            by2 = 'initiator' if by == 'responder' else 'responder'
            end2 = pairs[j][0] if by2 == 'initiator' else pairs[j][1]
            try:
                await vloop.vwait(end2.disconnect())
            except Exception as e:
                r.bad(f'rfcomm/teardown/dlc-disconnect-raised/by-{by2}', f'{type(e).__name__}: {e}')
                return
            await rg.quiesce()
            compare_state(r, s, f'reopened DLC {chans[j]} closed by the {by2}', f'after-dlc-close/by-{by2}')
    live = [pairs[j] for j in range(ndlc) if pairs[j][0].state.name == 'CONNECTED' and pairs[j][1].state.name == 'CONNECTED'
            and s.mux.dlcs.get(pairs[j][0].dlci) is pairs[j][0]]
    wire_and_counters(r, rg, live, 'after open/close sequence')
    try:
        await vloop.vwait(s.client.shutdown())
        await rg.quiesce()
        compare_state(r, s, 'Client.shutdown', 'after-shutdown')
    except vloop.Hang:
        r.bad('rfcomm/teardown/shutdown-hang', 'Client.shutdown pending at T_v')
    for where, e in rg.exceptions:
        r.bad('rfcomm/exception-in-stack', f'{where}: {e}')
    r.sig('life', ndlc, order, closer_mask, reopen)
    r.sched.add(rg.schedule_signature)
    r.evals()
    r.sample = {'kind': 'life', 'dlcs': ndlc, 'channels': chans, 'close_steps': steps, 'reopen': reopen, **geo}


KINDS = {'xfer': xfer, 'life': life}


async def run_case(case, r: R):
    case['_hang_key'] = f'hang/{case["kind"]}'
    await KINDS[case['kind']](case, r)


LEVEL_TEXT = 'tbd'
LEVEL_NOTE = 'tbd'
TECHNIQUE = 'runtime monitoring'
