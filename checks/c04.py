"""C04 — outbound data obeys controller buffer credits, stays FIFO, never stalls;
the flow-controlled pipe delivers every packet once, in order.

Monitors:
  queue   lock-step reference model beside the real DataPacketQueue over random
          histories of enqueue / completion report / flush / drain waiters
  queue/fault   the same model while the send callback raises for chosen send calls (error path at the
          hand-over): credits, FIFO, no-stall and drain judged on what was actually handed over
  queue/bursts  one connection used for several bursts with idle periods in between; drain() is judged
          on return too (nothing of the connection may be in flight or queued when it returns)
  pipe    FlowControlAsyncPipe under random write/pause/resume/sink-progress
  pipe2   the pipe with zero-length packets (first / last / only), settle points, repeated pause/resume cycles
  rig     two/three devices streaming over tiny controller buffers, one link
          dropped mid-stream; credit ledger computed from the HCI tap log
  hostwire a real Host initialised by its own reset() against a real Controller with three
          different pools (BR/EDR ACL, LE ACL or shared, ISO; v2/v1 buffer-size commands),
          the controller's data side played by hand (vlib/hostwire.py): ledger per pool over
          connect / send / completion / disconnect / BIG termination / second reset histories
"""
from __future__ import annotations

import asyncio
import random

from vlib import vloop
from vlib.result import R

ID = 'C04'
LEVEL = 'exploration'
RULE = ('seeded random histories; a queue history is non-trivial when it had >=2 connections '
        'or a flush or an over/unknown report while packets were waiting; distinct = distinct '
        'operation-sequence hash. pipe histories non-trivial when >=2 packets were queued at '
        'once; rig cases non-trivial when a buffer-full wait was observed in the HCI log. '
        'hostwire histories (Host.reset() against a Controller with three different pools, then '
        'hand-played connection / completion / disconnection events, optionally a second reset with '
        'another geometry) are non-trivial when a buffer-full wait was observed and >=2 pools carried '
        'packets; distinct = distinct (geometries, operation sequence). Second families: queue histories '
        'whose send callback raises for 1-3 consecutive send calls at a random position (one or two windows), '
        'non-trivial when a hand-over actually raised; queue histories with 2-4 bursts on one connection that '
        'was idle in between, drain() waiters on every burst; half of both with real HCI_AclDataPacket objects of '
        'payload length 0/1/5/27; pipe histories with zero-length packets (first, last, only, between), settle '
        'points and 2-4 pause/fill/resume cycles on the same pipe; distinct = distinct operation sequence')
ASSUMPTIONS = [
    'an over-report for handle h of n packets is taken to complete min(n, in-flight[h]) packets; '
    'reports for unknown handles complete nothing',
    'queued/completed/pending are compared with the model only in histories without over-reports and without a '
    'send callback that raised',
    'a send callback that raises aborts the queue operation that called it (the exception reaches the caller) and '
    'the packet being handed over is lost: it was never given to the controller, holds no credit and is never '
    'completed; a later second hand-over attempt of that packet is tolerated. The no-stall clause is not judged for '
    'the aborted operation itself (counted as queue_stall_not_judged_right_after_raise) but from the next queue '
    'operation on (an enqueue that follows at once)',
    'drain(h) that returns normally must find nothing of h in flight or queued at that moment (checked within three '
    'loop turns of the operation that let it return); drain() raising ValueError for a handle that never had a '
    'packet handed over is accepted',
    'pipe settle point: pump started, pipe not paused, the sink\'s drain released on every loop turn for '
    '20 x backlog + 30 turns => everything written must have reached the sink',
    'hostwire: a pool\'s capacity is what the controller wrote into its (LE_)Read_Buffer_Size[_V2] Command '
    'Complete; a zero LE length/count means LE links use the BR/EDR pool; the controller frees the buffers of '
    'a handle when it reports its disconnection (or the termination of its BIG); every link is gone before '
    'Host.reset() is called a second time',
]
# hostwire: deciding counters (about half of what a run produces)
HOSTWIRE_MIN = {'hostwire_histories': 2400, 'hostwire_packets': 100000, 'hostwire_iso_packets': 35000,
                'hostwire_packets_le_links': 35000, 'hostwire_second_resets': 900,
                'hostwire_packets_after_second_reset': 40000, 'hostwire_disconnects_outstanding': 6000,
                'hostwire_disconnects_freeing_for_others': 2000, 'hostwire_full_waits': 90000,
                'hostwire_drain_waiters': 6000, 'hostwire_nocp_events': 25000, 'hostwire_nocp_multi_pool': 5000}
# second families (send callback raises; later bursts; zero-length packets): deciding counters, about half of a quick run
FAMILY2_MIN = {'queue_send_raises': 4000, 'queue_send_raises_in_on_packets_completed': 900,
               'queue_states_judged_after_send_raised': 30000, 'queue_later_bursts': 2300,
               'drain_returns_judged_called_with_packets_in_flight': 28000, 'drain_returns_judged_on_later_burst': 10000,
               'queue_zero_length_acl_handed_over': 11000, 'pipe_zero_length_writes': 9000,
               'pipe_settles_zero_length_last': 2200, 'pipe_settles_zero_length_first': 2000,
               'pipe_settles_only_zero_length': 1000, 'pipe_later_cycles': 1200}
MIN_EVENTS = {
    'quick': {'queue_ops': 300000, 'pipe_writes': 15000, 'pipe_restarts': 600, 'rig_acl_packets': 1500, 'drain_waiters': 40000,
              **HOSTWIRE_MIN, **FAMILY2_MIN},
    'thorough': {'queue_ops': 5000000, 'pipe_writes': 300000, 'pipe_restarts': 15000, 'rig_acl_packets': 15000, 'drain_waiters': 500000,
                 **{k: 16 * v for k, v in HOSTWIRE_MIN.items()}, **{k: 20 * v for k, v in FAMILY2_MIN.items()}},
}
CASE_TIMEOUT = 600


def plan(tier, seed):
    cases = []
    nq = 256 if tier == 'quick' else 1280
    per = 150 if tier == 'quick' else 800
    for i in range(nq):
        cases.append({'kind': 'queue', 'seed': seed * 100003 + i, 'histories': per})
    # second family: the send callback raises (error path at the hand-over); later bursts on an idle connection
    nq2 = 64 if tier == 'quick' else 320
    for i in range(nq2):
        cases.append({'kind': 'queue', 'mode': 'fault', 'seed': seed * 100003 + 7000000 + i, 'histories': per})
    for i in range(nq2 // 2):
        cases.append({'kind': 'queue', 'mode': 'bursts', 'seed': seed * 100003 + 8000000 + i, 'histories': per // 2})
    for i in range(32 if tier == 'quick' else 320):
        cases.append({'kind': 'pipe2', 'seed': seed * 100003 + 9000000 + i, 'histories': 150 if tier == 'quick' else 400})
    npipe = 64 if tier == 'quick' else 320
    for i in range(npipe):
        cases.append({'kind': 'pipe', 'seed': seed * 100003 + i, 'histories': 40 if tier == 'quick' else 200})
    nrig = 128 if tier == 'quick' else 960
    for i in range(nrig):
        cases.append({'kind': 'rig', 'seed': seed * 100003 + i})
    nhw = 96 if tier == 'quick' else 960
    for i in range(nhw):
        cases.append({'kind': 'hostwire', 'seed': seed * 100003 + i, 'histories': 25 if tier == 'quick' else 40})
    return cases


# =============================================================================
# queue: lock-step model
# =============================================================================
class Pkt:
    __slots__ = ('pid', 'handle')

    def __init__(self, pid, handle):
        self.pid = pid
        self.handle = handle

    def __repr__(self):
        return f'P{self.pid}@{self.handle}'


class SendFailed(OSError):
    """what the harness' send callback raises (a transport write error at the hand-over)"""


class Waiter:
    __slots__ = ('h', 'task', 'touched_zero', 'later_burst', 'inflight_at_call')

    def __init__(self, h, task, touched_zero, later_burst, inflight_at_call):
        self.h, self.task, self.touched_zero, self.later_burst = h, task, touched_zero, later_burst
        self.inflight_at_call = inflight_at_call


async def queue_history(rng: random.Random, r: R, hist_id, mode=None):
    """mode None: the original random histories.
    mode 'fault': the send callback raises for chosen send calls (1-3 consecutive calls, at a random
      position of the history, one or two windows): the packet whose hand-over raised was never given
      to the controller, so it holds no credit, and everything else is judged as before.
    mode 'bursts': one connection used for 2-4 bursts with an idle period (nothing outstanding) between
      them and drain() waiters on every burst.
    In both new modes half of the histories queue real HCI_AclDataPacket objects (payload lengths
    0, 0, 1, 5, 27) and the send callback serialises them like Host.send_hci_packet does."""
    from bumble.host import DataPacketQueue

    max_in_flight = rng.choice([1, 1, 2, 2, 3, 4, 8])
    nconn = rng.choice([1, 2, 2, 3, 4])
    handles = [0x40 + i for i in range(nconn)]
    length = rng.randint(3, 40)
    style = rng.choice(['mixed', 'hog-flush', 'mixed', 'overreport'])
    sent: list[Pkt] = []
    raised: list[Pkt] = []
    fault_sends: set[int] = set()
    send_calls = [0]
    real_packets = False
    by_obj: dict[int, Pkt] = {}
    keep_alive = []
    if mode is not None:
        real_packets = rng.random() < 0.5
        if mode == 'fault':
            r.ev('queue_fault_histories')
            for _w in range(rng.choice([1, 1, 2])):
                start = rng.randint(0, length)
                for k in range(rng.choice([1, 1, 1, 2, 3])):
                    fault_sends.add(start + k)

    def send(obj):
        k = send_calls[0]
        send_calls[0] += 1
        p = obj
        if real_packets:
            p = by_obj[id(obj)]
            raw = bytes(obj)
            r.ev('queue_real_packets_serialised')
            dl = len(obj.data)
            if dl == 0:
                r.ev('queue_zero_length_acl_handed_over')
            if not (raw[0] == 2 and int.from_bytes(raw[1:3], 'little') & 0xFFF == p.handle
                    and int.from_bytes(raw[3:5], 'little') == dl and len(raw) == 5 + dl):
                r.bad('queue/packet-altered', f'{p} serialises to {raw.hex()} (payload length {dl})')
        if k in fault_sends:
            raised.append(p)
            r.ev('queue_send_raises')
            raise SendFailed('transport write failed')
        sent.append(p)

    q = DataPacketQueue(27, max_in_flight, sent.append if mode is None else send)

    # model
    submitted: dict[int, list[int]] = {h: [] for h in handles}  # pids in order
    waiting: dict[int, list[int]] = {h: [] for h in handles}
    inflight: dict[int, int] = {h: 0 for h in handles}
    sent_seen: dict[int, list[int]] = {h: [] for h in handles}
    dead: set[int] = set()  # pids discarded by flush before being sent
    ever_sent: set[int] = set()
    over_reported = False
    m_queued = 0
    m_completed = 0
    next_pid = 0
    ops = []
    waiters: list[Waiter] = []
    nontrivial = False
    sent_cursor = 0
    faulted = False          # a hand-over has raised in this history
    lost: set[int] = set()   # pids whose hand-over raised (never given to the controller)
    sent_since_flush: dict[int, int] = {h: 0 for h in handles}
    been_idle: dict[int, int] = {h: 0 for h in handles}  # times the handle went back to nothing outstanding since its last flush
    fsuffix = lambda: '/after-send-raised' if faulted else ''

    def absorb_sent():
        nonlocal sent_cursor
        ok = True
        while sent_cursor < len(sent):
            p = sent[sent_cursor]
            sent_cursor += 1
            r.ev('queue_sends')
            if p.pid in ever_sent:
                r.bad('queue/sent-twice', f'{p} sent twice; ops={ops}')
                ok = False
                continue
            ever_sent.add(p.pid)
            if p.pid in lost:
                # a second hand-over attempt of a packet whose first hand-over raised: tolerated
                lost.discard(p.pid)
                r.ev('queue_resent_after_raise')
                inflight[p.handle] += 1
                continue
            if p.pid in dead:
                r.bad('queue/sent-after-flush', f'{p} sent after its connection was flushed; ops={ops}')
                ok = False
                continue
            w = waiting[p.handle]
            if not w or w[0] != p.pid:
                r.bad('queue/order', f'{p} sent out of per-connection order (expected {w[:1]}); ops={ops}')
                ok = False
                if p.pid in w:
                    w.remove(p.pid)
            else:
                w.pop(0)
            inflight[p.handle] += 1
            sent_seen[p.handle].append(p.pid)
            sent_since_flush[p.handle] += 1
        return ok

    def absorb_raised():
        """the packet whose hand-over raised: it was the next of its connection, it is gone from the queue
        and the controller never got it (no credit, never completed)"""
        nonlocal faulted
        while raised:
            p = raised.pop(0)
            faulted = True
            ops.append(('send-raised', p.handle, p.pid))
            if p.pid in lost:
                r.ev('queue_rehandover_raised_again')   # a retried hand-over that raised again: still not handed over
                continue
            if p.pid in ever_sent:
                r.bad('queue/sent-twice/after-send-raised', f'{p} handed over again; ops={ops}')
                continue
            if p.pid in dead:
                r.bad('queue/sent-after-flush', f'{p} handed over after its connection was flushed; ops={ops}')
                continue
            w = waiting[p.handle]
            if not w or w[0] != p.pid:
                r.bad('queue/order/after-send-raised', f'{p} handed over out of per-connection order (expected {w[:1]}); ops={ops}')
                if p.pid in w:
                    w.remove(p.pid)
            else:
                w.pop(0)
            lost.add(p.pid)

    def check_state(after, skip_stall=False):
        absorb_sent()
        absorb_raised()
        total = sum(inflight.values())
        nwait = sum(len(w) for w in waiting.values())
        r.ev('oracle_evals')
        if faulted:
            r.ev('queue_states_judged_after_send_raised')
        if total > max_in_flight:
            r.bad('queue/credit-exceeded' + fsuffix(),
                  f'{total} in flight > max {max_in_flight} after {after}; ops={ops}')
        if skip_stall:
            r.ev('queue_stall_not_judged_right_after_raise')
        elif nwait and total < max_in_flight:
            r.bad('queue/stall' + ('/after-send-raised' if faulted else
                                   '/after-flush' if after[0] == 'flush' else
                                   '/after-over-report' if over_reported else ''),
                  f'{nwait} waiting with {max_in_flight - total} free credits after {after}; ops={ops}')
        for h in handles:
            if sent_since_flush[h] and inflight[h] == 0 and not waiting[h] and after[0] in ('complete', 'over') and after[1] == h:
                been_idle[h] += 1
        if not over_reported and not faulted:
            if (q.queued, q.completed, q.pending) != (m_queued, m_completed, m_queued - m_completed):
                r.bad('queue/counters',
                      f'queued/completed/pending={(q.queued, q.completed, q.pending)} model='
                      f'{(m_queued, m_completed, m_queued - m_completed)} after {after}; ops={ops}')

    async def drain_waiter(h):
        try:
            await q.drain(h)
            return 'done'
        except ValueError:
            return 'no-such'

    async def turn():
        for _ in range(3):
            await asyncio.sleep(0)

    def outstanding(h):
        return inflight[h] + len(waiting[h])

    async def check_waiters(after):
        await turn()
        for w in list(waiters):
            h, task = w.h, w.task
            if task.done():
                waiters.remove(w)
                r.ev('drain_completions')
                if task.result() == 'done':
                    # drain() returned: every packet of the connection must have been completed or discarded
                    r.ev('oracle_evals')
                    r.ev('drain_returns_judged')
                    if w.inflight_at_call:
                        r.ev('drain_returns_judged_called_with_packets_in_flight')
                    if w.later_burst:
                        r.ev('drain_returns_judged_on_later_burst')
                    if outstanding(h):
                        r.ev('drain_returned_with_packets_outstanding')
                        # discriminating class: did the connection's in-flight count touch 0 while this waiter
                        # waited (packets of the connection still queued behind it), or was it never 0?
                        cls = 'packets-still-queued' if w.touched_zero else 'in-flight-never-zero'
                        if w.later_burst and not w.touched_zero:
                            cls += '/later-burst'
                        r.bad(f'queue/drain-early/{cls}',
                              f'drain({h:#x}) returned after {after} with {inflight[h]} packets in flight and '
                              f'{len(waiting[h])} queued for that connection ({w.inflight_at_call} in flight when it was '
                              f'called; idle {been_idle[h]}x before); ops={ops}')
                continue
            # still pending: allowed only while the connection has something in flight
            r.ev('oracle_evals')
            if inflight[h] == 0 and len(waiting[h]) == 0:
                r.bad('queue/drain-pending' + fsuffix(),
                      f'drain({h:#x}) still pending although nothing outstanding after {after}; ops={ops}')
                task.cancel()
                waiters.remove(w)

    def new_packet(h):
        nonlocal next_pid, m_queued
        p = Pkt(next_pid, h)
        next_pid += 1
        submitted[h].append(p.pid)
        waiting[h].append(p.pid)
        m_queued += 1
        ops.append(('enq', h, p.pid))
        if not real_packets:
            return p
        from bumble import hci
        data = bytes([p.pid & 0xFF]) * rng.choice([0, 0, 1, 5, 27])
        obj = hci.HCI_AclDataPacket(connection_handle=h, pb_flag=0, bc_flag=0, data_total_length=len(data), data=data)
        by_obj[id(obj)] = p
        keep_alive.append(obj)
        if not data:
            r.ev('queue_zero_length_acl_enqueued')
        return obj

    def call(fn, *args):
        """one queue operation; True when the send callback raised out of it"""
        try:
            fn(*args)
            return False
        except SendFailed:
            r.ev('queue_ops_aborted_by_send_raise')
            r.ev('queue_send_raises_in_' + fn.__name__)
            return True

    def zero_touch(h):
        for w in waiters:
            if w.h == h:
                w.touched_zero = True

    async def judged(fn, *args):
        """run one queue operation and judge the state after it. When the send callback raised, the
        operation was aborted with that exception: the stall clause is judged again from the next queue
        operation on (an enqueue that follows at once, as a caller that carries on would do)."""
        aborted = call(fn, *args)
        r.ev('queue_ops')
        check_state(ops[-1], skip_stall=aborted)
        await check_waiters(ops[-1])
        n = 0
        while aborted and n < 8:
            n += 1
            obj = new_packet(rng.choice(handles))
            aborted = call(q.enqueue, obj, ops[-1][1])
            r.ev('queue_ops')
            r.ev('queue_kicks_after_raise')
            check_state(ops[-1], skip_stall=aborted)
            await check_waiters(ops[-1])

    def add_waiter(h):
        ops.append(('drain', h))
        t = asyncio.ensure_future(drain_waiter(h))
        later = been_idle[h] >= 1 and inflight[h] > 0
        waiters.append(Waiter(h, t, inflight[h] == 0, later, inflight[h]))
        r.ev('drain_waiters')
        if later:
            r.ev('drain_waiters_on_later_burst')

    if mode == 'bursts':
        # one connection, 2-4 bursts, idle in between; the other connections carry background traffic
        r.ev('queue_burst_histories')
        hb = handles[0]
        for b in range(rng.choice([2, 3, 3, 4])):
            within = rng.random() < 0.6   # burst fits into the free credits: in-flight never touches 0 before the end
            m = rng.randint(1, max_in_flight) if within else rng.randint(1, 2 * max_in_flight + 1)
            for _ in range(m):
                await judged(q.enqueue, new_packet(hb), hb)
                if len(handles) > 1 and rng.random() < 0.3 and not within:
                    ho = rng.choice(handles[1:])
                    await judged(q.enqueue, new_packet(ho), ho)
            for _ in range(rng.choice([1, 1, 2])):
                add_waiter(hb)
                r.ev('queue_ops')
                check_state(ops[-1])
                await check_waiters(ops[-1])
            r.ev('queue_bursts')
            if b >= 1:
                r.ev('queue_later_bursts')
            # completions until the burst connection has nothing outstanding
            for _ in range(1000):
                hs = [h for h in handles if inflight[h]]
                if not outstanding(hb) or not hs:
                    break
                h = rng.choice(hs)
                n = rng.randint(1, inflight[h])
                if n == inflight[h]:
                    zero_touch(h)
                inflight[h] -= n
                m_completed += n
                ops.append(('complete', h, n))
                await judged(q.on_packets_completed, n, h)
                if rng.random() < 0.2 and outstanding(hb):
                    add_waiter(hb)
                    r.ev('queue_ops')
                    check_state(ops[-1])
                    await check_waiters(ops[-1])
        length = 0

    for step in range(length):
        if style == 'hog-flush' and step < max_in_flight + 2:
            op = 'enq'
            h = handles[0] if step < max_in_flight else handles[-1]
        else:
            op = rng.choices(['enq', 'complete', 'flush', 'drain', 'unknown', 'over'],
                             [8, 6, 1.2 if style != 'hog-flush' else 3, 2, 0.4,
                              1.5 if style == 'overreport' else 0])[0]
            h = rng.choice(handles)
        if mode is not None:
            # same operations, run through judged() (the send callback may raise out of any of them)
            if op == 'enq':
                await judged(q.enqueue, new_packet(h), h)
            elif op == 'complete':
                if inflight[h] == 0:
                    continue
                n = rng.randint(1, inflight[h])
                if n == inflight[h]:
                    zero_touch(h)
                inflight[h] -= n
                m_completed += n
                ops.append(('complete', h, n))
                await judged(q.on_packets_completed, n, h)
            elif op == 'flush':
                if sum(len(w) for hh, w in waiting.items() if hh != h):
                    nontrivial = True
                m_completed += inflight[h] + len(waiting[h])
                dead.update(waiting[h])
                waiting[h] = []
                inflight[h] = 0
                been_idle[h] = 0
                sent_since_flush[h] = 0
                ops.append(('flush', h))
                await judged(q.flush, h)
            elif op == 'drain':
                add_waiter(h)
                r.ev('queue_ops')
                check_state(ops[-1])
                await check_waiters(ops[-1])
            elif op == 'unknown':
                n = rng.randint(1, 3)
                ops.append(('unknown', 0x99, n))
                await judged(q.on_packets_completed, n, 0x99)
            continue
        if op == 'enq':
            p = Pkt(next_pid, h)
            next_pid += 1
            submitted[h].append(p.pid)
            waiting[h].append(p.pid)
            m_queued += 1
            ops.append(('enq', h, p.pid))
            q.enqueue(p, h)
        elif op == 'complete':
            if inflight[h] == 0:
                continue
            n = rng.randint(1, inflight[h])
            if n == inflight[h]:
                zero_touch(h)
            inflight[h] -= n
            m_completed += n
            ops.append(('complete', h, n))
            q.on_packets_completed(n, h)
        elif op == 'over':
            n = inflight[h] + rng.randint(1, 3)
            if inflight[h] == 0 and not sent_seen[h]:
                continue
            if sum(len(w) for w in waiting.values()):
                nontrivial = True
            over_reported = True
            zero_touch(h)
            inflight[h] = 0
            ops.append(('over', h, n))
            q.on_packets_completed(n, h)
        elif op == 'unknown':
            n = rng.randint(1, 3)
            ops.append(('unknown', 0x99, n))
            if sum(len(w) for w in waiting.values()):
                nontrivial = True
            q.on_packets_completed(n, 0x99)
        elif op == 'flush':
            if sum(len(w) for hh, w in waiting.items() if hh != h):
                nontrivial = True
            m_completed += inflight[h] + len(waiting[h])
            dead.update(waiting[h])
            waiting[h] = []
            inflight[h] = 0
            been_idle[h] = 0
            sent_since_flush[h] = 0
            ops.append(('flush', h))
            q.flush(h)
        elif op == 'drain':
            add_waiter(h)
        r.ev('queue_ops')
        check_state(ops[-1])
        await check_waiters(ops[-1])

    # final: complete everything, everything must get sent and drained
    for _ in range(10000):
        hs = [h for h in handles if inflight[h]]
        if not hs:
            break
        h = rng.choice(hs)
        n = rng.randint(1, inflight[h])
        if n == inflight[h]:
            zero_touch(h)
        inflight[h] -= n
        m_completed += n
        ops.append(('complete', h, n))
        if mode is not None:
            await judged(q.on_packets_completed, n, h)
            continue
        q.on_packets_completed(n, h)
        check_state(ops[-1])
        await check_waiters(ops[-1])
    left = sum(len(w) for w in waiting.values())
    r.ev('oracle_evals')
    if left:
        r.bad('queue/stall/final' + fsuffix(), f'{left} packets never sent although every buffer was returned; ops={ops}')
    for w in waiters:
        if not w.task.done():
            w.task.cancel()
    if mode == 'fault':
        if faulted:
            r.ev('queue_fault_histories_with_raise')
            r.sig('queue-fault', max_in_flight, nconn, tuple(ops))
    elif mode == 'bursts':
        r.sig('queue-bursts', max_in_flight, nconn, tuple(ops))
    elif nconn >= 2 or nontrivial:
        r.sig('queue', max_in_flight, nconn, tuple(ops))
    r.evals()
    return {'max_in_flight': max_in_flight, 'handles': handles, 'mode': mode, 'ops': ops[:40]}


# =============================================================================
# pipe
# =============================================================================
async def pipe_history(rng: random.Random, r: R):
    from bumble.utils import FlowControlAsyncPipe

    out = []
    paused_calls = []
    gate = asyncio.Event()
    use_drain = rng.random() < 0.7
    gate_mode = rng.choice(['open', 'stepped'])
    if gate_mode == 'open':
        gate.set()

    async def drain_sink():
        if gate_mode == 'stepped':
            await gate.wait()
            gate.clear()
        else:
            await asyncio.sleep(0)

    src_state = {'paused': False, 'pauses': 0, 'resumes': 0}

    def pause_source():
        src_state['paused'] = True
        src_state['pauses'] += 1

    def resume_source():
        src_state['paused'] = False
        src_state['resumes'] += 1

    threshold = rng.choice([0, 1, 10, 100, 1000])
    pipe = FlowControlAsyncPipe(pause_source, resume_source, out.append,
                                drain_sink if use_drain else None, threshold)
    pipe.start()
    written = []
    ops = []
    n = rng.randint(2, 30)
    maxq = 0
    for i in range(n):
        op = rng.choices(['write', 'burst', 'pause', 'resume', 'step', 'yield', 'restart'], [5, 2, 1, 1.5, 3, 3, 0.7])[0]
        if op == 'write':
            pk = bytes([len(written) & 0xFF, len(written) >> 8]) + bytes(rng.randint(0, 20))
            written.append(pk)
            pipe.write(pk)
            r.ev('pipe_writes')
        elif op == 'burst':
            for _ in range(rng.randint(2, 6)):
                pk = bytes([len(written) & 0xFF, len(written) >> 8]) + bytes(rng.randint(0, 20))
                written.append(pk)
                pipe.write(pk)
                r.ev('pipe_writes')
        elif op == 'pause':
            pipe.pause()
        elif op == 'resume':
            pipe.resume()
        elif op == 'restart':
            # the pipe is stopped and started again (a bridge re-attached), with 0-2 loop turns in between
            pipe.stop()
            for _ in range(rng.choice([0, 0, 1, 2])):
                await asyncio.sleep(0)
            pipe.start()
            r.ev('pipe_restarts')
        elif op == 'step':
            gate.set()
            await asyncio.sleep(0)
        else:
            for _ in range(rng.randint(1, 3)):
                await asyncio.sleep(0)
        ops.append(op)
        maxq = max(maxq, len(pipe.queue))
        # prefix property at every step: what came out is a prefix of what went in
        r.ev('oracle_evals')
        if out != written[:len(out)]:
            r.bad('pipe/order', f'sink got {[p[:2].hex() for p in out]} for writes '
                                f'{[p[:2].hex() for p in written]}; ops={ops} threshold={threshold}')
            break
    # finish: resume and open the gate until everything is out (bounded)
    pipe.resume()
    for _ in range(20 * len(written) + 50):
        gate.set()
        await asyncio.sleep(0)
        if len(out) >= len(written):
            break
    r.ev('oracle_evals')
    if out != written:
        if sorted(out) == sorted(written):
            r.bad('pipe/order', f'sink got {[p[:2].hex() for p in out]} for writes '
                                f'{[p[:2].hex() for p in written]}; ops={ops}')
        elif len(out) < len(written):
            r.bad('pipe/lost', f'{len(written) - len(out)} packets never delivered after resume; ops={ops}')
        else:
            r.bad('pipe/duplicated', f'sink got {len(out)} packets for {len(written)} writes; ops={ops}')
    pipe.stop()
    if maxq >= 2:
        r.sig('pipe', threshold, use_drain, gate_mode, tuple(ops))
    r.evals()
    return {'threshold': threshold, 'ops': ops, 'writes': len(written)}


# =============================================================================
# pipe, second family: zero-length packets (first / last / only / between), settle points
# (pipe not paused, sink making progress => everything written must be out), and the same
# pipe paused/resumed/filled for several cycles
# =============================================================================
TINY_PATTERNS = [[0], [0, 0], [0, 3], [3, 0], [3, 0, 2], [0, 3, 0], [2, 2, 0], [0, 0, 1], [1, 0, 0], [1], [0, 0, 0]]


async def pipe_history2(rng: random.Random, r: R):
    from bumble.utils import FlowControlAsyncPipe

    out = []
    gate = asyncio.Event()
    use_drain = rng.random() < 0.7
    gate_mode = rng.choice(['open', 'stepped'])
    if gate_mode == 'open':
        gate.set()

    async def drain_sink():
        if gate_mode == 'stepped':
            await gate.wait()
            gate.clear()
        else:
            await asyncio.sleep(0)

    src = {'paused': False}
    threshold = rng.choice([0, 0, 1, 10, 100])
    pipe = FlowControlAsyncPipe(lambda: src.__setitem__('paused', True), lambda: src.__setitem__('paused', False),
                                out.append, drain_sink if use_drain else None, threshold)
    if rng.random() < 0.8:
        pipe.start()
        late_start = False
    else:
        late_start = True   # packets written before the pump is started
    written = []
    ops = []
    failed = False
    shape = rng.choice(['tiny', 'tiny', 'cycles', 'random'])
    lengths = rng.choice([[0, 0, 1, 2, 20], [0, 1], [0, 0, 0, 5], [0]])

    def write(length=None):
        if length is None:
            length = rng.choice(lengths)
        pk = bytes([len(written) & 0xFF]) * length
        written.append(pk)
        ops.append(f'w{length}')
        pipe.write(pk)
        r.ev('pipe_writes')
        r.ev('pipe2_writes')
        if not length:
            r.ev('pipe_zero_length_writes')

    def prefix_ok():
        r.ev('oracle_evals')
        if out != written[:len(out)]:
            r.bad('pipe/order' + ('/zero-length' if b'' in written[:len(out) + 1] else ''),
                  f'sink got lengths {[len(p) for p in out]} for writes {[len(p) for p in written]}; ops={ops} '
                  f'threshold={threshold}')
            return False
        return True

    async def settle(label):
        """pipe started and not paused, the sink makes progress: everything written must come out"""
        nonlocal failed
        if pipe.paused or pipe.pump_task is None:
            return
        for _ in range(20 * (len(written) - len(out)) + 30):
            gate.set()
            await asyncio.sleep(0)
            if len(out) >= len(written):
                break
        ops.append('settle')
        r.ev('pipe_settles')
        if written and not written[-1]:
            r.ev('pipe_settles_zero_length_last')
        if written and not written[0]:
            r.ev('pipe_settles_zero_length_first')
        if written and not any(written):
            r.ev('pipe_settles_only_zero_length')
        r.ev('oracle_evals')
        if len(out) < len(written) and out == written[:len(out)]:
            head = written[len(out)]
            r.bad('pipe/stall' + ('/zero-length-at-head' if not head else '') + f'/{label}',
                  f'{len(written) - len(out)} packets (lengths {[len(p) for p in written[len(out):]]}) stay in the pipe '
                  f'although it is not paused and the sink accepts data; ops={ops} threshold={threshold} '
                  f'drain_sink={use_drain} gate={gate_mode}')
            failed = True
        elif not prefix_ok():
            failed = True

    if shape == 'tiny':
        pat = rng.choice(TINY_PATTERNS)
        for i, length in enumerate(pat):
            write(length)
            for _ in range(rng.choice([0, 0, 1, 3])):
                gate.set()
                await asyncio.sleep(0)
            if rng.random() < 0.15:
                pipe.pause()
                ops.append('pause')
                await asyncio.sleep(0)
                pipe.resume()
                ops.append('resume')
        if late_start:
            pipe.start()
            ops.append('start')
        await settle('tiny')
    elif shape == 'cycles':
        if late_start:
            pipe.start()
        ncycles = rng.choice([2, 3, 3, 4])
        for c in range(ncycles):
            if failed:
                break
            pause_first = rng.random() < 0.7
            if pause_first:
                pipe.pause()
                ops.append('pause')
            for _ in range(rng.randint(1, 5)):
                write()
                if rng.random() < 0.3:
                    gate.set()
                    await asyncio.sleep(0)
            if not pause_first and rng.random() < 0.5:
                pipe.pause()
                ops.append('pause')
                write()
            for _ in range(rng.choice([0, 1, 2])):
                gate.set()
                await asyncio.sleep(0)
            r.ev('oracle_evals')
            prefix_ok()
            pipe.resume()
            ops.append('resume')
            r.ev('pipe_pause_resume_cycles')
            if c >= 1:
                r.ev('pipe_later_cycles')
            await settle('later-cycle' if c >= 1 else 'first-cycle')
    else:
        if late_start:
            pipe.start()
        for i in range(rng.randint(2, 25)):
            if failed:
                break
            op = rng.choices(['write', 'burst', 'pause', 'resume', 'step', 'yield', 'restart', 'settle'],
                             [5, 2, 1, 1.5, 3, 3, 0.5, 1.5])[0]
            if op == 'write':
                write()
            elif op == 'burst':
                for _ in range(rng.randint(2, 6)):
                    write()
            elif op == 'pause':
                pipe.pause()
            elif op == 'resume':
                pipe.resume()
            elif op == 'restart':
                pipe.stop()
                for _ in range(rng.choice([0, 0, 1, 2])):
                    await asyncio.sleep(0)
                pipe.start()
                r.ev('pipe_restarts')
            elif op == 'step':
                gate.set()
                await asyncio.sleep(0)
            elif op == 'settle':
                await settle('random')
                continue
            else:
                for _ in range(rng.randint(1, 3)):
                    await asyncio.sleep(0)
            ops.append(op)
            if not prefix_ok():
                failed = True
    # finish: resume, everything must be out (bounded)
    if not failed:
        pipe.resume()
        for _ in range(20 * len(written) + 50):
            gate.set()
            await asyncio.sleep(0)
            if len(out) >= len(written):
                break
        r.ev('oracle_evals')
        if out != written:
            missing = written[len(out):]
            zl = '/zero-length' if missing and not any(missing) else ''
            if len(out) < len(written) and out == written[:len(out)]:
                r.bad('pipe/lost' + zl, f'{len(missing)} packets (lengths {[len(p) for p in missing]}) never delivered '
                                        f'after resume; ops={ops} threshold={threshold}')
            elif len(out) > len(written):
                r.bad('pipe/duplicated' + ('/zero-length' if b'' in written else ''),
                      f'sink got {len(out)} packets for {len(written)} writes; ops={ops}')
            else:
                prefix_ok()
    pipe.stop()
    r.sig('pipe2', shape, threshold, use_drain, gate_mode, tuple(ops))
    r.evals()
    return {'threshold': threshold, 'shape': shape, 'ops': ops[:40], 'writes': len(written)}


# =============================================================================
# rig: credit ledger from the HCI log
# =============================================================================
async def rig_case(case, r: R):
    from bumble import hci
    from vlib import rig as vrig

    rng = random.Random(case['seed'])
    vrig.seed_entropy(case['seed'])
    n = rng.choice([2, 3, 3])
    bufs = [rng.choice([1, 1, 2, 3, 4]) for _ in range(n)]
    lens = [rng.choice([27, 27, 48, 64]) for _ in range(n)]
    rg = vrig.Rig(n, seed=case['seed'], max_delay=rng.choice([0, 1, 3, 6]),
                  le_acl_len=lens, le_acl_num=bufs)
    await rg.power_on()
    conns = {}
    for p in range(1, n):
        cc, pc = await rg.connect_le(0, p)
        conns[p] = (cc, pc)
    # A controller may report several handles in one Number Of Completed Packets event, and
    # may name a handle the host no longer (or never) knew. Half of the cases rewrite the
    # controller's single-handle events accordingly before the host sees them.
    nocp_mode = rng.choice(['plain', 'plain', 'stale-first', 'stale-last', 'merged'])
    held = []

    def rewrite_nocp(pkt):
        if pkt[0] != 4 or pkt[1] != 0x13 or nocp_mode == 'plain':
            return pkt
        nh = pkt[3]
        # (arrayed HCI parameters are interleaved: handle[0], count[0], handle[1], count[1], ...)
        hs = [int.from_bytes(pkt[4 + 4 * i:6 + 4 * i], 'little') for i in range(nh)]
        cs = [int.from_bytes(pkt[6 + 4 * i:8 + 4 * i], 'little') for i in range(nh)]
        r.ev('rig_nocp_rewritten')
        if nocp_mode == 'merged' and rng.random() < 0.5 and len(held) < 3:
            # held back, reported together with the next one (or on its own a few turns later:
            # a controller does not sit on a completion for ever)
            held.append((hs, cs))
            if len(held) == 1:
                def release(n):
                    if not held:
                        return
                    if n > 0:
                        rg.loop.call_soon(release, n - 1)
                        return
                    hs2 = sum((h for h, _ in held), [])
                    cs2 = sum((c for _, c in held), [])
                    held.clear()
                    body = bytes([len(hs2)]) + b''.join(h.to_bytes(2, 'little') + c.to_bytes(2, 'little') for h, c in zip(hs2, cs2))
                    merged = bytes([4, 0x13, len(body)]) + body
                    rg.log_hci(0, vrig.C2H, merged)
                    rg.c2h[0].fifo.push(rg.c2h[0]._deliver, merged)
                rg.loop.call_soon(release, 6)
            return None
        for ph, pc_ in held:
            hs, cs = ph + hs, pc_ + cs
        held.clear()
        stale = (0x0EEE, rng.choice([0, 1]))
        if nocp_mode == 'stale-first':
            hs, cs = [stale[0]] + hs, [stale[1]] + cs
        elif nocp_mode == 'stale-last':
            hs, cs = hs + [stale[0]], cs + [stale[1]]
        body = bytes([len(hs)]) + b''.join(h.to_bytes(2, 'little') + c.to_bytes(2, 'little') for h, c in zip(hs, cs))
        return bytes([4, 0x13, len(body)]) + body

    rg.c2h[0].filters.append(rewrite_nocp)
    CID = 0x0070
    received = {p: [] for p in range(1, n)}
    for p in range(1, n):
        rg.devices[p].l2cap_channel_manager.register_fixed_channel(
            CID, lambda ch, pdu, _p=p: received[_p].append(bytes(pdu)))
    # streams from device 0 to each peer
    msgs = {p: [] for p in range(1, n)}
    count = rng.randint(3, 12)
    victim = rng.choice(list(range(1, n))) if n >= 3 and rng.random() < 0.8 else None
    cut_after = rng.randint(1, count) if victim else None
    order = []
    for k in range(count):
        for p in range(1, n):
            order.append((p, k))
    rng.shuffle(order)
    sent_before_cut = {p: 0 for p in range(1, n)}
    disconnected = False
    hog = victim is not None and rng.random() < 0.6
    if hog:
        # The victim's peer drops the link while host 0 cannot yet see it (its
        # controller->host pipe is held back); host 0 fills every buffer with packets
        # for the dying handle, queues survivor traffic behind them, and only then
        # learns of the disconnection.
        disconnected = True
        r.ev('rig_hog_scenarios')
        rg.c2h[0].fifo.paused = True
        try:
            t = asyncio.ensure_future(conns[victim][1].disconnect())
            for _ in range(200):
                await asyncio.sleep(0)
                if rg.controllers[0].find_le_connection_by_handle(conns[victim][0].handle) is None:
                    break
        except Exception:
            pass
        for k in range(bufs[0] + rng.randint(0, 2)):
            rg.devices[0].send_l2cap_pdu(conns[victim][0].handle, CID, bytes([victim, 0x80 + k]) + bytes(rng.randint(0, 15)))
        for _ in range(30):
            await asyncio.sleep(0)
    for idx, (p, k) in enumerate(order):
        if victim and not disconnected and idx >= cut_after * (n - 1):
            # drop the victim link from the peer side while data is queued
            disconnected = True
            who = rng.choice(['peer', 'self'])
            try:
                if who == 'peer':
                    await vloop.vwait(conns[victim][1].disconnect())
                else:
                    await vloop.vwait(conns[victim][0].disconnect())
            except Exception:
                pass
        if p == victim and disconnected:
            continue
        payload = bytes([p, k]) + bytes(rng.randint(0, 200))
        msgs[p].append(payload)
        rg.devices[0].send_l2cap_pdu(conns[p][0].handle, CID, payload)
        if rng.random() < 0.3:
            await asyncio.sleep(0)
    if hog:
        rg.c2h[0].fifo.paused = False
    await rg.quiesce()
    for _ in range(200):
        if not held:
            break
        await asyncio.sleep(0)
    await rg.quiesce()
    # --- ledger on controller 0 -------------------------------------------------
    outstanding: dict[int, int] = {}
    dead_handles: set[int] = set()
    peak = 0
    full_waits = 0
    acl = 0
    for seq, dev, direction, pkt, _t in rg.hci_log:
        if dev != 0:
            continue
        if direction == vrig.H2C and pkt[0] == 2:
            handle, _pb, _bc, _data = vrig.parse_acl(pkt)
            if handle in dead_handles:
                # sent by a host that has not yet seen the Disconnection Complete the
                # controller already emitted: the controller drops it, it holds no buffer
                r.ev('rig_acl_to_dead_handle')
                continue
            outstanding[handle] = outstanding.get(handle, 0) + 1
            acl += 1
            tot = sum(outstanding.values())
            peak = max(peak, tot)
            if tot == bufs[0]:
                full_waits += 1
            r.ev('oracle_evals')
            if tot > bufs[0]:
                r.bad('rig/credit-exceeded', f'{tot} ACL packets outstanding at controller with '
                      f'{bufs[0]} buffers (bufs={bufs} lens={lens} seed={case["seed"]})')
        elif direction == vrig.C2H and pkt[0] == 4 and pkt[1] == 0x13:
            nh = pkt[3]
            for i in range(nh):
                h = int.from_bytes(pkt[4 + 4 * i:6 + 4 * i], 'little')
                c = int.from_bytes(pkt[6 + 4 * i:8 + 4 * i], 'little')
                if h in outstanding:
                    outstanding[h] = max(0, outstanding[h] - c)
        elif direction == vrig.C2H and pkt[0] == 4 and pkt[1] == 0x05:
            h = int.from_bytes(pkt[4:6], 'little') & 0xFFF
            outstanding.pop(h, None)
            dead_handles.add(h)
    r.ev('rig_acl_packets', acl)
    for p in range(1, n):
        if p == victim:
            # whatever arrived must be a prefix of what was sent
            r.ev('oracle_evals')
            if received[p] != msgs[p][:len(received[p])]:
                r.bad('rig/victim-order', f'victim link received non-prefix sequence')
            continue
        r.ev('oracle_evals')
        if received[p] != msgs[p]:
            key = 'rig/survivor-stalled' if len(received[p]) < len(msgs[p]) else 'rig/survivor-corrupt'
            r.bad(key + ('/after-disconnect' if victim else ''),
                  f'peer {p} received {len(received[p])}/{len(msgs[p])} PDUs; bufs={bufs} lens={lens} '
                  f'victim={victim} queue pending={rg.hosts[0].le_acl_packet_queue.pending} seed={case["seed"]}')
    q = rg.hosts[0].le_acl_packet_queue
    r.ev('oracle_evals')
    if q.pending != 0:
        r.bad('rig/pending-nonzero', f'pending={q.pending} at quiescence; bufs={bufs} victim={victim}')
    if full_waits:
        r.sig('rig', n, tuple(bufs), tuple(lens), victim, count)
    r.sched.add(rg.schedule_signature)
    r.evals()
    r.sample = {'kind': 'rig', 'nocp': nocp_mode, 'devices': n, 'bufs': bufs, 'acl_len': lens, 'victim': victim,
                'pdus': {p: len(m) for p, m in msgs.items()}, 'acl_packets': acl, 'peak_outstanding': peak}


# =============================================================================
# hostwire: Host.reset() geometry wiring + link life-cycle, judged on the ledger of
# vlib/hostwire.py (credits per pool, FIFO/exactly-once per link, no stall, drain)
# =============================================================================
class HostwireJudge:
    def __init__(self, r: R):
        self.r = r

    def on_reset(self, sc):
        pass

    def on_exception(self, sc, what, e):
        self.r.bad(f'hostwire/raises/{what}', f'{type(e).__name__}: {e}; {sc.context()}')

    def on_stray(self, sc, pk):
        last = [d for d in sc.dead if d.handle == pk.handle]
        pool = last[-1].pool.name if last else 'never-connected'
        self.r.ev('oracle_evals')
        self.r.bad(f'hostwire/sent-to-dead-handle/{pool}',
                   f'{pk.brief()} handed to the controller for a handle without a link; {sc.context()}')

    def on_emit(self, sc, pk):
        r, link = self.r, pk.link
        pool = link.pool
        phase = '' if sc.phase < 2 else '/after-second-reset'
        r.ev('oracle_evals', 3)
        if pk.type != (5 if link.is_iso else 2):
            r.bad(f'hostwire/packet-type/{pool.name}', f'{pk.brief()} on {link!r}; {sc.context()}')
        # exactly once, in per-link submission order: the stream bytes of this packet are the
        # next bytes of what was submitted on this life of the handle
        want = bytes(link.submitted[pk.offset:pk.offset + len(pk.payload)])
        if want != pk.payload:
            stale = len(pk.payload) >= 4 and any(
                d.handle == link.handle and pk.payload in d.submitted for d in sc.dead)
            key = 'sent-after-disconnect' if stale else 'order'
            r.bad(f'hostwire/{key}/{pool.name}',
                  f'{pk.brief()} on {link!r} carries {pk.payload[:12].hex()}.. at stream offset {pk.offset}, '
                  f'submitted stream has {want[:12].hex()}.. ({len(link.submitted)} bytes submitted); {sc.context()}')
        tot = sc.pool_inflight(pool)
        if tot > pool.count:
            r.bad(f'hostwire/over-credit/{pool.name}{phase}',
                  f'{tot} packets in flight in pool {pool.name} for which the controller advertised {pool.count} '
                  f'buffers ({ {repr(l): l.inflight for l in sc.pool_links(pool)} }); {sc.context()}')

    def on_link_closed(self, sc, link):
        pass

    def on_settle(self, sc, after):
        r = self.r
        label = sc.after_label(after)
        for pool in sc.pools.values():
            waiting = sc.pool_waiting(pool)
            tot = sc.pool_inflight(pool)
            r.ev('oracle_evals')
            if waiting and tot < pool.count:
                r.bad(f'hostwire/stall/{pool.name}/{label}',
                      f'{[repr(l) for l in waiting]} have {[l.waiting for l in waiting]} stream bytes waiting while '
                      f'pool {pool.name} has {pool.count - tot} of {pool.count} buffers free; {sc.context()}')
        for w in list(sc.waiters):
            link = w.link
            r.ev('oracle_evals')
            r.ev('hostwire_drain_pending_checks')
            if not (link.alive and (link.inflight or link.waiting)):
                r.bad(f'hostwire/drain-pending/{link.pool.name}/{label}',
                      f'drain({link.handle:#x}) asked at step {w.born} still pending although {link!r} '
                      f'{"has nothing in flight or queued" if link.alive else "was discarded " + str(link.closed_with)}; '
                      f'{sc.context()}')
                w.task.cancel()
                sc.waiters.remove(w)

    def on_finish(self, sc):
        for link in sc.live.values():
            self.r.ev('oracle_evals')
            if link.waiting:
                self.r.bad(f'hostwire/stall/{link.pool.name}/final',
                           f'{link!r}: {link.waiting} stream bytes never handed over although every buffer was '
                           f'returned; {sc.context()}')


async def hostwire_case(case, r: R):
    from vlib import hostwire
    rng = random.Random(case['seed'] ^ 0x4057)
    sc = None
    for _ in range(case['histories']):
        sc = await hostwire.run_history(rng, r, HostwireJudge(r))
        if any(p.full_waits for p in sc.pools.values()) and sum(1 for p in sc.pools.values() if p.packets) >= 2:
            r.sig('hostwire', *sc.signature())
        r.evals()
    r.sample = sc.summary()


async def run_case(case, r: R):
    rng = random.Random(case['seed'])
    if case['kind'] == 'hostwire':
        await hostwire_case(case, r)
    elif case['kind'] == 'queue':
        for i in range(case['histories']):
            s = await queue_history(rng, r, i, case.get('mode'))
        r.sample = {'kind': 'queue', **s}
    elif case['kind'] == 'pipe2':
        for i in range(case['histories']):
            s = await pipe_history2(rng, r)
        r.sample = {'kind': 'pipe2', **s}
    elif case['kind'] == 'pipe':
        for i in range(case['histories']):
            s = await pipe_history(rng, r)
        r.sample = {'kind': 'pipe', **s}
    else:
        await rig_case(case, r)

LEVEL_TEXT = ('Lock-step reference model beside the real DataPacketQueue over ~10^4 (quick) / 5x10^5 '
              '(thorough) random multi-connection histories including flushes, over-reports and '
              'unknown handles; order/exactly-once oracle on FlowControlAsyncPipe under random '
              'pause/resume/sink progress; credit ledger and delivery oracle over the HCI tap log of '
              '2-3 device rigs with 1-4 controller buffers and a link dropped mid-stream; per-pool credit / '
              'FIFO / no-stall / drain ledger over 2400 (quick) / 38400 (thorough) histories of a real Host '
              'reset against a Controller with three different buffer pools (dedicated or shared LE, ISO, '
              'v1/v2 commands), hand-played link life-cycle and a second reset with another geometry; 9600 (quick) / 2.6x10^5 '
              '(thorough) queue histories whose send callback raises at a random position, 2400 / 6x10^4 multi-burst '
              'histories with drain() judged on return (nothing of the connection in flight or queued), 4800 / 1.3x10^5 '
              'pipe histories with zero-length packets, settle points and repeated pause/resume cycles. Held = no '
              'refuting execution among those observed; this is sampling, not proof.')
LEVEL_NOTE = ('Trusted: the 60-line model in checks/c04.py, the ledger and hand-written HCI events of '
              'vlib/hostwire.py, the tap/delay pipes of vlib/rig.py, '
              'CPython asyncio. Assumes an over-report completes min(n, in-flight of that handle).')
TECHNIQUE = 'runtime monitoring: lock-step reference model + offline HCI-log credit ledger'
