"""C08 — classic L2CAP channels (Basic / ERTM): every SDU once, in order; ERTM window,
sequence numbers, FCS and SAR on the wire; set-up ends open/open (same mode) or closed/closed.

Monitors
  sdu      SDUs at each sink == SDUs written (count, order, bytes), both directions
  wire     independent ERTM frame parser over the sender's host-boundary log:
           TxSeq = previous+1 mod 64, unacknowledged I-frames <= TxWindow the peer put in
           its Configuration Request, I-frame payload <= peer MPS, FCS (own CRC-16) right
           when negotiated and absent when not, legal SAR sequences, SDU length field right
  setup    after create_l2cap_channel settles: both ends OPEN in one mode or both closed,
           never pending at T_v, for every pair of client/server specs incl. mismatches
  rawcfg   a hand-driven (vlib.rig.RawPeer) classic peer that accepts whatever bumble proposes but
           orders the configuration exchange in every legal way - its request first, its response
           first, each held back until the other went through, at once / after loop turns / after
           virtual seconds, "connection pending" before success, "unacceptable parameters" with a
           proposal first, a response or a request in two parts (continuation flag) - with bumble
           as initiator and as acceptor, Basic and ERTM: both ends open (then SDUs both ways and a
           close by either side) or both closed, never a pending connect(). Before its final Configuration Request the
           peer may send one or two that bumble HAS to refuse (unknown option: QoS / extended flow specification /
           extended window; an FCS bumble cannot do) and that advertise OTHER values (MTU, TxWindow, MaxTransmit, MPS):
           the data phase - SDUs of several segments, more frames than the window, acknowledgements held back for
           0.1-1.5 virtual seconds - is judged against the values of the request that was ACCEPTED, by the raw peer's
           own count and by the wire oracle; then an idle stretch (2.5-15 virtual s) and more SDUs
  ertmtime two bumble ends in ERTM over TIME: 3-6 cycles of (burst: one frame / several SDUs back to back / a segmented
           SDU / more frames than the window, from one or both ends; every SDU at the other sink) and an idle stretch
           placed around the retransmission and monitor time-outs of the sender (0.4x, just below, just above, 1.5x
           the retransmission time-out; retransmission + half / all of the monitor time-out; 2.5x and 5x their sum),
           default (2 s / 12 s) and shorter time-outs: all SDUs of all later cycles arrive once, in order
  retry    set-ups issued back to back on one link WITHOUT waiting for quiescence: a set-up refused for a mode
           mismatch (client Basic -> server ERTM and the reverse) followed at once by a retry, towards the same or a
           matching server; close by one end / by both ends at once followed at once by the next set-up; every
           matching set-up ends open/open (an SDU each way), every mismatching one closed/closed, none pending;
           tables and acceptor-end states exact at the end
"""
from __future__ import annotations

import asyncio
import random
import struct

from vlib import vloop
from vlib import ref_l2cap as rl
from vlib.result import R

ID = 'C08'
LEVEL = 'exploration'
RULE = ('seeded cases over (client spec, server spec, SDU size sequences both ways, ACL geometry, delays); '
        'non-trivial when the modes/FCS of the two specs differ, or an SDU was segmented, or TxSeq wrapped past '
        '63, or the window filled; distinct = distinct spec pair + SDU size sequence. rawcfg cases: seeded (role, '
        'ordering script, pace, mode, CIDs/MTUs, pending/renegotiation/continuation feature); each is non-trivial (the '
        'peer never behaves like bumble); distinct = distinct parameter tuple (incl. the refused requests, the '
        'acknowledgement policy and the idle stretch). ertmtime cases: seeded (two ERTM specs with time-outs, 3-6 cycles of '
        'burst shape x direction x idle stretch relative to the time-outs); non-trivial always (each has an idle stretch '
        'followed by traffic); distinct = distinct history. retry cases: seeded (specs, chain of 3-7 set-ups towards a '
        'mismatching / matching server, gaps none / loop turns / quiescence, closes by one or both ends); distinct = history')
ASSUMPTIONS = [
    'no frame loss on the virtual link, so retransmission paths are not exercised',
    'a Configuration Request that was answered with a failure result leaves nothing behind: the values that bind the '
    'sender are those of the last request that was answered with success',
    'the raw peer acknowledges every I-frame within 1.5 virtual seconds, i.e. inside the retransmission time-out',
    'SDU sizes are kept <= min(client MTU, server MTU): larger SDUs are an API misuse the statement does not cover',
    'TxWindow in a Configuration Request is the number of I-frames its sender can receive unacknowledged',
    'with an FCS negotiated, SDUs are kept small enough for payload + FCS to fit the 16-bit L2CAP length field',
]
MIN_EVENTS = {
    'quick': {'sdu_checks': 900, 'wire_iframes': 20000, 'setup_checks': 800, 'fcs_checked': 15000, 'seq_wraps': 100,
              'multi_sdu_checks': 1500, 'multi_channels_with_different_cids': 100, 'multi_closes': 80,
              'rawcfg_setups': 400, 'rawcfg_both_open': 300, 'rawcfg_order_rsp-first': 60, 'rawcfg_order_req-first-late-rsp': 60,
              'rawcfg_bumble_acceptor': 150, 'rawcfg_bumble_initiator': 150, 'rawcfg_conn_pending': 40,
              'rawcfg_rsp_continuations': 15, 'rawcfg_sdu_checks': 500,
              'rawcfg_refused_requests': 150, 'rawcfg_accepted_window_or_mps_smaller_than_refused': 25,
              'rawcfg_window_filled_after_refused_request': 12, 'rawcfg_idle_rounds': 150, 'rawcfg_segmented_sdus_to_raw_peer': 100,
              'time_sdu_checks': 900, 'time_cycles_after_idle': 280, 'time_cycles_after_idle-beyond-retransmission-timeout': 70,
              'time_cycles_after_idle-beyond-monitor-timeout': 110, 'time_multi_frame_bursts_after_idle': 230,
              'retry_setups_without_quiescence': 300, 'retry_refused-setup_then_open_without_quiescence': 130,
              'retry_crossing-closes_then_open_without_quiescence': 45, 'retry_sdu_checks': 450},
    'thorough': {'sdu_checks': 4000, 'wire_iframes': 100000, 'setup_checks': 3000, 'fcs_checked': 10000, 'seq_wraps': 100,
                 'multi_sdu_checks': 15000, 'multi_channels_with_different_cids': 1000, 'multi_closes': 800,
                 'rawcfg_setups': 3500, 'rawcfg_both_open': 2500, 'rawcfg_order_rsp-first': 500,
                 'rawcfg_order_req-first-late-rsp': 500, 'rawcfg_bumble_acceptor': 1200, 'rawcfg_bumble_initiator': 1200,
                 'rawcfg_conn_pending': 300, 'rawcfg_rsp_continuations': 120, 'rawcfg_sdu_checks': 4000,
                 'rawcfg_refused_requests': 1100, 'rawcfg_accepted_window_or_mps_smaller_than_refused': 180,
                 'rawcfg_window_filled_after_refused_request': 90, 'rawcfg_idle_rounds': 1100, 'rawcfg_segmented_sdus_to_raw_peer': 700,
                 'time_sdu_checks': 8000, 'time_cycles_after_idle': 2500, 'time_cycles_after_idle-beyond-retransmission-timeout': 600,
                 'time_cycles_after_idle-beyond-monitor-timeout': 1000, 'time_multi_frame_bursts_after_idle': 2000,
                 'retry_setups_without_quiescence': 2700, 'retry_refused-setup_then_open_without_quiescence': 1200,
                 'retry_crossing-closes_then_open_without_quiescence': 400, 'retry_sdu_checks': 4000},
}
CASE_TIMEOUT = 300

PSM = 0x1001


def plan(tier, seed):
    n = 900 if tier == 'quick' else 6000
    m = 150 if tier == 'quick' else 1500
    return ([{'kind': 'xfer', 'seed': seed * 1000003 + i, 'tier': tier} for i in range(n)] +
            [{'kind': 'multi', 'seed': seed * 1000003 + 50000 + i, 'tier': tier} for i in range(m)] +
            [{'kind': 'rawcfg', 'seed': seed * 1000003 + 80000 + i, 'tier': tier} for i in range(480 if tier == 'quick' else 4000)] +
            [{'kind': 'ertmtime', 'seed': seed * 1000003 + 120000 + i, 'tier': tier} for i in range(160 if tier == 'quick' else 1600)] +
            [{'kind': 'retry', 'seed': seed * 1000003 + 140000 + i, 'tier': tier} for i in range(160 if tier == 'quick' else 1600)])


def crc16(data: bytes) -> int:
    # L2CAP FCS: g(D) = D^16 + D^15 + D^2 + 1, LSB first, initial value 0
    crc = 0
    for b in data:
        crc ^= b
        for _ in range(8):
            crc = (crc >> 1) ^ 0xA001 if crc & 1 else crc >> 1
    return crc


def gen_spec(rng):
    ertm = rng.random() < 0.7
    return dict(
        mode='ertm' if ertm else 'basic',
        mtu=rng.choice([48, 256, 1024, 2000, 65535]),
        mps=rng.choice([23, 48, 100, 1010]),
        tx_window_size=rng.choice([1, 2, 8, 63]),
        fcs_enabled=rng.random() < 0.4,
    )


def mkspec(d, psm):
    from bumble import l2cap
    return l2cap.ClassicChannelSpec(
        psm=psm, mtu=d['mtu'], mps=d['mps'], tx_window_size=d['tx_window_size'], fcs_enabled=d['fcs_enabled'],
        mode=l2cap.TransmissionMode.ENHANCED_RETRANSMISSION if d['mode'] == 'ertm' else l2cap.TransmissionMode.BASIC)


def parse_conf_options(data):
    out = {}
    off = 0
    while off + 2 <= len(data):
        t, ln = data[off] & 0x7F, data[off + 1]
        out[t] = data[off + 2: off + 2 + ln]
        off += 2 + ln
    return out


def wire_check(boundary_log, dev, r, expect_mode, expect_fcs, tag):
    """ERTM/basic wire oracle for device `dev` as a sender. Returns stats."""
    from vlib import rig as vrig
    pdus = vrig.l2cap_log(boundary_log, dev=dev)
    # channel discovery from signalling seen by dev
    my_scid_to_dcid = {}
    peer_conf = {}   # dcid (peer endpoint) -> options the peer sent in its Configuration Request to me
    st = {}          # dcid -> state
    stats = {'iframes': 0, 'wraps': 0, 'max_outstanding': 0, 'window_full': 0, 'segmented': 0}
    for _seq, _d, direction, handle, cid, payload in pdus:
        if cid == rl.BR_SIG:
            for code, ident, data in rl.parse_signalling(payload):
                if direction == vrig.C2H and code == rl.CODE_CONN_RSP and len(data) >= 8:
                    dcid, scid, result, _status = struct.unpack_from('<HHHH', data, 0)
                    if result == 0:
                        my_scid_to_dcid[scid] = dcid
                elif direction == vrig.H2C and code == rl.CODE_CONN_RSP and len(data) >= 8:
                    dcid, scid, result, _status = struct.unpack_from('<HHHH', data, 0)
                    if result == 0:
                        my_scid_to_dcid[dcid] = scid   # I am the acceptor: my cid = dcid, peer's = scid
                elif direction == vrig.C2H and code == rl.CODE_CONF_REQ and len(data) >= 4:
                    my_cid = struct.unpack_from('<H', data, 0)[0]
                    opts = parse_conf_options(data[4:])
                    if my_cid in my_scid_to_dcid:
                        peer_conf.setdefault(my_scid_to_dcid[my_cid], {}).update(opts)
            continue
        if cid < 0x40:
            continue
        if direction == vrig.H2C and cid in my_scid_to_dcid.values():
            dcid = cid
            conf = peer_conf.get(dcid, {})
            rfc = conf.get(0x04)
            s = st.setdefault(dcid, {'next': 0, 'acked': 0, 'sar': 'idle', 'left': 0})
            if expect_mode != 'ertm':
                r.ev('wire_basic_frames')
                continue
            if rfc is None or rfc[0] != 3:
                continue
            window, _maxtx, _rto, _mto, peer_mps = struct.unpack_from('<BBHHH', rfc, 1)
            body = payload
            if expect_fcs:
                r.ev('fcs_checked')
                r.ev('oracle_evals')
                if len(body) < 4:
                    r.bad(f'ertm/fcs/frame-too-short{tag}', f'frame of {len(body)} bytes cannot carry control+FCS')
                    continue
                fcs = struct.unpack_from('<H', body, len(body) - 2)[0]
                hdr = struct.pack('<HH', len(body), cid)
                if crc16(hdr + body[:-2]) != fcs:
                    r.bad(f'ertm/fcs/wrong{tag}', f'FCS {fcs:#06x} != CRC-16 {crc16(hdr + body[:-2]):#06x} on frame '
                                                   f'{body[:8].hex()}.. len={len(body)}')
                body = body[:-2]
            ctrl = struct.unpack_from('<H', body, 0)[0]
            if ctrl & 1:
                r.ev('wire_sframes')
                continue
            txseq = (ctrl >> 1) & 0x3F
            sar = (ctrl >> 14) & 3
            info = body[2:]
            stats['iframes'] += 1
            r.ev('wire_iframes')
            r.ev('oracle_evals', 3)
            if txseq != s['next']:
                r.bad(f'ertm/txseq-gap{tag}', f'I-frame TxSeq {txseq}, expected {s["next"]} (dcid {dcid:#x})')
            s['next'] = (txseq + 1) % 64
            if s['next'] == 0:
                stats['wraps'] += 1
                r.ev('seq_wraps')
            outstanding = (s['next'] - s['acked']) % 64
            stats['max_outstanding'] = max(stats['max_outstanding'], outstanding)
            if outstanding == window:
                stats['window_full'] += 1
            if outstanding > window or (outstanding == 0 and window < 64):
                r.bad(f'ertm/window-exceeded{tag}',
                      f'{outstanding or 64} unacknowledged I-frames > peer TxWindow {window} (dcid {dcid:#x})')
            # SAR legality and sizes
            if sar == 1:
                if s['sar'] != 'idle':
                    r.bad(f'ertm/sar-illegal{tag}', f'START while an SDU is open')
                if len(info) < 2:
                    r.bad(f'ertm/sar-illegal{tag}', 'START without SDU length')
                    continue
                total = struct.unpack_from('<H', info, 0)[0]
                info = info[2:]
                s['sar'] = 'open'
                s['left'] = total - len(info)
                stats['segmented'] += 1
                if s['left'] <= 0:
                    r.bad(f'ertm/sdu-length{tag}', f'START carries {len(info)} of announced {total}')
            elif sar in (2, 3):
                if s['sar'] != 'open':
                    r.bad(f'ertm/sar-illegal{tag}', f'{"END" if sar == 2 else "CONTINUATION"} without START')
                s['left'] -= len(info)
                if sar == 2:
                    if s['left'] != 0:
                        r.bad(f'ertm/sdu-length{tag}', f'END leaves {s["left"]} bytes of the announced SDU length')
                    s['sar'] = 'idle'
                elif s['left'] <= 0:
                    r.bad(f'ertm/sdu-length{tag}', f'CONTINUATION overruns the announced SDU length')
            else:
                if s['sar'] != 'idle':
                    r.bad(f'ertm/sar-illegal{tag}', 'UNSEGMENTED inside an open SDU')
            if len(info) > peer_mps:
                r.bad(f'ertm/mps-exceeded{tag}', f'I-frame information of {len(info)} bytes > peer MPS {peer_mps}')
        elif direction == vrig.C2H and cid in my_scid_to_dcid and expect_mode == 'ertm':
            dcid = my_scid_to_dcid[cid]
            s = st.setdefault(dcid, {'next': 0, 'acked': 0, 'sar': 'idle', 'left': 0})
            body = payload[:-2] if expect_fcs else payload
            if len(body) >= 2:
                ctrl = struct.unpack_from('<H', body, 0)[0]
                req = (ctrl >> 8) & 0x3F
                # acknowledgements only ever move forward within the outstanding range
                if (req - s['acked']) % 64 <= (s['next'] - s['acked']) % 64:
                    s['acked'] = req
    return stats


async def xfer(case, r: R):
    from bumble import l2cap
    from vlib import rig as vrig
    rng = random.Random(case['seed'])
    vrig.seed_entropy(case['seed'])
    cs, ss = gen_spec(rng), gen_spec(rng)
    if rng.random() < 0.5:
        ss['mode'] = cs['mode']          # bias to matching modes so that transfers happen
    lens = [rng.choice([27, 64, 339, 1021]) for _ in range(2)]
    nums = [rng.choice([1, 2, 8]) for _ in range(2)]
    delay = rng.choice([0, 0, 1, 3])
    rg = vrig.Rig(2, seed=case['seed'], max_delay=delay, classic=True, acl_len=lens, acl_num=nums)
    both_features = rng.random() < 0.85
    for d in rg.devices:
        feats = {l2cap.L2CAP_Information_Request.ExtendedFeatures.ENHANCED_RETRANSMISSION_MODE}
        if both_features:
            feats.add(l2cap.L2CAP_Information_Request.ExtendedFeatures.FCS_OPTION)
        d.l2cap_channel_manager.extended_features.update(feats)
    await rg.power_on()
    ca, cb = await rg.connect_classic(0, 1)
    accepted = []
    rg.devices[1].create_l2cap_server(spec=mkspec(ss, PSM), handler=accepted.append)
    await rg.quiesce()
    tag = f'/{cs["mode"]}-to-{ss["mode"]}'
    ch = None
    outcome = 'ok'
    try:
        ch = await vloop.vwait(ca.create_l2cap_channel(spec=mkspec(cs, PSM)))
    except vloop.Hang:
        r.bad(f'setup/hang{tag}' + ('' if both_features else '/fcs-unsupported'),
              f'create_l2cap_channel pending at T_v; client={cs} server={ss} livelock_jumps='
              f'{asyncio.get_running_loop().livelock_jumps}')
        return
    except Exception as e:
        outcome = f'{type(e).__name__}'
    try:
        await rg.quiesce()
    except vloop.Hang:
        r.bad(f'setup/livelock{tag}', f'signalling never quiesces after set-up; client={cs} server={ss}')
        return
    r.ev('setup_checks')
    r.ev(f'setup_outcome_{"open" if ch else "failed"}')
    sv = accepted[0] if accepted else None
    OPEN = l2cap.ClassicChannel.State.OPEN
    CLOSED = l2cap.ClassicChannel.State.CLOSED
    mgr0, mgr1 = (d.l2cap_channel_manager for d in rg.devices)
    r.ev('oracle_evals')
    if ch is not None:
        if not (ch.state == OPEN and sv is not None and sv.state == OPEN):
            r.bad(f'setup/disagree/client-open{tag}',
                  f'client OPEN but server end is {sv.state.name if sv else None}; client={cs} server={ss}')
            return
        if ch.mode != sv.mode or type(ch.processor) is not type(sv.processor):
            r.bad(f'setup/mode-disagree{tag}', f'client {ch.mode.name}/{type(ch.processor).__name__} vs server '
                                               f'{sv.mode.name}/{type(sv.processor).__name__}')
            return
        if ch.fcs_enabled != sv.fcs_enabled:
            r.bad(f'setup/fcs-disagree{tag}', f'client fcs={ch.fcs_enabled} server fcs={sv.fcs_enabled}; client={cs} server={ss}')
    else:
        # both closed: no OPEN server end, no table entries on either side
        left0 = list(mgr0.channels.get(ca.handle, {}))
        left1 = list(mgr1.channels.get(cb.handle, {}))
        if (sv is not None and sv.state != CLOSED) or left0 or left1:
            r.bad(f'setup/disagree/client-failed{tag}',
                  f'client failed with {outcome} but server end is {sv.state.name if sv else None}, tables '
                  f'client={left0} server={left1}; client={cs} server={ss}')
        if cs['mode'] == ss['mode'] and (both_features or not (cs['fcs_enabled'] or ss['fcs_enabled'])):
            r.bad(f'setup/refused-compatible{tag}', f'compatible specs failed to connect: {outcome}; client={cs} server={ss}')
        r.sig('setup-fail', tuple(sorted(cs.items())), tuple(sorted(ss.items())), both_features)
        r.sample = {'client': cs, 'server': ss, 'outcome': outcome}
        r.evals()
        return

    # ---- transfer -------------------------------------------------------------
    got_s, got_c = [], []
    sv.sink = got_s.append
    ch.sink = got_c.append
    mtu = min(cs['mtu'], ss['mtu'])
    mode = cs['mode']
    if ch.fcs_enabled:
        # with an FCS the largest information payload that fits the 16-bit L2CAP length is
        # 65533 (bumble also appends an FCS in Basic mode when the peer asked for one)
        mtu = min(mtu, 65533 - (4 if mode == 'ertm' else 0))
    mps_c2s = ss['mps'] if mode == 'ertm' else mtu
    pat = rng.choice(['wrap', 'edges', 'mixed', 'mixed'])
    budget = 6000 if case['tier'] == 'quick' else rng.choice([6000, 40000])

    def sizes(mps):
        if pat == 'wrap':
            # more than 64 I-frames
            if rng.random() < 0.5:
                return [rng.randint(1, min(mtu, 30)) for _ in range(rng.randint(66, 140))]
            return [min(mtu, mps * rng.randint(2, 5) + rng.randint(0, 3)) for _ in range(rng.randint(20, 40))]
        if pat == 'edges':
            return [max(1, min(mtu, x)) for x in (mps - 1, mps, mps + 1, 2 * mps - 1, 2 * mps, 2 * mps + 1, mtu - 1, mtu, 1)]
        return [rng.choice([1, 2, mps, mps + 1, rng.randint(1, mtu), min(mtu, 3 * mps + 2)]) for _ in range(rng.randint(2, 20))]

    def cap(lst):
        out, tot = [], 0
        for x in lst:
            x = min(x, mtu)
            if tot + x > budget * 4:
                break
            out.append(x)
            tot += x
        return out

    a_sizes = cap(sizes(mps_c2s))
    b_sizes = cap(sizes(cs['mps'] if mode == 'ertm' else mtu)) if rng.random() < 0.6 else []
    sent_a, sent_b = [], []
    steps = [('a', s) for s in a_sizes]
    bi = 0
    merged = []
    for st_ in steps:
        merged.append(st_)
        if bi < len(b_sizes) and rng.random() < 0.5:
            merged.append(('b', b_sizes[bi]))
            bi += 1
    merged += [('b', s) for s in b_sizes[bi:]]
    for who, size in merged:
        n = len(sent_a) if who == 'a' else len(sent_b)
        sdu = bytes([(n * 17 + i * 3 + (who == 'b')) & 0xFF for i in range(size)])
        try:
            (ch if who == 'a' else sv).write(sdu)
        except Exception as e:
            r.bad(f'sdu/write-raised/{mode}', f'write of {size} bytes raised {type(e).__name__}: {e}; client={cs} server={ss}')
            break
        (sent_a if who == 'a' else sent_b).append(sdu)
        if rng.random() < 0.3:
            await asyncio.sleep(0)

    async def done():
        while len(got_s) < len(sent_a) or len(got_c) < len(sent_b):
            await asyncio.sleep(0.05)

    try:
        await vloop.vwait(done())
    except vloop.Hang:
        r.bad(f'sdu/stalled/{mode}', f'server got {len(got_s)}/{len(sent_a)}, client got {len(got_c)}/{len(sent_b)} SDUs at T_v; '
                                     f'client={cs} server={ss} lens={lens} nums={nums}')
    await rg.quiesce()
    for name, got, sent in (('c2s', got_s, sent_a), ('s2c', got_c, sent_b)):
        r.ev('sdu_checks')
        r.ev('oracle_evals')
        if [bytes(x) for x in got] != sent:
            if len(got) == len(sent):
                k = next(i for i in range(len(sent)) if bytes(got[i]) != sent[i])
                r.bad(f'sdu/corrupt/{mode}', f'{name}: SDU #{k} differs: got {len(got[k])} bytes, sent {len(sent[k])}; '
                                              f'client={cs} server={ss}')
            elif len(got) > len(sent):
                r.bad(f'sdu/duplicated/{mode}', f'{name}: {len(got)} SDUs delivered, {len(sent)} written')
            elif [bytes(x) for x in got] != sent[:len(got)]:
                r.bad(f'sdu/corrupt/{mode}', f'{name}: delivered prefix differs from what was written')
    fcs = ch.fcs_enabled
    s0 = wire_check(rg.boundary_log, 0, r, mode, fcs, f'/{mode}')
    s1 = wire_check(rg.boundary_log, 1, r, mode, fcs, f'/{mode}')
    for where, e in rg.exceptions:
        r.bad(f'sdu/exception-in-stack/{mode}', f'{where}: {e}; client={cs} server={ss}')
    nontrivial = (cs['mode'] != ss['mode'] or cs['fcs_enabled'] != ss['fcs_enabled'] or s0['segmented'] or
                  s1['segmented'] or s0['wraps'] or s1['wraps'] or s0['window_full'] or s1['window_full'])
    if nontrivial:
        r.sig('xfer', tuple(sorted(cs.items())), tuple(sorted(ss.items())), tuple(a_sizes), tuple(b_sizes))
    r.ev('window_full_moments', s0['window_full'] + s1['window_full'])
    r.sched.add(rg.schedule_signature)
    r.evals()
    r.sample = {'client': cs, 'server': ss, 'acl_len': lens, 'acl_num': nums, 'delay': delay, 'sdus_c2s': a_sizes[:12],
                'sdus_s2c': b_sizes[:12], 'iframes': s0['iframes'] + s1['iframes'],
                'max_outstanding': max(s0['max_outstanding'], s1['max_outstanding'])}


async def multi(case, r: R):
    """Several channels on one link, opened from BOTH ends at the same time (so that the two CIDs of a
    channel differ), one of them closed by either end, a new one opened: before and after every step
    every open channel carries its own SDUs, exactly once and in order, in both directions."""
    from bumble import l2cap
    from vlib import rig as vrig
    rng = random.Random(case['seed'])
    vrig.seed_entropy(case['seed'])
    spec = gen_spec(rng)
    spec['mtu'] = rng.choice([48, 256, 1024])
    rg = vrig.Rig(2, seed=case['seed'], max_delay=rng.choice([0, 1, 3]), classic=True,
                  acl_len=[rng.choice([64, 339, 1021]) for _ in range(2)], acl_num=[rng.choice([2, 8]) for _ in range(2)])
    for d in rg.devices:
        d.l2cap_channel_manager.extended_features.update({
            l2cap.L2CAP_Information_Request.ExtendedFeatures.ENHANCED_RETRANSMISSION_MODE,
            l2cap.L2CAP_Information_Request.ExtendedFeatures.FCS_OPTION})
    await rg.power_on()
    ca, cb = await rg.connect_classic(0, 1)
    conns = [ca, cb]
    accepted = [[], []]
    psms = [PSM + 2, PSM + 4]
    for i in (0, 1):
        rg.devices[i].create_l2cap_server(spec=mkspec(spec, psms[i]), handler=accepted[i].append)
    await rg.quiesce()
    mode = spec['mode']
    chans = []      # dict(ends=[end on dev0, end on dev1], got=[[], []], sent=[[], []])
    hist = []
    counter = [0]

    async def open_from(side):
        n0 = len(accepted[1 - side])
        ch = await vloop.vwait(conns[side].create_l2cap_channel(spec=mkspec(spec, psms[1 - side])))
        return side, ch, n0

    def register(side, ch, peer_end):
        ends = [ch, peer_end] if side == 0 else [peer_end, ch]
        c = dict(ends=ends, got=[[], []], sent=[[], []], id=len(chans))
        ends[0].sink = c['got'][0].append
        ends[1].sink = c['got'][1].append
        chans.append(c)

    async def open_many(sides):
        before = [len(accepted[0]), len(accepted[1])]
        try:
            res = await asyncio.gather(*[open_from(sd) for sd in sides])
        except vloop.Hang:
            r.bad(f'multi/open-hang/{mode}', f'opening channels from sides {sides} pending at T_v; history={hist}')
            return False
        except Exception as e:
            r.bad(f'multi/open-failed/{mode}', f'{type(e).__name__}: {e}; sides {sides}; history={hist}')
            return False
        await rg.quiesce()
        for side, ch, _ in res:
            new = [x for x in accepted[1 - side][before[1 - side]:] if x.source_cid == ch.destination_cid]
            if len(new) != 1:
                r.bad(f'multi/open-mismatch/{mode}', f'no unique acceptor end for {ch}; history={hist}')
                return False
            register(side, ch, new[0])
            if ch.source_cid != ch.destination_cid:
                r.ev('multi_channels_with_different_cids')
        hist.append(('open', tuple(sides)))
        return True

    async def traffic(after):
        live = [c for c in chans if not c.get('closed')]
        for c in live:
            for dirn in (0, 1):
                for _ in range(rng.randint(1, 3)):
                    counter[0] += 1
                    size = rng.choice([1, 2, spec['mps'], spec['mps'] + 1, spec['mtu']])
                    size = min(size, spec['mtu'])
                    sdu = bytes([c['id'], dirn]) + bytes([(counter[0] + i) & 0xFF for i in range(size - 2)]) if size >= 2 else bytes([counter[0] & 0xFF])
                    c['ends'][dirn].write(sdu)
                    c['sent'][dirn].append(sdu)

        async def done():
            while any(len(c['got'][1 - dirn]) < len(c['sent'][dirn]) for c in live for dirn in (0, 1)):
                await asyncio.sleep(0.05)
        try:
            await vloop.vwait(done())
        except vloop.Hang:
            pass
        await rg.quiesce()
        ok = True
        for c in live:
            for dirn in (0, 1):
                r.ev('multi_sdu_checks')
                r.ev('oracle_evals')
                got = [bytes(x) for x in c['got'][1 - dirn]]
                if got != c['sent'][dirn]:
                    e0, e1 = c['ends']
                    kind_ = 'lost' if len(got) < len(c['sent'][dirn]) else 'corrupt-or-extra'
                    r.bad(f'multi/sdu/{kind_}/{mode}/after-{after}',
                          f'channel {e0.source_cid:#x}<->{e1.source_cid:#x} dev{dirn}->dev{1 - dirn}: '
                          f'{len(got)} SDUs delivered, {len(c["sent"][dirn])} written; history={hist} spec={spec}')
                    ok = False
        return ok

    if not await open_many([0, 1] + ([rng.randrange(2)] if rng.random() < 0.5 else [])):
        return
    if await traffic('open'):
        for step in range(rng.randint(1, 3)):
            live = [c for c in chans if not c.get('closed')]
            if len(live) > 1 and rng.random() < 0.7:
                c = rng.choice(live)
                side = rng.randrange(2)
                try:
                    await vloop.vwait(c['ends'][side].disconnect())
                except vloop.Hang:
                    r.bad(f'multi/close-hang/{mode}', f'disconnect() pending at T_v; history={hist}')
                    break
                c['closed'] = True
                await rg.quiesce()
                hist.append(('close', c['id'], side, c['ends'][0].source_cid, c['ends'][1].source_cid))
                r.ev('multi_closes')
                if not await traffic('close'):
                    break
            else:
                if not await open_many([rng.randrange(2)]):
                    break
                if not await traffic('reopen'):
                    break
    for where, e in rg.exceptions:
        r.bad(f'sdu/exception-in-stack/{mode}', f'{where}: {e}; multi history={hist}')
    r.ev('multi_cases')
    r.sig('multi', tuple(sorted(spec.items())), tuple(hist))
    r.sched.add(rg.schedule_signature)
    r.evals()
    r.sample = {'kind': 'multi', 'spec': spec, 'history': hist}


# -----------------------------------------------------------------------------
# hand-driven classic peer: every legal ordering of the configuration exchange
# -----------------------------------------------------------------------------
RAW_ORDERS = ['req-first', 'rsp-first', 'req-first-late-rsp', 'rsp-first-late-req']


class RawClassic:
    """One classic channel end spoken by hand on top of vlib.rig.RawPeer. It accepts whatever bumble proposes (so
    every script is a legal, compatible peer) and only varies WHEN it says things."""

    def __init__(self, raw, handle, rng, p):
        self.raw, self.handle, self.rng, self.p = raw, handle, rng, p
        self.loop = asyncio.get_running_loop()
        self.my_cid = p['raw_cid']
        self.peer_cid = 0
        self.ident = rng.choice([0x10, 0xF0, 0xFE])
        self.conn_done = False
        self.req_sent = False
        self.req_acked = False          # bumble accepted my Configure Request
        self.peer_req = None            # (ident, options) of bumble's not yet answered request
        self.peer_req_answered = False  # I accepted bumble's Configure Request
        self.peer_options = {}
        self.reneg_left = 1 if p['renegotiate'] else 0
        self.cont_left = 1 if p['rsp_continuation'] else 0
        self.closed = False
        self.rejected = []
        self.trace = []
        self.pending_actions = 0
        self.rx_sdus = []
        self.rx_next = 0                # ERTM: next TxSeq expected from bumble
        self.tx_next = 0                # ERTM: my next TxSeq
        self.acked_by_bumble = 0
        self.wire_errors = []
        # requests that bumble has to refuse (unknown option / an FCS it cannot do), sent BEFORE the final one and
        # advertising OTHER values: only the values of the request that was accepted count afterwards
        self.refusals = list(p.get('refusals') or [])
        self.final = dict(mtu=p['raw_mtu'], window=p['raw_window'], mps=p['raw_mps'], maxtx=3)
        self.last_req = None            # the values of the request that is outstanding
        self.req_refusable = None
        self.accepted = None            # the values of the request bumble accepted
        self.refused = []               # (why, result, values)
        self.ertm_errors = []           # (clause, text): what the raw peer sees as an ERTM receiver
        self.unacked = 0                # I-frames received since my last acknowledgement
        self.max_unacked = 0
        self.ack_timer = None
        self.re_buf = None
        self.re_total = 0
        self.segmented_sdus = 0
        raw.handlers.append(self.on_pdu)

    # -- plumbing
    def nid(self):
        self.ident = self.ident % 255 + 1
        return self.ident

    def sig(self, code, ident, data, what):
        self.trace.append('raw>' + what)
        self.raw.send(self.handle, rl.BR_SIG, rl.sig(code, ident, data))

    def act(self, fn, how=None):
        """Run fn now, after a few loop turns, or after some virtual time (seeded)."""
        how = how or self.rng.choice(self.p['paces'])
        if how == 'now':
            fn()
            return
        self.pending_actions += 1

        def run():
            self.pending_actions -= 1
            fn()
        if how == 'turns':
            n = self.rng.randint(1, 6)

            def hop(k):
                if k == 0:
                    run()
                else:
                    self.loop.call_soon(hop, k - 1)
            hop(n)
        else:
            self.loop.call_later(self.rng.choice([0.05, 0.7, 3.0]), run)

    @property
    def is_open(self):
        return self.conn_done and self.req_acked and self.peer_req_answered and not self.closed

    # -- my side of the exchange
    def my_options(self, v=None):
        v = v or self.final
        o = bytes([0x01, 2]) + struct.pack('<H', v['mtu'])
        if self.p['mode'] == 'ertm':
            o += bytes([0x04, 9]) + struct.pack('<BBBHHH', 3, v['window'], v['maxtx'], 2000, 12000, v['mps'])
        elif self.p['basic_rfc_option']:
            o += bytes([0x04, 9]) + struct.pack('<BBBHHH', 0, 0, 0, 0, 0, 0)
        return o

    def send_req(self):
        if self.req_sent or self.closed:
            return
        self.req_sent = True
        self.req_ident = self.nid()
        self.req_refusable = None
        self.last_req = self.final
        if self.refusals:
            q = self.refusals.pop(0)
            self.req_refusable = q
            self.last_req = q
            self.req_part = 0
            extra = {'qos': bytes([0x03, 22]) + bytes(22),                   # Quality of Service: not implemented by bumble
                     'ext-flow': bytes([0x06, 16]) + bytes(16),              # Extended Flow Specification
                     'ext-window': bytes([0x07, 2]) + struct.pack('<H', 100),    # Extended Window Size
                     'fcs': bytes([0x05, 1, 1])}[q['why']]                  # an FCS although bumble did not announce the feature
            o = self.my_options(q)
            o = extra + o if q['where'] == 'first' else o[:4] + extra + o[4:] if q['where'] == 'middle' else o + extra
            self.sig(rl.CODE_CONF_REQ, self.req_ident, struct.pack('<HH', self.peer_cid, 0) + o,
                     f'ConfReq({q["why"]},{q["where"]},mtu={q["mtu"]},w={q["window"]},mps={q["mps"]})')
            return
        if self.p['req_split'] and not self.split_refused:
            self.req_part = 1
            hint = bytes([0x80 | 0x7E, 40]) + bytes(range(40))
            self.sig(rl.CODE_CONF_REQ, self.req_ident, struct.pack('<HH', self.peer_cid, 1) + self.my_options()[:4] + hint,
                     'ConfReq(C=1,hint)')
            return
        self.req_part = 0
        self.sig(rl.CODE_CONF_REQ, self.req_ident, struct.pack('<HH', self.peer_cid, 0) + self.my_options(), 'ConfReq')

    split_refused = False
    req_part = 0

    def connect(self, psm):
        self.conn_ident = self.nid()
        self.sig(rl.CODE_CONN_REQ, self.conn_ident, struct.pack('<HH', psm, self.my_cid), 'ConnReq')

    def after_connected(self):
        self.conn_done = True
        if self.p['order'] in ('req-first', 'req-first-late-rsp'):
            self.act(self.send_req)

    def answer(self):
        if self.peer_req is None or self.closed:
            return
        ident, options = self.peer_req
        self.peer_req = None
        if self.reneg_left and 0x01 in options:
            # legal negotiation: "unacceptable parameters", proposing another MTU; bumble must ask again
            self.reneg_left -= 1
            self.sig(rl.CODE_CONF_RSP, ident, struct.pack('<HHH', self.peer_cid, 0, 1) + bytes([0x01, 2]) +
                     struct.pack('<H', self.p['raw_proposed_mtu']), 'ConfRsp(unacceptable)')
            return
        if self.cont_left:
            # the response comes in two parts: C flag set, the requester must ask for the rest with an empty request
            self.cont_left -= 1
            self.sig(rl.CODE_CONF_RSP, ident, struct.pack('<HHH', self.peer_cid, 1, 0) + bytes([0x01, 2]) + options[0x01],
                     'ConfRsp(C=1)')
            return
        self.sig(rl.CODE_CONF_RSP, ident, struct.pack('<HHH', self.peer_cid, 0, 0), 'ConfRsp')
        self.peer_req_answered = True
        if not self.req_sent:
            if self.p['order'] == 'rsp-first-late-req':
                self.act(self.send_req, 'vtime')
            else:
                self.act(self.send_req)

    # -- what bumble says
    def on_pdu(self, handle, cid, payload):
        if handle != self.handle:
            return
        if cid == self.my_cid:
            self.on_data(payload)
            return
        if cid != rl.BR_SIG:
            return
        for code, ident, data in rl.parse_signalling(payload):
            if code == rl.CODE_CONN_REQ:
                psm, scid = struct.unpack_from('<HH', data, 0)
                self.trace.append('bumble>ConnReq')
                self.peer_cid = scid

                def success():
                    self.sig(rl.CODE_CONN_RSP, ident, struct.pack('<HHHH', self.my_cid, scid, 0, 0), 'ConnRsp')
                    self.after_connected()
                if self.p['conn_pending']:
                    st = self.p['conn_pending']
                    self.sig(rl.CODE_CONN_RSP, ident, struct.pack('<HHHH', self.my_cid if st['dcid'] else 0, scid, 1, st['status']),
                             'ConnRsp(pending)')
                    self.act(success, st['pace'])
                else:
                    self.act(success, 'now')
            elif code == rl.CODE_CONN_RSP:
                dcid, scid, result, status = struct.unpack_from('<HHHH', data, 0)
                self.trace.append(f'bumble>ConnRsp({result})')
                if result == 0 and scid == self.my_cid:
                    self.peer_cid = dcid
                    self.after_connected()
                elif result != 1:
                    self.closed = True
            elif code == rl.CODE_CONF_REQ:
                dcid, flags = struct.unpack_from('<HH', data, 0)
                options = parse_conf_options(data[4:])
                self.trace.append('bumble>ConfReq' + ('(empty)' if not options else ''))
                if dcid != self.my_cid:
                    self.wire_errors.append(f'Configure Request for cid {dcid:#x}, mine is {self.my_cid:#x}')
                    continue
                if flags & 1:
                    self.wire_errors.append('bumble set the continuation flag on a request that fits one packet')
                # options left out of a later request keep the value they had (Vol 3 Part A 4.4)
                self.peer_options.update(options)
                self.peer_req = (ident, dict(self.peer_options))
                if self.p['order'] == 'req-first-late-rsp' and not self.req_acked and self.req_sent:
                    self.trace.append('raw:hold-rsp')
                    continue
                self.act(self.answer)
            elif code == rl.CODE_CONF_RSP:
                scid, flags, result = struct.unpack_from('<HHH', data, 0)
                self.trace.append(f'bumble>ConfRsp({result})')
                if self.req_sent and ident == self.req_ident and self.req_refusable is not None:
                    q, self.req_refusable = self.req_refusable, None
                    if result == 0:
                        # bumble took it (it may skip what it likes): these are the values that count now
                        self.accepted = q
                        self.refusals = []
                        self.req_acked = True
                        if self.peer_req is not None:
                            self.act(self.answer)
                    else:
                        self.refused.append((q['why'], result, q))
                        self.req_sent = False
                        self.act(self.send_req)
                elif self.req_sent and ident == self.req_ident and result == 0 and self.req_part == 1:
                    # first part accepted: the rest, continuation flag cleared
                    self.req_part = 2
                    self.req_ident = self.nid()
                    self.sig(rl.CODE_CONF_REQ, self.req_ident, struct.pack('<HH', self.peer_cid, 0) + self.my_options()[4:],
                             'ConfReq(C=0,rest)')
                elif self.req_sent and ident == self.req_ident and result == 3 and self.req_part:
                    # the hint was refused as an unknown option: ask again without it, in one piece
                    self.split_refused = True
                    self.req_sent = False
                    self.act(self.send_req)
                elif self.req_sent and ident == self.req_ident and result == 0:
                    self.req_acked = True
                    self.accepted = self.last_req
                    if self.peer_req is not None:
                        self.act(self.answer)
                elif result != 0:
                    self.wire_errors.append(f'bumble refused a plain Configure Request: result {result}')
            elif code == rl.CODE_DISC_REQ:
                dcid, scid = struct.unpack_from('<HH', data, 0)
                self.trace.append('bumble>DiscReq')
                self.sig(rl.CODE_DISC_RSP, ident, struct.pack('<HH', dcid, scid), 'DiscRsp')
                self.closed = True
            elif code == rl.CODE_DISC_RSP:
                self.trace.append('bumble>DiscRsp')
                self.closed = True
            elif code == rl.CODE_REJECT:
                self.trace.append('bumble>Reject')
                self.rejected.append(data.hex())
            elif code == rl.CODE_INFO_REQ:
                it = struct.unpack_from('<H', data, 0)[0]
                self.sig(rl.CODE_INFO_RSP, ident, struct.pack('<HH', it, 1), 'InfoRsp(not supported)')

    # -- data
    def on_data(self, payload):
        if self.p['mode'] != 'ertm':
            self.rx_sdus.append(bytes(payload))
            return
        if len(payload) < 2:
            self.wire_errors.append('ERTM frame shorter than its control field')
            return
        ctrl = struct.unpack_from('<H', payload, 0)[0]
        req = (ctrl >> 8) & 0x3F
        self.acked_by_bumble = req
        if ctrl & 1:
            if ctrl & 0x10:      # poll: answer with the final bit
                self.raw.send(self.handle, self.peer_cid, struct.pack('<H', 0x0001 | 0x80 | (self.rx_next << 8)))
                self.unacked = 0
            return
        txseq, sar = (ctrl >> 1) & 0x3F, (ctrl >> 14) & 3
        if txseq != self.rx_next:
            self.wire_errors.append(f'I-frame TxSeq {txseq}, expected {self.rx_next}')
            return
        self.rx_next = (self.rx_next + 1) % 64
        acc = self.accepted or self.final
        info = bytes(payload[2:])
        if sar == 1:
            if self.re_buf is not None or len(info) < 2:
                self.wire_errors.append('START inside an open SDU or without SDU length')
            self.re_total = struct.unpack_from('<H', info, 0)[0] if len(info) >= 2 else 0
            info = info[2:]
            self.re_buf = info
        elif sar in (2, 3):
            if self.re_buf is None:
                self.wire_errors.append('CONTINUATION/END without START')
                self.re_buf = b''
            self.re_buf += info
            if sar == 2:
                if len(self.re_buf) != self.re_total:
                    self.wire_errors.append(f'reassembled {len(self.re_buf)} bytes, SDU length field said {self.re_total}')
                if self.re_total <= acc['mps']:
                    self.wire_errors.append(f'segmented an SDU of {self.re_total} bytes although my MPS is {acc["mps"]}')
                self.rx_sdus.append(self.re_buf)
                self.segmented_sdus += 1
                self.re_buf = None
        else:
            if self.re_buf is not None:
                self.wire_errors.append('UNSEGMENTED inside an open SDU')
                self.re_buf = None
            self.rx_sdus.append(info)
        if len(info) > acc['mps']:
            self.ertm_errors.append(('mps-exceeded', f'I-frame carries {len(info)} bytes, the request bumble accepted said MPS {acc["mps"]}'
                                                     f' (refused before: {[(w, q["mps"]) for w, _r, q in self.refused]})'))
        self.unacked += 1
        self.max_unacked = max(self.max_unacked, self.unacked)
        if self.unacked > acc['window']:
            self.ertm_errors.append(('window-exceeded', f'{self.unacked} I-frames without an acknowledgement from me, the request bumble '
                                                        f'accepted said TxWindow {acc["window"]} (refused before: '
                                                        f'{[(w, q["window"]) for w, _r, q in self.refused]})'))
        if self.p.get('ack', 'immediate') == 'immediate':
            self.send_ack()
        elif self.ack_timer is None:
            # acknowledge late (well inside the retransmission time-out): everything bumble dares to send
            # meanwhile is unacknowledged
            self.ack_timer = self.loop.call_later(self.p['ack_delay'], self.send_ack)

    def send_ack(self):
        self.ack_timer = None
        if self.closed:
            return
        self.unacked = 0
        self.raw.send(self.handle, self.peer_cid, struct.pack('<H', 0x0001 | (self.rx_next << 8)))    # RR

    def send_sdu(self, sdu):
        if self.p['mode'] != 'ertm':
            self.raw.send(self.handle, self.peer_cid, sdu)
        else:
            ctrl = (self.tx_next << 1) | (self.rx_next << 8)
            self.tx_next = (self.tx_next + 1) % 64
            self.unacked = 0        # ReqSeq of an I-frame acknowledges as well
            self.raw.send(self.handle, self.peer_cid, struct.pack('<H', ctrl) + sdu)


def gen_rawcfg(rng):
    mode = rng.choice(['basic', 'basic', 'ertm'])
    p = dict(
        role=rng.choice(['initiator', 'acceptor']), order=rng.choice(RAW_ORDERS), mode=mode,
        raw_cid=rng.choice([0x40, 0x41, 0x55, 0x1234, 0xFFFF]), raw_mtu=rng.choice([48, 672, 1024, 65535]),
        raw_window=rng.choice([1, 4, 63]), raw_mps=rng.choice([48, 100, 1010]),
        basic_rfc_option=rng.random() < 0.3,
        paces=rng.choice([['now'], ['now'], ['turns'], ['vtime'], ['now', 'turns', 'vtime']]),
        renegotiate=rng.random() < 0.2, raw_proposed_mtu=rng.choice([48, 300, 672]),
        rsp_continuation=False, req_split=False,
        conn_pending=None, delay=rng.choice([0, 0, 1, 3]),
        bumble_mtu=rng.choice([48, 256, 2000, 65535]), bumble_mps=rng.choice([48, 100, 1010]), bumble_window=rng.choice([1, 8, 63]),
        close_by=rng.choice(['bumble', 'raw', 'raw']),
    )
    x = rng.random()
    if not p['renegotiate'] and x < 0.12:
        # the raw peer answers bumble's request in two parts (continuation flag in the RESPONSE): the requester
        # has to fetch the rest with an empty request (Vol 3 Part A 4.5)
        p['rsp_continuation'] = True
    elif not p['renegotiate'] and x < 0.24:
        # the raw peer's own request does not fit the minimum signalling MTU of 48 bytes (it carries a vendor HINT
        # option, which a receiver skips or, like bumble, refuses) and so comes in two parts; a refusal of the
        # hint is answered by a plain request without it
        p['req_split'] = True
    if p['role'] == 'initiator' and rng.random() < 0.4:
        # the raw acceptor first answers "connection pending" (authorisation, authentication ...), legal at any pace
        p['conn_pending'] = dict(status=rng.choice([0, 1, 2]), dcid=rng.random() < 0.5, pace=rng.choice(['turns', 'vtime', 'vtime']))
    # requests that have to be refused before the final one, advertising OTHER (mostly larger) values
    p['refusals'] = []
    if not p['req_split'] and rng.random() < 0.45:
        for _ in range(rng.choice([1, 1, 2])):
            p['refusals'].append(dict(
                why=rng.choice(['qos', 'qos', 'ext-flow', 'ext-window', 'fcs', 'fcs']), where=rng.choice(['last', 'last', 'middle', 'first']),
                mtu=rng.choice([48, 672, 1024, 65535]), window=rng.choice([1, 8, 32, 63]), mps=rng.choice([23, 100, 400, 1010]),
                maxtx=rng.choice([0, 1, 3])))
    p['ack'] = rng.choice(['immediate', 'lazy', 'lazy'])
    p['ack_delay'] = rng.choice([0.1, 0.5, 1.5])
    p['idle_round'] = rng.choice([0, 0, 2.5, 3.0, 15.0])
    return p


async def rawcfg(case, r: R):
    from bumble import l2cap
    from vlib import rig as vrig
    rng = random.Random(case['seed'])
    vrig.seed_entropy(case['seed'])
    p = gen_rawcfg(rng)
    rg = vrig.Rig(2, seed=case['seed'], max_delay=p['delay'], classic=True)
    rg.devices[0].l2cap_channel_manager.extended_features.update(
        {l2cap.L2CAP_Information_Request.ExtendedFeatures.ENHANCED_RETRANSMISSION_MODE})
    # (the raw peer does not do frame check sequences: a request for one has to be refused)
    rg.devices[0].l2cap_channel_manager.extended_features.discard(l2cap.L2CAP_Information_Request.ExtendedFeatures.FCS_OPTION)
    await rg.power_on()
    ca, cb = await rg.connect_classic(0, 1)
    await rg.quiesce()
    raw = vrig.RawPeer(rg, 1)
    raw.take()
    ep = RawClassic(raw, cb.handle, rng, p)
    bspec = dict(mode=p['mode'], mtu=p['bumble_mtu'], mps=p['bumble_mps'], tx_window_size=p['bumble_window'], fcs_enabled=False)
    variant = ('rsp-continuation' if p['rsp_continuation'] else 'req-split' if p['req_split'] else
               'renegotiate' if p['renegotiate'] else p['order'] + ('/conn-pending' if p['conn_pending'] else ''))
    if p['refusals']:
        variant += '/after-refused-request'
    tag = f'/raw-peer/bumble-{p["role"]}/{variant}'
    OPEN = l2cap.ClassicChannel.State.OPEN
    CLOSED = l2cap.ClassicChannel.State.CLOSED
    mgr0 = rg.devices[0].l2cap_channel_manager
    ch = None
    outcome = 'open'
    if p['role'] == 'initiator':
        try:
            ch = await vloop.vwait(ca.create_l2cap_channel(spec=mkspec(bspec, PSM)))
        except vloop.Hang:
            outcome = 'hang'
        except Exception as e:
            outcome = f'raised {type(e).__name__}: {e}'
    else:
        accepted = []
        rg.devices[0].create_l2cap_server(spec=mkspec(bspec, PSM), handler=accepted.append)
        ep.connect(PSM)
    # settle: nothing in flight, no scripted action pending, and some virtual time for good measure
    try:
        for _ in range(400):
            await rg.quiesce()
            if not ep.pending_actions and rg.in_flight == 0:
                if p['role'] == 'initiator' or (accepted and accepted[0].state in (OPEN, CLOSED)) or _ > 8:
                    break
            await asyncio.sleep(0.5)
    except vloop.Hang:
        r.bad(f'setup/livelock{tag}', f'signalling never quiesces; params={p} trace={ep.trace[-12:]}')
        return
    if p['role'] == 'acceptor':
        ch = accepted[0] if accepted else None
    r.ev('setup_checks')
    r.ev('rawcfg_setups')
    r.ev(f'rawcfg_order_{p["order"]}')
    r.ev(f'rawcfg_bumble_{p["role"]}')
    if p['conn_pending']:
        r.ev('rawcfg_conn_pending')
    if p['renegotiate']:
        r.ev('rawcfg_renegotiations')
    if p['rsp_continuation']:
        r.ev('rawcfg_rsp_continuations')
    if p['req_split']:
        r.ev('rawcfg_req_splits')
        r.ev('rawcfg_req_split_hint_refused' if ep.split_refused else 'rawcfg_req_split_accepted')
    bstate = ch.state if ch is not None else None
    table = {cid: c.state.name for cid, c in mgr0.channels.get(ca.handle, {}).items()}
    detail = (f'bumble end {bstate.name if bstate is not None else None} (connect(): {outcome}), raw end '
              f'{"open" if ep.is_open else "closed" if ep.closed else "still configuring"} (its request accepted: {ep.req_acked}, '
              f'bumble\'s request answered: {ep.peer_req_answered}); table={table}; params={p}; trace={ep.trace}')
    r.ev('oracle_evals')
    both_open = bstate == OPEN and ep.is_open and outcome == 'open'
    both_closed = (bstate in (None, CLOSED)) and (ep.closed or not ep.conn_done) and not table
    if outcome == 'hang':
        r.bad(f'setup/hang{tag}', 'create_l2cap_channel pending at T_v: ' + detail)
        return
    if not both_open and not both_closed:
        r.bad(f'setup/disagree{tag}', 'neither both open nor both closed: ' + detail)
        return
    for w in ep.wire_errors:
        r.bad(f'setup/wire{tag}', f'{w}; params={p} trace={ep.trace}')
    if both_closed:
        # the raw peer accepts everything bumble may propose: nothing justifies a failed set-up
        r.bad(f'setup/refused-compatible{tag}', 'a peer that accepts everything could not be reached: ' + detail)
        return
    r.ev('rawcfg_both_open')
    # what bumble asked for is what its spec says; what it answered is recorded in its channel
    r.ev('oracle_evals', 2)
    want_mtu = p['raw_proposed_mtu'] if p['renegotiate'] else p['bumble_mtu']
    got_mtu = struct.unpack('<H', ep.peer_options.get(0x01, b'\xa0\x02'))[0]
    if got_mtu != want_mtu:
        r.bad(f'setup/config-request-wrong/mtu{tag}', f'bumble finally asked for MTU {got_mtu}, expected {want_mtu}; params={p}')
    rfc = ep.peer_options.get(0x04)
    asked_mode = rfc[0] if rfc else 0
    if asked_mode != (3 if p['mode'] == 'ertm' else 0):
        r.bad(f'setup/mode-disagree{tag}', f'bumble asked for mode {asked_mode} with spec {p["mode"]}; params={p}')
    acc = ep.accepted or ep.final
    if p['refusals']:
        r.ev('rawcfg_cases_with_refused_requests')
        r.ev('rawcfg_refused_requests', len(ep.refused))
        for why, result, _q in ep.refused:
            r.ev(f'rawcfg_refused_{why}')
        if ep.refused and any((q['window'], q['mps']) != (acc['window'], acc['mps']) for _w, _r, q in ep.refused) and p['mode'] == 'ertm':
            r.ev('rawcfg_accepted_window_or_mps_differs_from_refused')
        if ep.refused and any(q['window'] > acc['window'] or q['mps'] > acc['mps'] for _w, _r, q in ep.refused) and p['mode'] == 'ertm':
            r.ev('rawcfg_accepted_window_or_mps_smaller_than_refused')
        if ep.refused and any(q['mtu'] != acc['mtu'] for _w, _r, q in ep.refused):
            r.ev('rawcfg_accepted_mtu_differs_from_refused')
    if ch.peer_mtu != acc['mtu']:
        r.bad(f'setup/config-request-wrong/peer-mtu{tag}', f'bumble recorded peer MTU {ch.peer_mtu}, the request it accepted said {acc["mtu"]} '
                                                           f'(refused before: {[(w, q["mtu"]) for w, _r, q in ep.refused]})')
    if p['mode'] == 'ertm':
        r.ev('oracle_evals')
        pr = ch.processor
        if (getattr(pr, 'peer_tx_window_size', None), getattr(pr, 'peer_mps', None)) != (acc['window'], acc['mps']):
            r.ev('rawcfg_processor_values_differ_from_accepted')     # (informative: the verdict comes from the wire)

    # ---- SDUs both ways
    got = []
    ch.sink = got.append
    ertm = p['mode'] == 'ertm'
    top = min(acc['mtu'], got_mtu, acc['mps'] if ertm else 65535, p['bumble_mps'] if ertm else 65535)
    sizes = [1, min(top, 40), min(top, rng.choice([48, 400, 1000])), top if top <= 2000 else 700]
    sizes_b = list(sizes)
    if ertm:
        # towards the raw peer also SDUs of several segments, and more frames at once than its window
        big = min(acc['mtu'], 2000)
        sizes_b += [min(big, acc['mps'] * rng.randint(2, 5) + 3), min(big, acc['mps'] * (acc['window'] + 2))] + \
                   [min(big, acc['mps'])] * min(acc['window'] + 2, 12)
    sent_b, sent_r = [], []

    async def round_(szb, szr, after):
        for k in range(max(len(szb), len(szr))):
            if k < len(szb):
                a = bytes([(7 * i + len(sent_b)) & 0xFF for i in range(szb[k])])
                try:
                    ch.write(a)
                except Exception as e:
                    r.bad(f'sdu/write-raised{tag}{after}', f'write({len(a)}) raised {type(e).__name__}: {e}')
                    return False
                sent_b.append(a)
            if k < len(szr):
                b = bytes([(11 * i + len(sent_r) + 3) & 0xFF for i in range(szr[k])])
                ep.send_sdu(b)
                sent_r.append(b)
            if rng.random() < 0.5:
                await rg.quiesce(extra_turns=3)

        async def done():
            while len(got) < len(sent_r) or len(ep.rx_sdus) < len(sent_b):
                await asyncio.sleep(0.05)
        try:
            await vloop.vwait(done(), 90)
        except vloop.Hang:
            pass
        await rg.quiesce()
        r.ev('sdu_checks', 2)
        r.ev('rawcfg_sdu_checks', 2)
        r.ev('oracle_evals', 2)
        ok = True
        if [bytes(x) for x in got] != sent_r:
            r.bad(f'sdu/raw-to-bumble/{"lost" if len(got) < len(sent_r) else "corrupt"}{tag}{after}',
                  f'{len(got)} SDUs at the sink, {len(sent_r)} sent by the raw peer; sizes={szr} params={p}')
            ok = False
        if ep.rx_sdus != sent_b:
            r.bad(f'sdu/bumble-to-raw/{"lost" if len(ep.rx_sdus) < len(sent_b) else "corrupt"}{tag}{after}',
                  f'{len(ep.rx_sdus)} SDUs reached the raw peer, {len(sent_b)} written; sizes={szb} accepted={acc} params={p}')
            ok = False
        return ok

    ok = await round_(sizes_b, sizes, '')
    if ok and p['idle_round']:
        # nothing for longer than the retransmission (2 s) / monitor (12 s) time-out, then more SDUs
        await asyncio.sleep(p['idle_round'])
        await rg.quiesce()
        r.ev('rawcfg_idle_rounds')
        ok = await round_(sizes_b[-3:] if ertm else sizes[:2], sizes[:2], '/after-idle')
    for w in ep.wire_errors:
        r.bad(f'sdu/wire{tag}', f'{w}; params={p}')
    # ---- the data phase against the values of the request bumble ACCEPTED: what the raw peer counted itself, and
    #      the wire oracle over bumble's boundary log (it takes the values of the LAST request the peer sent)
    r.ev('oracle_evals', 2)
    for clause, text in ep.ertm_errors[:3]:
        r.bad(f'ertm/{clause}/counted-by-raw-peer{tag}', f'{text}; accepted={acc} trace={ep.trace}')
    ws = wire_check(rg.boundary_log, 0, r, p['mode'], False, tag)
    if ertm:
        r.ev('rawcfg_ertm_data_phases')
        r.ev('rawcfg_iframes_to_raw_peer', ws['iframes'])
        r.ev('rawcfg_segmented_sdus_to_raw_peer', ep.segmented_sdus)
        if p['ack'] == 'lazy':
            r.ev('rawcfg_lazy_ack_cases')
        if ep.max_unacked >= acc['window']:
            r.ev('rawcfg_window_filled_at_raw_peer')
            if ep.refused:
                r.ev('rawcfg_window_filled_after_refused_request')
    # ---- close: both ends closed, table empty
    if p['close_by'] == 'bumble':
        try:
            await vloop.vwait(ch.disconnect())
        except vloop.Hang:
            r.bad(f'setup/close-hang{tag}', 'disconnect() pending at T_v although the raw peer answers')
    else:
        ep.sig(rl.CODE_DISC_REQ, ep.nid(), struct.pack('<HH', ep.peer_cid, ep.my_cid), 'DiscReq')
    await rg.quiesce()
    r.ev('oracle_evals')
    table = {cid: c.state.name for cid, c in mgr0.channels.get(ca.handle, {}).items()}
    if ch.state != CLOSED or not ep.closed or table:
        r.bad(f'setup/close-disagree{tag}', f'after a close by {p["close_by"]}: bumble end {ch.state.name}, raw end '
                                            f'{"closed" if ep.closed else "open"}, table={table}')
    for where, e in rg.exceptions:
        r.bad(f'sdu/exception-in-stack{tag}', f'{where}: {e}; params={p}')
    r.sig('rawcfg', p['role'], p['order'], p['mode'], bool(p['conn_pending']), p['renegotiate'], p['rsp_continuation'],
          p['req_split'], tuple(p['paces']), p['raw_cid'],
          p['raw_mtu'], p['bumble_mtu'], p['delay'], repr(p['refusals']), p['ack'], p['idle_round'])
    r.sched.add(rg.schedule_signature)
    r.evals()
    r.sample = {'kind': 'rawcfg', 'params': {k: v for k, v in p.items()}, 'trace': ep.trace[:24]}

# -----------------------------------------------------------------------------
# ERTM channels over TIME: bursts, idle periods around / beyond the retransmission and monitor
# time-outs, then more traffic; several cycles; both directions
# -----------------------------------------------------------------------------
def idle_class(idle, rto, mto):
    if idle == 0:
        return 'no-idle'
    if idle < rto:
        return 'idle-below-retransmission-timeout'
    if idle < rto + mto:
        return 'idle-beyond-retransmission-timeout'
    return 'idle-beyond-monitor-timeout'


async def ertmtime(case, r: R):
    """Two bumble ends in ERTM. Cycles of (burst of SDUs written back to back by one or both ends - single
    frames, segmented SDUs, more frames than the window - every SDU at the other sink; then NOTHING for a seeded
    stretch of virtual time: none, below / just past the retransmission time-out, past retransmission + monitor
    time-out, several of them). Every SDU of every later cycle must still arrive, exactly once and in order: a
    channel that is fully acknowledged has no timer that may change its state."""
    from bumble import l2cap
    from vlib import rig as vrig
    rng = random.Random(case['seed'])
    vrig.seed_entropy(case['seed'])
    specs = []
    for _ in range(2):
        d = gen_spec(rng)
        d['mode'] = 'ertm'
        d['fcs_enabled'] = rng.random() < 0.25
        d['rto'] = rng.choice([2.0, 2.0, 2.0, 0.5, 1.0])      # 2 s is the default
        d['mto'] = rng.choice([12.0, 12.0, 3.0, 1.0])         # 12 s is the default
        specs.append(d)
    cs, ss = specs

    def mk(d):
        sp = mkspec(d, PSM)
        sp.retransmission_timeout = d['rto']
        sp.monitor_timeout = d['mto']
        return sp
    rg = vrig.Rig(2, seed=case['seed'], max_delay=rng.choice([0, 0, 1, 3]), classic=True,
                  acl_len=[rng.choice([64, 339, 1021]) for _ in range(2)], acl_num=[rng.choice([1, 2, 8]) for _ in range(2)])
    for d in rg.devices:
        d.l2cap_channel_manager.extended_features.update({
            l2cap.L2CAP_Information_Request.ExtendedFeatures.ENHANCED_RETRANSMISSION_MODE,
            l2cap.L2CAP_Information_Request.ExtendedFeatures.FCS_OPTION})
    await rg.power_on()
    ca, cb = await rg.connect_classic(0, 1)
    accepted = []
    rg.devices[1].create_l2cap_server(spec=mk(ss), handler=accepted.append)
    await rg.quiesce()
    try:
        ch = await vloop.vwait(ca.create_l2cap_channel(spec=mk(cs)))
    except vloop.Hang:
        r.bad('setup/hang/ertm-to-ertm', f'create_l2cap_channel pending at T_v; client={cs} server={ss}')
        return
    except Exception as e:
        r.bad('setup/refused-compatible/ertm-to-ertm', f'{type(e).__name__}: {e}; client={cs} server={ss}')
        return
    await rg.quiesce()
    sv = accepted[0]
    ends = [ch, sv]
    got = [[], []]          # got[i]: SDUs at the sink of end i
    sent = [[], []]         # sent[i]: SDUs written by end i
    ch.sink = got[0].append
    sv.sink = got[1].append
    mtu = min(cs['mtu'], ss['mtu'], 3000)
    if ch.fcs_enabled:
        mtu = min(mtu, 65529)
    # the time-outs that govern end i as a SENDER are those of its own spec
    hist = []
    prev_idle = 'no-idle'
    longest = 'no-idle'
    order = ['no-idle', 'idle-below-retransmission-timeout', 'idle-beyond-retransmission-timeout', 'idle-beyond-monitor-timeout']
    n_cycles = rng.randint(3, 6)
    for cyc in range(n_cycles):
        dirs = rng.choice([[0], [1], [0, 1], [0, 1]])
        burst = {}
        for d in dirs:
            peer = (ss, cs)[d]
            pm = peer['mps']
            kind = rng.choice(['single', 'pair', 'segmented', 'over-window', 'mixed'])
            if kind == 'single':
                sizes = [rng.randint(1, min(mtu, pm))]
            elif kind == 'pair':
                sizes = [rng.randint(1, min(mtu, pm)) for _ in range(rng.randint(2, 4))]
            elif kind == 'segmented':
                sizes = [min(mtu, pm * rng.randint(2, 6) + rng.randint(0, 3))]
            elif kind == 'over-window':
                sizes = [rng.randint(1, min(mtu, pm)) for _ in range(min(70, peer['tx_window_size'] + rng.randint(1, 5)))]
            else:
                sizes = [rng.choice([1, min(mtu, pm), min(mtu, pm + 1), min(mtu, 3 * pm + 2)]) for _ in range(rng.randint(2, 6))]
            burst[d] = (kind, sizes)
        for d in dirs:
            for size in burst[d][1]:
                n = len(sent[d])
                sdu = bytes([(n * 29 + i * 5 + d + cyc) & 0xFF for i in range(size)])
                try:
                    ends[d].write(sdu)
                except Exception as e:
                    r.bad(f'sdu/write-raised/ertm/over-time/after-{prev_idle}', f'write of {size} bytes in cycle {cyc} raised '
                                                                               f'{type(e).__name__}: {e}; client={cs} server={ss} history={hist}')
                    return
                sent[d].append(sdu)
                if rng.random() < 0.2:
                    await asyncio.sleep(0)

        async def done():
            while len(got[1]) < len(sent[0]) or len(got[0]) < len(sent[1]):
                await asyncio.sleep(0.05)
        stalled = False
        try:
            await vloop.vwait(done(), 120)
        except vloop.Hang:
            stalled = True
        await rg.quiesce()
        hist.append((cyc, {d: burst[d] for d in dirs}, 'then idle'))
        for d in (0, 1):
            r.ev('sdu_checks')
            r.ev('time_sdu_checks')
            r.ev('oracle_evals')
            g = [bytes(x) for x in got[1 - d]]
            if g != sent[d]:
                who = ('client', 'server')[d]
                what = 'stalled' if len(g) < len(sent[d]) and g == sent[d][:len(g)] else 'duplicated' if len(g) > len(sent[d]) else 'corrupt'
                p_ = ends[d].processor
                r.bad(f'sdu/{what}/ertm/over-time/after-{prev_idle}',
                      f'cycle {cyc}: {len(g)}/{len(sent[d])} SDUs written by the {who} arrived (longest idle so far: {longest}); sender '
                      f'has {len(getattr(p_, "_pending_pdus", []))} frames queued, {len(getattr(p_, "_tx_window", []))} unacknowledged, '
                      f'monitor timer {"armed" if getattr(p_, "_monitor_handle", None) else "off"}; client={cs} server={ss} history={hist}')
                stalled = True
        if stalled:
            break
        if prev_idle != 'no-idle':
            r.ev('time_cycles_after_idle')
            r.ev(f'time_cycles_after_{prev_idle}')
            if any(len(burst[d][1]) > 1 or burst[d][0] == 'segmented' for d in dirs):
                r.ev('time_multi_frame_bursts_after_idle')
        # ---- nothing happens for a while
        d0 = dirs[0]
        own = (cs, ss)[d0]
        rto, mto = own['rto'], own['mto']
        idle = rng.choice([0, 0.4 * rto, rto - 0.05, rto + 0.05, 1.5 * rto, rto + 0.5 * mto, rto + mto + 0.1,
                           2.5 * (rto + mto), 5 * (rto + mto)])
        if idle:
            await asyncio.sleep(idle)
            try:
                await rg.quiesce()
            except vloop.Hang:
                r.bad('sdu/livelock/ertm/over-time', f'no quiescence after {idle} idle seconds; client={cs} server={ss}')
                return
        # class w.r.t. the SMALLER time-outs of the ends that have sent so far
        senders = [x for x, s_ in zip((cs, ss), sent) if s_]
        prev_idle = max((idle_class(idle, x['rto'], x['mto']) for x in senders), key=order.index)
        longest = max(longest, prev_idle, key=order.index)
        hist[-1] = (cyc, {d: burst[d] for d in dirs}, f'idle {idle:.2f}s')
        r.ev('time_idle_periods')
        # an idle channel that is fully acknowledged stays open at both ends
        r.ev('oracle_evals')
        if ch.state != l2cap.ClassicChannel.State.OPEN or sv.state != l2cap.ClassicChannel.State.OPEN:
            r.bad(f'setup/closed-while-idle/ertm/{prev_idle}', f'client {ch.state.name}, server {sv.state.name} after {idle}s idle')
            return
    fcs = ch.fcs_enabled
    s0 = wire_check(rg.boundary_log, 0, r, 'ertm', fcs, '/ertm')
    s1 = wire_check(rg.boundary_log, 1, r, 'ertm', fcs, '/ertm')
    for where, e in rg.exceptions:
        r.bad('sdu/exception-in-stack/ertm', f'{where}: {e}; over-time client={cs} server={ss}')
    r.ev('time_cases')
    r.sig('ertmtime', tuple(sorted(cs.items())), tuple(sorted(ss.items())), repr(hist))
    r.sched.add(rg.schedule_signature)
    r.evals()
    r.sample = {'kind': 'ertmtime', 'client': cs, 'server': ss, 'history': [[h[0], {k: [v[0], v[1][:6]] for k, v in h[1].items()}, h[2]] for h in hist],
                'iframes': s0['iframes'] + s1['iframes'], 'virtual_seconds': round(asyncio.get_running_loop().time(), 2)}


# -----------------------------------------------------------------------------
# set-ups issued back to back: refused / abandoned set-up then an IMMEDIATE retry, close then an immediate open
# -----------------------------------------------------------------------------
async def retry(case, r: R):
    """Two bumble ends, two servers on the acceptor: PSM_A whose spec does NOT go with the client's (other mode,
    or an FCS the client cannot do) and PSM_B whose spec does. A seeded chain of set-ups is issued WITHOUT waiting
    for quiescence in between (no pause at all / a few loop turns / full quiescence), so that the tail of one
    attempt (Disconnection Request/Response of the abandoned channel, whose CID is free again) is still in flight
    when the next begins: every attempt towards B ends open/open in one mode and carries an SDU each way, every
    attempt towards A ends closed/closed, none stays pending; in between a channel is closed by one end or by both
    at once and the next set-up follows immediately."""
    from bumble import l2cap
    from vlib import rig as vrig
    rng = random.Random(case['seed'])
    vrig.seed_entropy(case['seed'])
    cs = gen_spec(rng)
    good = gen_spec(rng)
    good['mode'] = cs['mode']
    bad = gen_spec(rng)
    bad['mode'] = 'basic' if cs['mode'] == 'ertm' else 'ertm'
    for d in (cs, good, bad):
        d['fcs_enabled'] = False
        d['mtu'] = rng.choice([48, 256, 1024])
    rg = vrig.Rig(2, seed=case['seed'], max_delay=rng.choice([0, 1, 1, 3, 5]), classic=True,
                  acl_len=[rng.choice([27, 64, 339, 1021]) for _ in range(2)], acl_num=[rng.choice([1, 2, 8]) for _ in range(2)])
    for d in rg.devices:
        d.l2cap_channel_manager.extended_features.update({
            l2cap.L2CAP_Information_Request.ExtendedFeatures.ENHANCED_RETRANSMISSION_MODE})
    await rg.power_on()
    ca, cb = await rg.connect_classic(0, 1)
    acc = {'A': [], 'B': []}
    PSM_A, PSM_B = PSM + 6, PSM + 8
    rg.devices[1].create_l2cap_server(spec=mkspec(bad, PSM_A), handler=acc['A'].append)
    rg.devices[1].create_l2cap_server(spec=mkspec(good, PSM_B), handler=acc['B'].append)
    await rg.quiesce()
    OPEN = l2cap.ClassicChannel.State.OPEN
    CLOSED = l2cap.ClassicChannel.State.CLOSED
    mgr0, mgr1 = (d.l2cap_channel_manager for d in rg.devices)
    tagm = f'/{cs["mode"]}-to-{bad["mode"]}'
    hist = []
    live = []            # (client end, acceptor end)
    prev = 'start'       # what the previous step was: discriminates the mechanism key
    counter = [0]

    async def gap():
        g = rng.choice(['none', 'none', 'none', 'turns', 'quiesce'])
        if g == 'turns':
            for _ in range(rng.randint(1, 8)):
                await asyncio.sleep(0)
        elif g == 'quiesce':
            await rg.quiesce()
        return g

    async def settle_and_check(after):
        await rg.quiesce()
        await asyncio.sleep(0.5)
        await rg.quiesce()
        r.ev('oracle_evals')
        t0 = sorted(mgr0.channels.get(ca.handle, {}))
        t1 = sorted(mgr1.channels.get(cb.handle, {}))
        w0 = sorted(c.source_cid for c, _ in live)
        w1 = sorted(s.source_cid for _, s in live)
        ok = True
        if t0 != w0 or t1 != w1:
            r.bad(f'setup/tables-after-back-to-back/{after}{tagm}', f'client table {t0} (open {w0}), acceptor table {t1} (open {w1}); history={hist}')
            ok = False
        for s in acc['A'] + acc['B']:
            if s.state not in (OPEN, CLOSED) or (s.state == OPEN and not any(s is x for _, x in live)):
                r.bad(f'setup/disagree/acceptor-end-left-{s.state.name}/{after}{tagm}',
                      f'an acceptor end is {s.state.name} at quiescence, the client holds {len(live)} channels; history={hist}')
                ok = False
        return ok

    async def sdus(pair, after):
        c, s = pair
        gc, gs = [], []
        c.sink, s.sink = gc.append, gs.append
        counter[0] += 1
        a = bytes([(counter[0] + 3 * i) & 0xFF for i in range(rng.choice([1, 30, min(cs['mtu'], good['mtu'])]))])
        b = bytes([(counter[0] + 7 * i) & 0xFF for i in range(rng.choice([1, 30, min(cs['mtu'], good['mtu'])]))])
        c.write(a)
        s.write(b)

        async def done():
            while not gc or not gs:
                await asyncio.sleep(0.05)
        try:
            await vloop.vwait(done(), 60)
        except vloop.Hang:
            pass
        r.ev('sdu_checks', 2)
        r.ev('retry_sdu_checks', 2)
        r.ev('oracle_evals', 2)
        if [bytes(x) for x in gs] != [a] or [bytes(x) for x in gc] != [b]:
            r.bad(f'sdu/lost-or-corrupt/{cs["mode"]}/after-back-to-back/{after}',
                  f'acceptor got {[len(x) for x in gs]} (sent {len(a)}), client got {[len(x) for x in gc]} (sent {len(b)}); history={hist}')
            return False
        return True

    steps = rng.randint(3, 7)
    for step in range(steps):
        target = rng.choice(['A', 'A', 'B', 'B', 'B'])
        if step == 0 and rng.random() < 0.6:
            target = 'A'
        g = await gap() if step else 'start'
        hist.append((prev, g, 'open-' + target))
        after = f'{prev}-then-open'
        n_before = len(acc[target])
        r.ev('retry_setups')
        r.ev('setup_checks')
        if g in ('none', 'turns') and prev != 'start':
            r.ev('retry_setups_without_quiescence')
            r.ev(f'retry_{prev}_then_open_without_quiescence')
        ch = None
        outcome = 'open'
        try:
            ch = await vloop.vwait(ca.create_l2cap_channel(spec=mkspec(cs, PSM_A if target == 'A' else PSM_B)))
        except vloop.Hang:
            r.bad(f'setup/hang/back-to-back/{after}{tagm}', f'create_l2cap_channel towards the {"mismatching" if target == "A" else "matching"} '
                                                             f'server pending at T_v; history={hist} client={cs}')
            return
        except Exception as e:
            outcome = f'{type(e).__name__}: {e}'
        r.ev('oracle_evals')
        if target == 'A':
            if ch is not None:
                r.bad(f'setup/mode-disagree/back-to-back{tagm}', f'set-up towards a {bad["mode"]} server returned an open channel; history={hist}')
                return
            prev = 'refused-setup'
            if rng.random() < 0.3:
                if not await settle_and_check(after):
                    return
            continue
        if ch is None:
            r.bad(f'setup/refused-compatible/back-to-back/{after}{tagm}', f'compatible set-up failed: {outcome}; history={hist} client={cs} server={good}')
            return
        # the acceptor end appears once the signalling has gone through
        try:
            await rg.quiesce()
        except vloop.Hang:
            r.bad(f'setup/livelock/back-to-back{tagm}', f'no quiescence; history={hist}')
            return
        new = [x for x in acc['B'][n_before:] if x.source_cid == ch.destination_cid]
        if ch.state != OPEN or len(new) != 1 or new[0].state != OPEN or type(new[0].processor) is not type(ch.processor):
            r.bad(f'setup/disagree/client-open/back-to-back/{after}{tagm}',
                  f'client {ch.state.name}, acceptor ends {[x.state.name for x in acc["B"][n_before:]]}; history={hist}')
            return
        pair = (ch, new[0])
        live.append(pair)
        r.ev('retry_opens')
        if not await sdus(pair, after):
            return
        prev = 'open'
        x = rng.random()
        if x < 0.75:
            how = rng.choice(['client', 'acceptor', 'both', 'both'])
            live.remove(pair)
            try:
                if how == 'both':
                    # the client's next step follows as soon as ITS disconnect() has returned
                    t2 = asyncio.ensure_future(pair[1].disconnect())
                    await vloop.vwait(pair[0].disconnect())
                    pend = t2
                elif how == 'client':
                    await vloop.vwait(pair[0].disconnect())
                    pend = None
                else:
                    pend = asyncio.ensure_future(pair[1].disconnect())
                    await asyncio.sleep(0)
            except vloop.Hang:
                r.bad(f'setup/close-hang/back-to-back{tagm}', f'disconnect() by {how} pending at T_v; history={hist}')
                return
            except Exception:
                pend = None
            if pend is not None:
                pend.add_done_callback(lambda f: f.cancelled() or f.exception())
            prev = {'both': 'crossing-closes', 'client': 'close', 'acceptor': 'close-by-peer'}[how]
            r.ev('retry_closes')
    await settle_and_check('end')
    for where, e in rg.exceptions:
        r.bad(f'sdu/exception-in-stack/{cs["mode"]}', f'{where}: {e}; back-to-back history={hist}')
    r.ev('retry_cases')
    r.sig('retry', tuple(sorted(cs.items())), bad['mode'], tuple(hist))
    r.sched.add(rg.schedule_signature)
    r.evals()
    r.sample = {'kind': 'retry', 'client': cs, 'mismatching_server': bad, 'matching_server': good, 'history': hist}


async def run_case(case, r: R):
    if case['kind'] == 'multi':
        await multi(case, r)
    elif case['kind'] == 'rawcfg':
        await rawcfg(case, r)
    elif case['kind'] == 'ertmtime':
        await ertmtime(case, r)
    elif case['kind'] == 'retry':
        await retry(case, r)
    else:
        await xfer(case, r)


LEVEL_TEXT = ('SDU-sequence equality plus an independent ERTM wire parser (TxSeq continuity, window bound from the '
              "peer's Configuration Request, MPS, FCS by own CRC-16, SAR legality) and an open/open-or-closed/closed "
              'set-up oracle over ~200 (quick) / ~4000 (thorough) generated spec pairs and SDU sequences on real '
              'BR/EDR rigs, plus ~480 (quick) / ~4000 (thorough) set-ups against a hand-driven peer that orders the '
              'configuration exchange in every legal way with bumble in either role (refused requests advertising other '
              'values before the accepted one, late acknowledgements, idle stretches), ~160 / ~1600 ERTM channels over virtual '
              'time (bursts and idle stretches around the retransmission / monitor time-outs) and ~160 / ~1600 chains of '
              'set-ups issued back to back without quiescence (refused set-up, close, crossing closes, then at once the next). '
              'Sampling of specs and sequences; '
              'no loss, so retransmission is not exercised.')
LEVEL_NOTE = ('Trusted: the wire parser and CRC in checks/c08.py, vlib/ref_l2cap.py signalling parser, rig taps, '
              'independent ACL reassembler, virtual-time loop.')
TECHNIQUE = 'runtime monitoring: offline ERTM wire-log checker + SDU sequence equality + set-up agreement oracle'
