"""C08 — classic L2CAP channels (Basic / ERTM): every SDU once, in order; ERTM window,
sequence numbers, FCS and SAR on the wire; set-up ends open/open (same mode) or closed/closed.

Monitors
  sdu      SDUs at each sink == SDUs written (count, order, bytes), both directions
  wire     independent ERTM frame parser over the sender's host-boundary log:
           TxSeq = previous+1 mod 64, unacknowledged I-frames <= TxWindow the peer put in
           its Configuration Request, I-frame payload <= peer MPS, FCS (own CRC-16) right
           when negotiated and absent when not, legal SAR sequences, SDU length field right
  setup    after create_l2cap_channel settles: both ends OPEN in one mode or both closed,
           never pending at T_v, for every pair of client/server specs incl. mismatches
"""
from __future__ import annotations

import asyncio
import random
import struct

from vlib import vloop
from vlib import ref_l2cap as rl
from vlib.result import R

ID = 'C08'
LEVEL = 'exploration'
RULE = ('seeded cases over (client spec, server spec, SDU size sequences both ways, ACL geometry, delays); '
        'non-trivial when the modes/FCS of the two specs differ, or an SDU was segmented, or TxSeq wrapped past '
        '63, or the window filled; distinct = distinct spec pair + SDU size sequence')
ASSUMPTIONS = [
    'no frame loss on the virtual link, so retransmission paths are not exercised',
    'SDU sizes are kept <= min(client MTU, server MTU): larger SDUs are an API misuse the statement does not cover',
    'TxWindow in a Configuration Request is the number of I-frames its sender can receive unacknowledged',
    'with an FCS negotiated, SDUs are kept small enough for payload + FCS to fit the 16-bit L2CAP length field',
]
MIN_EVENTS = {
    'quick': {'sdu_checks': 900, 'wire_iframes': 20000, 'setup_checks': 800, 'fcs_checked': 15000, 'seq_wraps': 100,
              'multi_sdu_checks': 1500, 'multi_channels_with_different_cids': 100, 'multi_closes': 80},
    'thorough': {'sdu_checks': 4000, 'wire_iframes': 100000, 'setup_checks': 3000, 'fcs_checked': 10000, 'seq_wraps': 100,
                 'multi_sdu_checks': 15000, 'multi_channels_with_different_cids': 1000, 'multi_closes': 800},
}
CASE_TIMEOUT = 300

PSM = 0x1001


def plan(tier, seed):
    n = 900 if tier == 'quick' else 6000
    m = 150 if tier == 'quick' else 1500
    return ([{'kind': 'xfer', 'seed': seed * 1000003 + i, 'tier': tier} for i in range(n)] +
            [{'kind': 'multi', 'seed': seed * 1000003 + 50000 + i, 'tier': tier} for i in range(m)])


def crc16(data: bytes) -> int:
    # L2CAP FCS: g(D) = D^16 + D^15 + D^2 + 1, LSB first, initial value 0
    crc = 0
    for b in data:
        crc ^= b
        for _ in range(8):
            crc = (crc >> 1) ^ 0xA001 if crc & 1 else crc >> 1
    return crc


def gen_spec(rng):
    ertm = rng.random() < 0.7
    return dict(
        mode='ertm' if ertm else 'basic',
        mtu=rng.choice([48, 256, 1024, 2000, 65535]),
        mps=rng.choice([23, 48, 100, 1010]),
        tx_window_size=rng.choice([1, 2, 8, 63]),
        fcs_enabled=rng.random() < 0.4,
    )


def mkspec(d, psm):
    from bumble import l2cap
    return l2cap.ClassicChannelSpec(
        psm=psm, mtu=d['mtu'], mps=d['mps'], tx_window_size=d['tx_window_size'], fcs_enabled=d['fcs_enabled'],
        mode=l2cap.TransmissionMode.ENHANCED_RETRANSMISSION if d['mode'] == 'ertm' else l2cap.TransmissionMode.BASIC)


def parse_conf_options(data):
    out = {}
    off = 0
    while off + 2 <= len(data):
        t, ln = data[off] & 0x7F, data[off + 1]
        out[t] = data[off + 2: off + 2 + ln]
        off += 2 + ln
    return out


def wire_check(boundary_log, dev, r, expect_mode, expect_fcs, tag):
    """ERTM/basic wire oracle for device `dev` as a sender. Returns stats."""
    from vlib import rig as vrig
    pdus = vrig.l2cap_log(boundary_log, dev=dev)
    # channel discovery from signalling seen by dev
    my_scid_to_dcid = {}
    peer_conf = {}   # dcid (peer endpoint) -> options the peer sent in its Configuration Request to me
    st = {}          # dcid -> state
    stats = {'iframes': 0, 'wraps': 0, 'max_outstanding': 0, 'window_full': 0, 'segmented': 0}
    for _seq, _d, direction, handle, cid, payload in pdus:
        if cid == rl.BR_SIG:
            for code, ident, data in rl.parse_signalling(payload):
                if direction == vrig.C2H and code == rl.CODE_CONN_RSP and len(data) >= 8:
                    dcid, scid, result, _status = struct.unpack_from('<HHHH', data, 0)
                    if result == 0:
                        my_scid_to_dcid[scid] = dcid
                elif direction == vrig.H2C and code == rl.CODE_CONN_RSP and len(data) >= 8:
                    dcid, scid, result, _status = struct.unpack_from('<HHHH', data, 0)
                    if result == 0:
                        my_scid_to_dcid[dcid] = scid   # I am the acceptor: my cid = dcid, peer's = scid
                elif direction == vrig.C2H and code == rl.CODE_CONF_REQ and len(data) >= 4:
                    my_cid = struct.unpack_from('<H', data, 0)[0]
                    opts = parse_conf_options(data[4:])
                    if my_cid in my_scid_to_dcid:
                        peer_conf.setdefault(my_scid_to_dcid[my_cid], {}).update(opts)
            continue
        if cid < 0x40:
            continue
        if direction == vrig.H2C and cid in my_scid_to_dcid.values():
            dcid = cid
            conf = peer_conf.get(dcid, {})
            rfc = conf.get(0x04)
            s = st.setdefault(dcid, {'next': 0, 'acked': 0, 'sar': 'idle', 'left': 0})
            if expect_mode != 'ertm':
                r.ev('wire_basic_frames')
                continue
            if rfc is None or rfc[0] != 3:
                continue
            window, _maxtx, _rto, _mto, peer_mps = struct.unpack_from('<BBHHH', rfc, 1)
            body = payload
            if expect_fcs:
                r.ev('fcs_checked')
                r.ev('oracle_evals')
                if len(body) < 4:
                    r.bad(f'ertm/fcs/frame-too-short{tag}', f'frame of {len(body)} bytes cannot carry control+FCS')
                    continue
                fcs = struct.unpack_from('<H', body, len(body) - 2)[0]
                hdr = struct.pack('<HH', len(body), cid)
                if crc16(hdr + body[:-2]) != fcs:
                    r.bad(f'ertm/fcs/wrong{tag}', f'FCS {fcs:#06x} != CRC-16 {crc16(hdr + body[:-2]):#06x} on frame '
                                                   f'{body[:8].hex()}.. len={len(body)}')
                body = body[:-2]
            ctrl = struct.unpack_from('<H', body, 0)[0]
            if ctrl & 1:
                r.ev('wire_sframes')
                continue
            txseq = (ctrl >> 1) & 0x3F
            sar = (ctrl >> 14) & 3
            info = body[2:]
            stats['iframes'] += 1
            r.ev('wire_iframes')
            r.ev('oracle_evals', 3)
            if txseq != s['next']:
                r.bad(f'ertm/txseq-gap{tag}', f'I-frame TxSeq {txseq}, expected {s["next"]} (dcid {dcid:#x})')
            s['next'] = (txseq + 1) % 64
            if s['next'] == 0:
                stats['wraps'] += 1
                r.ev('seq_wraps')
            outstanding = (s['next'] - s['acked']) % 64
            stats['max_outstanding'] = max(stats['max_outstanding'], outstanding)
            if outstanding == window:
                stats['window_full'] += 1
            if outstanding > window or (outstanding == 0 and window < 64):
                r.bad(f'ertm/window-exceeded{tag}',
                      f'{outstanding or 64} unacknowledged I-frames > peer TxWindow {window} (dcid {dcid:#x})')
            # SAR legality and sizes
            if sar == 1:
                if s['sar'] != 'idle':
                    r.bad(f'ertm/sar-illegal{tag}', f'START while an SDU is open')
                if len(info) < 2:
                    r.bad(f'ertm/sar-illegal{tag}', 'START without SDU length')
                    continue
                total = struct.unpack_from('<H', info, 0)[0]
                info = info[2:]
                s['sar'] = 'open'
                s['left'] = total - len(info)
                stats['segmented'] += 1
                if s['left'] <= 0:
                    r.bad(f'ertm/sdu-length{tag}', f'START carries {len(info)} of announced {total}')
            elif sar in (2, 3):
                if s['sar'] != 'open':
                    r.bad(f'ertm/sar-illegal{tag}', f'{"END" if sar == 2 else "CONTINUATION"} without START')
                s['left'] -= len(info)
                if sar == 2:
                    if s['left'] != 0:
                        r.bad(f'ertm/sdu-length{tag}', f'END leaves {s["left"]} bytes of the announced SDU length')
                    s['sar'] = 'idle'
                elif s['left'] <= 0:
                    r.bad(f'ertm/sdu-length{tag}', f'CONTINUATION overruns the announced SDU length')
            else:
                if s['sar'] != 'idle':
                    r.bad(f'ertm/sar-illegal{tag}', 'UNSEGMENTED inside an open SDU')
            if len(info) > peer_mps:
                r.bad(f'ertm/mps-exceeded{tag}', f'I-frame information of {len(info)} bytes > peer MPS {peer_mps}')
        elif direction == vrig.C2H and cid in my_scid_to_dcid and expect_mode == 'ertm':
            dcid = my_scid_to_dcid[cid]
            s = st.setdefault(dcid, {'next': 0, 'acked': 0, 'sar': 'idle', 'left': 0})
            body = payload[:-2] if expect_fcs else payload
            if len(body) >= 2:
                ctrl = struct.unpack_from('<H', body, 0)[0]
                req = (ctrl >> 8) & 0x3F
                # acknowledgements only ever move forward within the outstanding range
                if (req - s['acked']) % 64 <= (s['next'] - s['acked']) % 64:
                    s['acked'] = req
    return stats


async def xfer(case, r: R):
    from bumble import l2cap
    from vlib import rig as vrig
    rng = random.Random(case['seed'])
    vrig.seed_entropy(case['seed'])
    cs, ss = gen_spec(rng), gen_spec(rng)
    if rng.random() < 0.5:
        ss['mode'] = cs['mode']          # bias to matching modes so that transfers happen
    lens = [rng.choice([27, 64, 339, 1021]) for _ in range(2)]
    nums = [rng.choice([1, 2, 8]) for _ in range(2)]
    delay = rng.choice([0, 0, 1, 3])
    rg = vrig.Rig(2, seed=case['seed'], max_delay=delay, classic=True, acl_len=lens, acl_num=nums)
    both_features = rng.random() < 0.85
    for d in rg.devices:
        feats = {l2cap.L2CAP_Information_Request.ExtendedFeatures.ENHANCED_RETRANSMISSION_MODE}
        if both_features:
            feats.add(l2cap.L2CAP_Information_Request.ExtendedFeatures.FCS_OPTION)
        d.l2cap_channel_manager.extended_features.update(feats)
    await rg.power_on()
    ca, cb = await rg.connect_classic(0, 1)
    accepted = []
    rg.devices[1].create_l2cap_server(spec=mkspec(ss, PSM), handler=accepted.append)
    await rg.quiesce()
    tag = f'/{cs["mode"]}-to-{ss["mode"]}'
    ch = None
    outcome = 'ok'
    try:
        ch = await vloop.vwait(ca.create_l2cap_channel(spec=mkspec(cs, PSM)))
    except vloop.Hang:
        r.bad(f'setup/hang{tag}' + ('' if both_features else '/fcs-unsupported'),
              f'create_l2cap_channel pending at T_v; client={cs} server={ss} livelock_jumps='
              f'{asyncio.get_running_loop().livelock_jumps}')
        return
    except Exception as e:
        outcome = f'{type(e).__name__}'
    try:
        await rg.quiesce()
    except vloop.Hang:
        r.bad(f'setup/livelock{tag}', f'signalling never quiesces after set-up; client={cs} server={ss}')
        return
    r.ev('setup_checks')
    r.ev(f'setup_outcome_{"open" if ch else "failed"}')
    sv = accepted[0] if accepted else None
    OPEN = l2cap.ClassicChannel.State.OPEN
    CLOSED = l2cap.ClassicChannel.State.CLOSED
    mgr0, mgr1 = (d.l2cap_channel_manager for d in rg.devices)
    r.ev('oracle_evals')
    if ch is not None:
        if not (ch.state == OPEN and sv is not None and sv.state == OPEN):
            r.bad(f'setup/disagree/client-open{tag}',
                  f'client OPEN but server end is {sv.state.name if sv else None}; client={cs} server={ss}')
            return
        if ch.mode != sv.mode or type(ch.processor) is not type(sv.processor):
            r.bad(f'setup/mode-disagree{tag}', f'client {ch.mode.name}/{type(ch.processor).__name__} vs server '
                                               f'{sv.mode.name}/{type(sv.processor).__name__}')
            return
        if ch.fcs_enabled != sv.fcs_enabled:
            r.bad(f'setup/fcs-disagree{tag}', f'client fcs={ch.fcs_enabled} server fcs={sv.fcs_enabled}; client={cs} server={ss}')
    else:
        # both closed: no OPEN server end, no table entries on either side
        left0 = list(mgr0.channels.get(ca.handle, {}))
        left1 = list(mgr1.channels.get(cb.handle, {}))
        if (sv is not None and sv.state != CLOSED) or left0 or left1:
            r.bad(f'setup/disagree/client-failed{tag}',
                  f'client failed with {outcome} but server end is {sv.state.name if sv else None}, tables '
                  f'client={left0} server={left1}; client={cs} server={ss}')
        if cs['mode'] == ss['mode'] and (both_features or not (cs['fcs_enabled'] or ss['fcs_enabled'])):
            r.bad(f'setup/refused-compatible{tag}', f'compatible specs failed to connect: {outcome}; client={cs} server={ss}')
        r.sig('setup-fail', tuple(sorted(cs.items())), tuple(sorted(ss.items())), both_features)
        r.sample = {'client': cs, 'server': ss, 'outcome': outcome}
        r.evals()
        return

    # ---- transfer -------------------------------------------------------------
    got_s, got_c = [], []
    sv.sink = got_s.append
    ch.sink = got_c.append
    mtu = min(cs['mtu'], ss['mtu'])
    mode = cs['mode']
    if ch.fcs_enabled:
        # with an FCS the largest information payload that fits the 16-bit L2CAP length is
        # 65533 (bumble also appends an FCS in Basic mode when the peer asked for one)
        mtu = min(mtu, 65533 - (4 if mode == 'ertm' else 0))
    mps_c2s = ss['mps'] if mode == 'ertm' else mtu
    pat = rng.choice(['wrap', 'edges', 'mixed', 'mixed'])
    budget = 6000 if case['tier'] == 'quick' else rng.choice([6000, 40000])

    def sizes(mps):
        if pat == 'wrap':
            # more than 64 I-frames
            if rng.random() < 0.5:
                return [rng.randint(1, min(mtu, 30)) for _ in range(rng.randint(66, 140))]
            return [min(mtu, mps * rng.randint(2, 5) + rng.randint(0, 3)) for _ in range(rng.randint(20, 40))]
        if pat == 'edges':
            return [max(1, min(mtu, x)) for x in (mps - 1, mps, mps + 1, 2 * mps - 1, 2 * mps, 2 * mps + 1, mtu - 1, mtu, 1)]
        return [rng.choice([1, 2, mps, mps + 1, rng.randint(1, mtu), min(mtu, 3 * mps + 2)]) for _ in range(rng.randint(2, 20))]

    def cap(lst):
        out, tot = [], 0
        for x in lst:
            x = min(x, mtu)
            if tot + x > budget * 4:
                break
            out.append(x)
            tot += x
        return out

    a_sizes = cap(sizes(mps_c2s))
    b_sizes = cap(sizes(cs['mps'] if mode == 'ertm' else mtu)) if rng.random() < 0.6 else []
    sent_a, sent_b = [], []
    steps = [('a', s) for s in a_sizes]
    bi = 0
    merged = []
    for st_ in steps:
        merged.append(st_)
        if bi < len(b_sizes) and rng.random() < 0.5:
            merged.append(('b', b_sizes[bi]))
            bi += 1
    merged += [('b', s) for s in b_sizes[bi:]]
    for who, size in merged:
        n = len(sent_a) if who == 'a' else len(sent_b)
        sdu = bytes([(n * 17 + i * 3 + (who == 'b')) & 0xFF for i in range(size)])
        try:
            (ch if who == 'a' else sv).write(sdu)
        except Exception as e:
            r.bad(f'sdu/write-raised/{mode}', f'write of {size} bytes raised {type(e).__name__}: {e}; client={cs} server={ss}')
            break
        (sent_a if who == 'a' else sent_b).append(sdu)
        if rng.random() < 0.3:
            await asyncio.sleep(0)

    async def done():
        while len(got_s) < len(sent_a) or len(got_c) < len(sent_b):
            await asyncio.sleep(0.05)

    try:
        await vloop.vwait(done())
    except vloop.Hang:
        r.bad(f'sdu/stalled/{mode}', f'server got {len(got_s)}/{len(sent_a)}, client got {len(got_c)}/{len(sent_b)} SDUs at T_v; '
                                     f'client={cs} server={ss} lens={lens} nums={nums}')
    await rg.quiesce()
    for name, got, sent in (('c2s', got_s, sent_a), ('s2c', got_c, sent_b)):
        r.ev('sdu_checks')
        r.ev('oracle_evals')
        if [bytes(x) for x in got] != sent:
            if len(got) == len(sent):
                k = next(i for i in range(len(sent)) if bytes(got[i]) != sent[i])
                r.bad(f'sdu/corrupt/{mode}', f'{name}: SDU #{k} differs: got {len(got[k])} bytes, sent {len(sent[k])}; '
                                              f'client={cs} server={ss}')
            elif len(got) > len(sent):
                r.bad(f'sdu/duplicated/{mode}', f'{name}: {len(got)} SDUs delivered, {len(sent)} written')
            elif [bytes(x) for x in got] != sent[:len(got)]:
                r.bad(f'sdu/corrupt/{mode}', f'{name}: delivered prefix differs from what was written')
    fcs = ch.fcs_enabled
    s0 = wire_check(rg.boundary_log, 0, r, mode, fcs, f'/{mode}')
    s1 = wire_check(rg.boundary_log, 1, r, mode, fcs, f'/{mode}')
    for where, e in rg.exceptions:
        r.bad(f'sdu/exception-in-stack/{mode}', f'{where}: {e}; client={cs} server={ss}')
    nontrivial = (cs['mode'] != ss['mode'] or cs['fcs_enabled'] != ss['fcs_enabled'] or s0['segmented'] or
                  s1['segmented'] or s0['wraps'] or s1['wraps'] or s0['window_full'] or s1['window_full'])
    if nontrivial:
        r.sig('xfer', tuple(sorted(cs.items())), tuple(sorted(ss.items())), tuple(a_sizes), tuple(b_sizes))
    r.ev('window_full_moments', s0['window_full'] + s1['window_full'])
    r.sched.add(rg.schedule_signature)
    r.evals()
    r.sample = {'client': cs, 'server': ss, 'acl_len': lens, 'acl_num': nums, 'delay': delay, 'sdus_c2s': a_sizes[:12],
                'sdus_s2c': b_sizes[:12], 'iframes': s0['iframes'] + s1['iframes'],
                'max_outstanding': max(s0['max_outstanding'], s1['max_outstanding'])}


async def multi(case, r: R):
    """Several channels on one link, opened from BOTH ends at the same time (so that the two CIDs of a
    channel differ), one of them closed by either end, a new one opened: before and after every step
    every open channel carries its own SDUs, exactly once and in order, in both directions."""
    from bumble import l2cap
    from vlib import rig as vrig
    rng = random.Random(case['seed'])
    vrig.seed_entropy(case['seed'])
    spec = gen_spec(rng)
    spec['mtu'] = rng.choice([48, 256, 1024])
    rg = vrig.Rig(2, seed=case['seed'], max_delay=rng.choice([0, 1, 3]), classic=True,
                  acl_len=[rng.choice([64, 339, 1021]) for _ in range(2)], acl_num=[rng.choice([2, 8]) for _ in range(2)])
    for d in rg.devices:
        d.l2cap_channel_manager.extended_features.update({
            l2cap.L2CAP_Information_Request.ExtendedFeatures.ENHANCED_RETRANSMISSION_MODE,
            l2cap.L2CAP_Information_Request.ExtendedFeatures.FCS_OPTION})
    await rg.power_on()
    ca, cb = await rg.connect_classic(0, 1)
    conns = [ca, cb]
    accepted = [[], []]
    psms = [PSM + 2, PSM + 4]
    for i in (0, 1):
        rg.devices[i].create_l2cap_server(spec=mkspec(spec, psms[i]), handler=accepted[i].append)
    await rg.quiesce()
    mode = spec['mode']
    chans = []      # dict(ends=[end on dev0, end on dev1], got=[[], []], sent=[[], []])
    hist = []
    counter = [0]

    async def open_from(side):
        n0 = len(accepted[1 - side])
        ch = await vloop.vwait(conns[side].create_l2cap_channel(spec=mkspec(spec, psms[1 - side])))
        return side, ch, n0

    def register(side, ch, peer_end):
        ends = [ch, peer_end] if side == 0 else [peer_end, ch]
        c = dict(ends=ends, got=[[], []], sent=[[], []], id=len(chans))
        ends[0].sink = c['got'][0].append
        ends[1].sink = c['got'][1].append
        chans.append(c)

    async def open_many(sides):
        before = [len(accepted[0]), len(accepted[1])]
        try:
            res = await asyncio.gather(*[open_from(sd) for sd in sides])
        except vloop.Hang:
            r.bad(f'multi/open-hang/{mode}', f'opening channels from sides {sides} pending at T_v; history={hist}')
            return False
        except Exception as e:
            r.bad(f'multi/open-failed/{mode}', f'{type(e).__name__}: {e}; sides {sides}; history={hist}')
            return False
        await rg.quiesce()
        for side, ch, _ in res:
            new = [x for x in accepted[1 - side][before[1 - side]:] if x.source_cid == ch.destination_cid]
            if len(new) != 1:
                r.bad(f'multi/open-mismatch/{mode}', f'no unique acceptor end for {ch}; history={hist}')
                return False
            register(side, ch, new[0])
            if ch.source_cid != ch.destination_cid:
                r.ev('multi_channels_with_different_cids')
        hist.append(('open', tuple(sides)))
        return True

    async def traffic(after):
        live = [c for c in chans if not c.get('closed')]
        for c in live:
            for dirn in (0, 1):
                for _ in range(rng.randint(1, 3)):
                    counter[0] += 1
                    size = rng.choice([1, 2, spec['mps'], spec['mps'] + 1, spec['mtu']])
                    size = min(size, spec['mtu'])
                    sdu = bytes([c['id'], dirn]) + bytes([(counter[0] + i) & 0xFF for i in range(size - 2)]) if size >= 2 else bytes([counter[0] & 0xFF])
                    c['ends'][dirn].write(sdu)
                    c['sent'][dirn].append(sdu)

        async def done():
            while any(len(c['got'][1 - dirn]) < len(c['sent'][dirn]) for c in live for dirn in (0, 1)):
                await asyncio.sleep(0.05)
        try:
            await vloop.vwait(done())
        except vloop.Hang:
            pass
        await rg.quiesce()
        ok = True
        for c in live:
            for dirn in (0, 1):
                r.ev('multi_sdu_checks')
                r.ev('oracle_evals')
                got = [bytes(x) for x in c['got'][1 - dirn]]
                if got != c['sent'][dirn]:
                    e0, e1 = c['ends']
                    kind_ = 'lost' if len(got) < len(c['sent'][dirn]) else 'corrupt-or-extra'
                    r.bad(f'multi/sdu/{kind_}/{mode}/after-{after}',
                          f'channel {e0.source_cid:#x}<->{e1.source_cid:#x} dev{dirn}->dev{1 - dirn}: '
                          f'{len(got)} SDUs delivered, {len(c["sent"][dirn])} written; history={hist} spec={spec}')
                    ok = False
        return ok

    if not await open_many([0, 1] + ([rng.randrange(2)] if rng.random() < 0.5 else [])):
        return
    if await traffic('open'):
        for step in range(rng.randint(1, 3)):
            live = [c for c in chans if not c.get('closed')]
            if len(live) > 1 and rng.random() < 0.7:
                c = rng.choice(live)
                side = rng.randrange(2)
                try:
                    await vloop.vwait(c['ends'][side].disconnect())
                except vloop.Hang:
                    r.bad(f'multi/close-hang/{mode}', f'disconnect() pending at T_v; history={hist}')
                    break
                c['closed'] = True
                await rg.quiesce()
                hist.append(('close', c['id'], side, c['ends'][0].source_cid, c['ends'][1].source_cid))
                r.ev('multi_closes')
                if not await traffic('close'):
                    break
            else:
                if not await open_many([rng.randrange(2)]):
                    break
                if not await traffic('reopen'):
                    break
    for where, e in rg.exceptions:
        r.bad(f'sdu/exception-in-stack/{mode}', f'{where}: {e}; multi history={hist}')
    r.ev('multi_cases')
    r.sig('multi', tuple(sorted(spec.items())), tuple(hist))
    r.sched.add(rg.schedule_signature)
    r.evals()
    r.sample = {'kind': 'multi', 'spec': spec, 'history': hist}


async def run_case(case, r: R):
    if case['kind'] == 'multi':
        await multi(case, r)
    else:
        await xfer(case, r)


LEVEL_TEXT = ('SDU-sequence equality plus an independent ERTM wire parser (TxSeq continuity, window bound from the '
              "peer's Configuration Request, MPS, FCS by own CRC-16, SAR legality) and an open/open-or-closed/closed "
              'set-up oracle over ~200 (quick) / ~4000 (thorough) generated spec pairs and SDU sequences on real '
              'BR/EDR rigs. Sampling of specs and sequences; no loss, so retransmission is not exercised.')
LEVEL_NOTE = ('Trusted: the wire parser and CRC in checks/c08.py, vlib/ref_l2cap.py signalling parser, rig taps, '
              'independent ACL reassembler, virtual-time loop.')
TECHNIQUE = 'runtime monitoring: offline ERTM wire-log checker + SDU sequence equality + set-up agreement oracle'
